package main

import (
	"bytes"
	"context"
	"errors"
	"fmt"
	"io"
	"sync"

	"github.com/superfly/litefs"
	"github.com/superfly/ltx"
)

// callRec is one call the store made on its BackupClient.
type callRec struct {
	Kind   string             `json:"kind"` // PosMap | WriteTx | FetchSnapshot
	PosMap map[string]ltx.Pos `json:"posmap,omitempty"`
	Min    uint64             `json:"min,omitempty"`
	Max    uint64             `json:"max,omitempty"`
	Pre    uint64             `json:"pre,omitempty"`
	Post   uint64             `json:"post,omitempty"`
	Verify string             `json:"verify,omitempty"`
	HWM    uint64             `json:"hwm,omitempty"`
	Acked  bool               `json:"acked,omitempty"` // WriteTx returned a HWM to the store
	Inject string             `json:"inject,omitempty"`
	Err    string             `json:"err,omitempty"`
	PosMis bool               `json:"posmismatch,omitempty"`
}

var errInjected = errors.New("verif: injected backup failure")

// wrapClient wraps the real client: records every call, injects upload failures before / after
// persistence, and runs service-side fault hooks between the calls of one pass.
type wrapClient struct {
	inner litefs.BackupClient

	mu          sync.Mutex
	calls       []callRec
	inject      string // "", "errBefore", "errAfter": applies to the next WriteTx
	beforeWrite func() // run after the store built the upload, before the service sees it
	beforeFetch func()
}

func (w *wrapClient) URL() string { return w.inner.URL() }

func (w *wrapClient) add(c callRec) {
	w.mu.Lock()
	w.calls = append(w.calls, c)
	w.mu.Unlock()
}

func (w *wrapClient) take() []callRec {
	w.mu.Lock()
	defer w.mu.Unlock()
	c := w.calls
	w.calls = nil
	return c
}

func (w *wrapClient) PosMap(ctx context.Context) (map[string]ltx.Pos, error) {
	m, err := w.inner.PosMap(ctx)
	rec := callRec{Kind: "PosMap", PosMap: map[string]ltx.Pos{}}
	for k, v := range m {
		rec.PosMap[k] = v
	}
	if err != nil {
		rec.Err = err.Error()
	}
	w.add(rec)
	return m, err
}

func (w *wrapClient) WriteTx(ctx context.Context, name string, r io.Reader) (ltx.TXID, error) {
	body, rerr := io.ReadAll(r)
	rec := callRec{Kind: "WriteTx"}
	if rerr != nil {
		rec.Err = "read upload: " + rerr.Error()
		w.add(rec)
		return 0, fmt.Errorf("read upload: %w", rerr)
	}
	f := decodeLTX("", body)
	rec.Min, rec.Max, rec.Pre, rec.Post, rec.Verify = f.Min, f.Max, f.Pre, f.Post, f.Err
	w.mu.Lock()
	inject, hook := w.inject, w.beforeWrite
	w.inject, w.beforeWrite = "", nil
	w.mu.Unlock()
	if hook != nil {
		hook()
	}
	rec.Inject = inject
	if inject == "errBefore" {
		rec.Err = errInjected.Error()
		w.add(rec)
		return 0, errInjected
	}
	hwm, err := w.inner.WriteTx(ctx, name, bytes.NewReader(body))
	if err != nil {
		rec.Err = err.Error()
		var pm *ltx.PosMismatchError
		rec.PosMis = errors.As(err, &pm)
		w.add(rec)
		return 0, err
	}
	rec.HWM = uint64(hwm)
	if inject == "errAfter" {
		rec.Err = errInjected.Error()
		w.add(rec)
		return 0, errInjected
	}
	rec.Acked = true
	w.add(rec)
	return hwm, nil
}

func (w *wrapClient) FetchSnapshot(ctx context.Context, name string) (io.ReadCloser, error) {
	w.mu.Lock()
	hook := w.beforeFetch
	w.beforeFetch = nil
	w.mu.Unlock()
	if hook != nil {
		hook()
	}
	rc, err := w.inner.FetchSnapshot(ctx, name)
	rec := callRec{Kind: "FetchSnapshot"}
	if err != nil {
		rec.Err = err.Error()
	}
	w.add(rec)
	return rc, err
}
