package main

import (
	"bytes"
	"context"
	"encoding/json"
	"fmt"
	"io"
	"net"
	"net/http"
	"net/url"
	"os"
	"path/filepath"
	"sort"
	"sync"

	"github.com/superfly/litefs"
	"github.com/superfly/litefs/lfsc"
	"github.com/superfly/litefs/verifharness/sim"
	"github.com/superfly/ltx"
)

// svcFile is one transaction file held by the backup service, decoded by the harness.
type svcFile struct {
	Name   string
	Data   []byte
	Min    uint64
	Max    uint64
	Pre    uint64
	Post   uint64
	Commit uint32
	PgSize uint32
	Pages  map[uint32][]byte
	Err    string // "" if ltx.Decoder.Verify accepts the bytes
}

// decodeLTX verifies and decodes an LTX file held in memory.
func decodeLTX(name string, b []byte) svcFile {
	f := svcFile{Name: name, Data: b, Pages: map[uint32][]byte{}}
	if err := ltx.NewDecoder(bytes.NewReader(b)).Verify(); err != nil {
		f.Err = "verify: " + err.Error()
	}
	dec := ltx.NewDecoder(bytes.NewReader(b))
	if err := dec.DecodeHeader(); err != nil {
		f.Err = "header: " + err.Error()
		return f
	}
	h := dec.Header()
	f.Min, f.Max, f.Pre, f.Commit, f.PgSize = uint64(h.MinTXID), uint64(h.MaxTXID), uint64(h.PreApplyChecksum), h.Commit, h.PageSize
	buf := make([]byte, h.PageSize)
	for {
		var ph ltx.PageHeader
		if err := dec.DecodePage(&ph, buf); err == io.EOF {
			break
		} else if err != nil {
			if f.Err == "" {
				f.Err = "page: " + err.Error()
			}
			return f
		}
		f.Pages[ph.Pgno] = append([]byte(nil), buf...)
	}
	if err := dec.Close(); err != nil && f.Err == "" {
		f.Err = "close: " + err.Error()
	}
	f.Post = uint64(dec.Trailer().PostApplyChecksum)
	return f
}

// image is the database image a snapshot file denotes.
func (f svcFile) image() sim.Image {
	im := sim.Image{N: f.Commit, Pages: map[uint32][]byte{}}
	for p := uint32(1); p <= f.Commit; p++ {
		if b, ok := f.Pages[p]; ok {
			im.Pages[p] = b
		}
	}
	return im
}

// backend is one implementation of the backup service together with the real client for it.
type backend interface {
	Kind() string
	// Client returns the real litefs.BackupClient for a store (lfsc needs the store).
	Client(s *litefs.Store) litefs.BackupClient
	Files(db string) []svcFile
	SetFiles(db string, fs []svcFile) // service-side fault: replace the chain
	Wipe(db string)
	SetLag(n int) // HWM answers lag n behind the persisted position (lfsc only)
	Close()
}

// ------------------------------------------------------------------ file backend

type fileBackend struct {
	dir string
	c   *litefs.FileBackupClient
}

func newFileBackend(dir string) *fileBackend {
	c := litefs.NewFileBackupClient(dir)
	if err := c.Open(); err != nil {
		panic(err)
	}
	return &fileBackend{dir: dir, c: c}
}

func (b *fileBackend) Kind() string                                  { return "file" }
func (b *fileBackend) Client(s *litefs.Store) litefs.BackupClient { return b.c }
func (b *fileBackend) SetLag(n int)                                  {}
func (b *fileBackend) Close()                                        {}

func (b *fileBackend) Files(db string) []svcFile {
	ents, _ := os.ReadDir(filepath.Join(b.dir, db))
	var names []string
	for _, e := range ents {
		if !e.IsDir() && filepath.Ext(e.Name()) == ".ltx" {
			names = append(names, e.Name())
		}
	}
	sort.Strings(names)
	var out []svcFile
	for _, n := range names {
		data, err := os.ReadFile(filepath.Join(b.dir, db, n))
		if err != nil {
			out = append(out, svcFile{Name: n, Err: err.Error()})
			continue
		}
		out = append(out, decodeLTX(n, data))
	}
	return out
}

func (b *fileBackend) SetFiles(db string, fs []svcFile) {
	d := filepath.Join(b.dir, db)
	_ = os.RemoveAll(d)
	if len(fs) == 0 {
		return
	}
	if err := os.MkdirAll(d, 0o777); err != nil {
		panic(err)
	}
	for _, f := range fs {
		if err := os.WriteFile(filepath.Join(d, f.Name), f.Data, 0o666); err != nil {
			panic(err)
		}
	}
}

func (b *fileBackend) Wipe(db string) { _ = os.RemoveAll(filepath.Join(b.dir, db)) }

// ------------------------------------------------------------------ LiteFS Cloud protocol server
//
// A local re-implementation of the three calls lfsc.BackupClient makes:
//   GET  /pos                -> JSON {db: {"TXID":..,"PostApplyChecksum":..}}
//   POST /db/tx?db=          -> body = LTX file; 200 + "Litefs-Hwm" header, or an error document
//                               {"code":"EPOSMISMATCH","pos":{...}} when not contiguous
//   GET  /db/snapshot?db=    -> compaction of the chain
// It enforces contiguity (min = pos+1, pre-apply checksum = current post-apply checksum) and
// verifies every file before persisting, like the real service.

type lfscBackend struct {
	mu   sync.Mutex
	dbs  map[string][]svcFile
	lag  int
	srv  *http.Server
	ln   net.Listener
	url  url.URL
	reqs int
}

func newLFSCBackend() *lfscBackend {
	b := &lfscBackend{dbs: map[string][]svcFile{}}
	ln, err := net.Listen("tcp", "127.0.0.1:0")
	if err != nil {
		panic(err)
	}
	b.ln = ln
	b.url = url.URL{Scheme: "http", Host: ln.Addr().String()}
	mux := http.NewServeMux()
	mux.HandleFunc("/pos", b.handlePos)
	mux.HandleFunc("/db/tx", b.handleTx)
	mux.HandleFunc("/db/snapshot", b.handleSnapshot)
	b.srv = &http.Server{Handler: mux}
	go func() { _ = b.srv.Serve(ln) }()
	return b
}

func (b *lfscBackend) Kind() string { return "lfsc" }
func (b *lfscBackend) Client(s *litefs.Store) litefs.BackupClient {
	c := lfsc.NewBackupClient(s, b.url)
	c.Cluster = "verif"
	if err := c.Open(); err != nil {
		panic(err)
	}
	return c
}
func (b *lfscBackend) Close() { _ = b.srv.Close() }
func (b *lfscBackend) SetLag(n int) {
	b.mu.Lock()
	b.lag = n
	b.mu.Unlock()
}
func (b *lfscBackend) Files(db string) []svcFile {
	b.mu.Lock()
	defer b.mu.Unlock()
	var out []svcFile
	for _, f := range b.dbs[db] {
		out = append(out, decodeLTX(f.Name, f.Data)) // re-decode: the harness trusts bytes, not bookkeeping
	}
	return out
}
func (b *lfscBackend) SetFiles(db string, fs []svcFile) {
	b.mu.Lock()
	defer b.mu.Unlock()
	if len(fs) == 0 {
		delete(b.dbs, db)
		return
	}
	b.dbs[db] = append([]svcFile(nil), fs...)
}
func (b *lfscBackend) Wipe(db string) { b.SetFiles(db, nil) }

func posOf(fs []svcFile) ltx.Pos {
	if len(fs) == 0 {
		return ltx.Pos{}
	}
	l := fs[len(fs)-1]
	return ltx.Pos{TXID: ltx.TXID(l.Max), PostApplyChecksum: ltx.Checksum(l.Post)}
}

func writeErr(w http.ResponseWriter, status int, code, msg string, pos ltx.Pos) {
	w.Header().Set("Content-Type", "application/json")
	w.WriteHeader(status)
	_ = json.NewEncoder(w).Encode(map[string]any{"code": code, "error": msg, "pos": pos})
}

func (b *lfscBackend) handlePos(w http.ResponseWriter, r *http.Request) {
	if r.Method != http.MethodGet {
		writeErr(w, 405, "EMETHOD", "method not allowed", ltx.Pos{})
		return
	}
	b.mu.Lock()
	b.reqs++
	m := map[string]ltx.Pos{}
	for name, fs := range b.dbs {
		m[name] = posOf(fs)
	}
	b.mu.Unlock()
	w.Header().Set("Lfsc-Instance-Id", "verif-1")
	_ = json.NewEncoder(w).Encode(m)
}

func (b *lfscBackend) handleTx(w http.ResponseWriter, r *http.Request) {
	if r.Method != http.MethodPost {
		writeErr(w, 405, "EMETHOD", "method not allowed", ltx.Pos{})
		return
	}
	db := r.URL.Query().Get("db")
	if db == "" || r.Header.Get("Litefs-Cluster-Id") == "" {
		writeErr(w, 400, "EBADREQ", "db and cluster id required", ltx.Pos{})
		return
	}
	body, err := io.ReadAll(r.Body)
	if err != nil {
		writeErr(w, 400, "EBADREQ", err.Error(), ltx.Pos{})
		return
	}
	f := decodeLTX("", body)
	b.mu.Lock()
	defer b.mu.Unlock()
	b.reqs++
	cur := posOf(b.dbs[db])
	if f.Min == 0 && f.Err != "" {
		writeErr(w, 400, "EBADREQ", f.Err, cur)
		return
	}
	if uint64(cur.TXID)+1 != f.Min || uint64(cur.PostApplyChecksum) != f.Pre {
		writeErr(w, 409, "EPOSMISMATCH", "position mismatch", cur)
		return
	}
	if f.Err != "" {
		writeErr(w, 400, "EBADREQ", f.Err, cur)
		return
	}
	f.Name = ltx.FormatFilename(ltx.TXID(f.Min), ltx.TXID(f.Max))
	b.dbs[db] = append(b.dbs[db], f)
	hwm := int64(f.Max) - int64(b.lag)
	if hwm < 0 {
		hwm = 0
	}
	w.Header().Set("Litefs-Hwm", ltx.TXID(hwm).String())
	w.Header().Set("Lfsc-Instance-Id", "verif-1")
	w.WriteHeader(200)
}

func (b *lfscBackend) handleSnapshot(w http.ResponseWriter, r *http.Request) {
	db := r.URL.Query().Get("db")
	b.mu.Lock()
	b.reqs++
	fs := append([]svcFile(nil), b.dbs[db]...)
	b.mu.Unlock()
	if len(fs) == 0 {
		writeErr(w, 404, "ENOTFOUND", "no such database", ltx.Pos{})
		return
	}
	var buf bytes.Buffer
	if err := compact(&buf, fs); err != nil {
		writeErr(w, 500, "EINTERNAL", err.Error(), posOf(fs))
		return
	}
	w.WriteHeader(200)
	_, _ = w.Write(buf.Bytes())
}

func compact(w io.Writer, fs []svcFile) error {
	var rdrs []io.Reader
	for _, f := range fs {
		rdrs = append(rdrs, bytes.NewReader(f.Data))
	}
	c := ltx.NewCompactor(w, rdrs)
	c.HeaderFlags = ltx.HeaderFlagCompressLZ4
	return c.Compact(context.Background())
}

// snapshotOf fetches the service's snapshot through the real client (unrecorded) and decodes it.
func snapshotOf(c litefs.BackupClient, db string) (svcFile, error) {
	rc, err := c.FetchSnapshot(context.Background(), db)
	if err != nil {
		return svcFile{}, err
	}
	defer rc.Close()
	b, err := io.ReadAll(rc)
	if err != nil {
		return svcFile{}, fmt.Errorf("read snapshot: %w", err)
	}
	return decodeLTX("snapshot", b), nil
}
