// Check C08: a node is primary only while it holds a live lease for its own cluster.
//
// spec -> impl: TLC explores Lease.tla (one node's election loop against a lease service and a
// primary whose answers are nondeterministic) exhaustively and prints one script per distinct
// state. Every script is executed by a scripted litefs.Leaser / litefs.Lease / litefs.Client
// against a real Store.Open() (real monitorLease goroutine, real timers); requests of the
// environment (manual demotion, handoff through the real HTTP server to real stream
// subscribers) are made while the call they are attached to is in flight. The mock samples
// IsPrimary(), PrimaryCtx(ctx).Err(), PrimaryInfo() and ClusterID() INSIDE every call it
// receives and logs the call.
// impl -> spec: the logs are validated by LeaseTrace.tla (TLC, NotAccepted pattern, batches).
// Verdicts come only from the monitors in monitors.go, evaluated on the logged observations.
package main

import (
	"encoding/json"
	"fmt"
	"math/rand"
	"os"
	"path/filepath"
	"sort"
	"strings"
	"sync"
	"time"

	"github.com/superfly/litefs/verifharness/core"
)

// cfgT is one configuration of the node under test (constants of Lease.tla).
type cfgT struct {
	Cand  bool   `json:"cand"`
	Local string `json:"local"` // "" | "A"
	TTL   int    `json:"ttl"`   // ms
	Mute  bool   `json:"mute"`  // the handoff target's subscription never takes the lease id
}

func (c cfgT) String() string {
	return fmt.Sprintf("cand=%v,local=%q,ttl=%d,mute=%v", c.Cand, c.Local, c.TTL, c.Mute)
}

type obsT struct {
	Prim  bool   `json:"prim"`
	Done  bool   `json:"done"`
	Pinfo bool   `json:"pinfo"`
	Local string `json:"local"`
}

// hEntry is one entry of the history variable of Lease.tla.
type hEntry struct {
	K  string `json:"k"` // call | close
	C  string `json:"c"`
	A  string `json:"a"`
	S  string `json:"s"`
	Sr string `json:"sr"`
	O  obsT   `json:"o"`
}

type script struct {
	Cfg    cfgT     `json:"cfg"`
	H      []hEntry `json:"h"`
	Source string   `json:"source"`
}

func (s *script) key() string {
	var sb strings.Builder
	sb.WriteString(s.Cfg.String())
	if strings.HasPrefix(s.Source, "static") {
		sb.WriteString("|" + s.Source)
	}
	for _, e := range s.H {
		if e.K != "call" {
			continue
		}
		sb.WriteString("|" + e.C + ">" + e.A)
		if e.S != "none" {
			sb.WriteString("+" + e.S)
		}
	}
	return sb.String()
}

func (s *script) calls() int {
	n := 0
	for _, e := range s.H {
		if e.K == "call" {
			n++
		}
	}
	return n
}

func (s *script) compact() []string {
	var out []string
	for _, e := range s.H {
		x := e.C + "->" + e.A
		if e.K == "close" {
			x = "Close()"
		}
		if e.S != "none" {
			x += " [" + e.S + ":" + e.Sr + "]"
		}
		if e.O.Prim {
			x += " (primary)"
		}
		out = append(out, x)
	}
	return out
}

// hasStim reports whether the script makes handoff requests (needs the HTTP server and peers).
func (s *script) hasHandoff() bool {
	for _, e := range s.H {
		if strings.HasPrefix(e.S, "ho") {
			return true
		}
	}
	return false
}

type stage struct {
	name string
	cfg  string // cfg file in spec/
	c    cfgT
}

// repaired is set by probe(): the tree under test compares the cluster ids again once the lease is
// held (proposed_fixes/C08-clusterid.diff applied); the specifications are then run with
// CheckAfterAcquire = TRUE and OwnClusterTenure is checked with the other invariants.
var repaired bool

// specCfg returns the configuration to use for a cfg file of spec/: the file itself, or a copy
// with the constant of the repair switched on.
func specCfg(file string) (string, map[string]string) {
	if !repaired {
		return file, nil
	}
	b, err := os.ReadFile(filepath.Join(core.SpecDir(), file))
	if err != nil {
		core.Infra("read %s: %v", file, err)
	}
	s := strings.Replace(string(b), "CheckAfterAcquire = FALSE", "CheckAfterAcquire = TRUE", 1)
	if strings.Contains(s, "INVARIANTS TypeOK") {
		s = strings.Replace(s, "INVARIANTS TypeOK", "INVARIANTS OwnClusterTenure TypeOK", 1)
	}
	name := strings.TrimSuffix(file, ".cfg") + "_repaired.cfg"
	return name, map[string]string{name: s}
}

// probe runs the four-answer script of the known cluster-id gap once to learn which of the two
// variants of the loop (constant CheckAfterAcquire) the tree under test implements.
func probe() bool {
	sc := &script{Cfg: cfgT{Cand: true, Local: "A", TTL: 300}, Source: "probe", H: []hEntry{
		{K: "call", C: "CID", A: "", S: "none", Sr: "none", O: obsT{false, true, false, "A"}},
		{K: "call", C: "INFO", A: "none", S: "none", Sr: "none", O: obsT{false, true, false, "A"}},
		{K: "call", C: "ACQ", A: "ok", S: "none", Sr: "none", O: obsT{false, true, false, "A"}},
		{K: "call", C: "CID", A: "B", S: "none", Sr: "none", O: obsT{false, true, false, "A"}},
	}}
	o := runScript(sc, 0)
	for _, e := range o.log {
		if e.Prim {
			return false
		}
	}
	return true
}

func collect(rep *core.Report, st stage) []*script {
	var mu sync.Mutex
	var out []*script
	seen := map[string]bool{}
	cfgName, extra := specCfg(st.cfg)
	res, err := core.RunTLC(core.TLCOpts{Module: "Lease", Cfg: cfgName, ExtraFiles: extra, Workers: 1, Timeout: 10 * time.Minute,
		OnLine: func(tag string, payload json.RawMessage) {
			if tag != "TRACE" {
				return
			}
			var t struct {
				H []hEntry `json:"h"`
			}
			if err := json.Unmarshal(payload, &t); err != nil {
				core.Infra("bad TRACE line: %v: %s", err, payload)
			}
			sc := &script{Cfg: st.c, H: t.H, Source: st.name}
			mu.Lock()
			if k := sc.key(); !seen[k] {
				seen[k] = true
				out = append(out, sc)
			}
			mu.Unlock()
		}})
	if err != nil {
		core.Infra("tlc %s: %v", st.name, err)
	}
	if !res.OK() {
		core.Infra("model checking of Lease.tla (%s) failed (a model problem, not a verdict about the code): %s\n%s\n%s", st.cfg, res.Describe(), res.ErrorText, res.OutputTail)
	}
	rep.AddTLC(st.name, res)
	sort.Slice(out, func(i, j int) bool { return out[i].key() < out[j].key() })
	return out
}

// relevance runs a configuration in which TLC is EXPECTED to find the named invariant violated
// (a guard dropped, or the known cluster-id gap); evidence only.
func relevance(rep *core.Report, name, cfg, expect string) {
	res, err := core.RunTLC(core.TLCOpts{Module: "Lease", Cfg: cfg, Workers: 4, Timeout: 5 * time.Minute})
	if err != nil {
		core.Infra("tlc %s: %v", name, err)
	}
	if res.TimedOut || (res.Violation == "" && res.ExitCode != 0) {
		core.Infra("relevance configuration %s did not run: %s\n%s", cfg, res.Describe(), res.OutputTail)
	}
	l, _ := rep.Extra["relevance"].([]any)
	rep.Extra["relevance"] = append(l, map[string]any{"cfg": cfg, "expected_violation": expect, "tlc_found": res.Violation, "ok": res.Violation == expect})
	if res.Violation != expect {
		core.Infra("relevance configuration %s: expected TLC to find %s violated, got %q (the invariant does not depend on the guard: fix the model)", cfg, expect, res.Violation)
	}
}

type outcome struct {
	sc    *script
	log   []event
	fails []fail
	mism  []string // spec -> impl differences (predicted call / observables)
	quies bool
	dur   time.Duration
	acc   bool // accepted by LeaseTrace.tla
	// Consul runs: the endpoint-level trace (requests, environment, return values) and the number of
	// ground-truth monitor evaluations
	clog   []cevent
	cevals int
}

func main() {
	args := core.ParseArgs()
	rep := core.NewReport("C08", "model_checking", args)
	rep.Rule = "scripts = one per explored edge (state, call, answer, request) of Lease.tla's exhaustive state graph, behind a shortest path (4 configurations candidate x stored cluster id, TTL 300 ms) plus the renewal-focused configuration (TTL 2600 ms) and the static leaser; each is executed against a real Store; distinct = distinct (configuration, sequence of answers and requests); non-trivial = the node obtains a lease, streams, or is refused by a cluster-id / candidate guard (everything except scripts that only ever fail to reach the lease service); Consul stage: one script per explored edge of ConsulLease.tla's exhaustive state graph (HTTP request x answer class, environment action), replayed on the real consul.Leaser against a fake Consul endpoint (non-trivial = at least one leaser-level call completed), plus a seeded subset of Lease.tla's scripts on a real Store whose leaser is the real consul.Leaser, plus the static leaser for candidate x role x stored id"
	rep.Assumptions = []string{
		"the lease service is scripted: answers are arbitrary per call, except that a lease reported expired is never reported renewed afterwards",
		"requests of the environment (demote, handoff) arrive while a service call is in flight (synchronous observation points), at most 1 (quick) / 2 (thorough) per script",
		"timing clauses use the bound TTL + 3 s and are re-run before they are reported",
		"Consul stage: the fake endpoint implements Consul's documented session / KV lock semantics (ConsulLease.tla states the same rules; the two are compared request by request), it is not checked against a real Consul server; it has no clock: expiry, lock-delay and competitors are actions of the script",
		"Consul stage, store level: the answers of Lease.tla's scripts are realised on the endpoint by seeded recipes (a subset of the scripts); the primary's stream stays scripted",
	}
	rep.Exhaustive = true
	defer core.Cleanup()
	if os.Getenv("C08_DIRECTED") == "primaryfile" { // development aid
		primaryFile(rep)
		rep.Finish()
	}
	if os.Getenv("C08_DIRECTED") == "clusterid" { // development aid: one stage only (never commit its evidence)
		clusterIDPersist(rep)
	primaryFile(rep)
		rep.Finish()
	}

	core.Watchdog(150*time.Second, func(label string, since time.Duration) {
		core.Infra("no progress for %s while %s", since, label)
	})

	repaired = probe()
	rep.Extra["tree_compares_cluster_id_after_acquire"] = repaired
	progress("probe: repaired=%v", repaired)

	if args.Replay != "" {
		replay(rep, args.Replay)
		rep.Finish()
	}

	quick := args.Quick()
	mk := func(suffix string) []stage {
		return []stage{
			{"cand_set" + suffix, "MC_Lease_cand_set" + suffix + ".cfg", cfgT{Cand: true, Local: "A", TTL: 300}},
			{"cand_unset" + suffix, "MC_Lease_cand_unset" + suffix + ".cfg", cfgT{Cand: true, Local: "", TTL: 300}},
			{"non_set" + suffix, "MC_Lease_non_set" + suffix + ".cfg", cfgT{Cand: false, Local: "A", TTL: 300}},
			{"non_unset" + suffix, "MC_Lease_non_unset" + suffix + ".cfg", cfgT{Cand: false, Local: "", TTL: 300}},
		}
	}
	var stages []stage
	if quick {
		stages = append(mk(""), stage{"renew", "MC_Lease_renew.cfg", cfgT{Cand: true, Local: "A", TTL: 2600}})
	} else {
		stages = append(mk("_t"), mk("_any")...)
		stages = append(stages,
			stage{"renew_t", "MC_Lease_renew_t.cfg", cfgT{Cand: true, Local: "A", TTL: 2600}},
			stage{"mute", "MC_Lease_mute.cfg", cfgT{Cand: true, Local: "A", TTL: 300, Mute: true}})
	}

	// ---- 1. exhaustive model checking + script emission ----
	var scripts []*script
	beatWhile("tlc", func() {
		for _, st := range stages {
			ss := collect(rep, st)
			rep.Note("stage %s (%s): %d scripts", st.name, st.cfg, len(ss))
			scripts = append(scripts, ss...)
		}
		// the model-level lead behind the known finding, and the repaired model
		relevance(rep, "asis_own", "MC_Lease_asis_own.cfg", "OwnClusterTenure")
		if !quick {
			relevance(rep, "asis_own_handoff", "MC_Lease_asis_own_non.cfg", "OwnClusterTenure")
			for _, m := range []struct{ cfg, inv string }{
				{"MC_Lease_mut_candidate.cfg", "NonCandidateNeverAcquires"},
				{"MC_Lease_mut_loopcheck.cfg", "OwnClusterAcquire"},
				{"MC_Lease_mut_streamcheck.cfg", "OwnClusterStream"},
				{"MC_Lease_mut_expired.cfg", "StopsAfterLeaseLost"},
				{"MC_Lease_mut_clear.cfg", "PrimaryOnlyInTenure"},
				{"MC_Lease_mut_closeho.cfg", "ClosedUnlessHandedOff"},
				{"MC_Lease_mut_neverclose.cfg", "ClosedUnlessHandedOff"},
				{"MC_Lease_mut_horenew.cfg", "HandoffOnlyToRequested"},
			} {
				relevance(rep, m.cfg, m.cfg, m.inv)
			}
		}
		for _, f := range []string{"MC_Lease_fixed_cand_set.cfg", "MC_Lease_fixed_non_unset.cfg"} {
			res, err := core.RunTLC(core.TLCOpts{Module: "Lease", Cfg: f, Workers: 4, Timeout: 5 * time.Minute})
			if err != nil {
				core.Infra("tlc %s: %v", f, err)
			}
			if !res.OK() {
				core.Infra("the repaired model (%s, CheckAfterAcquire = TRUE) does not satisfy all invariants: %s\n%s", f, res.Describe(), res.ErrorText)
			}
			rep.AddTLC(strings.TrimSuffix(f, ".cfg"), res)
		}
	})
	if len(scripts) < 500 {
		core.Infra("expected >= 500 scripts from TLC, got %d", len(scripts))
	}
	scripts = append(scripts, staticScripts()...)
	if os.Getenv("C08_ONLY") == "consul" {
		// development switch: only the Consul stage (never used by bin/check's registered commands)
		consulStage(rep, args, scripts)
		rep.Finish()
	}

	// seeded order (the set is the same for every seed; the seed permutes scheduling and batches)
	rnd := rand.New(rand.NewSource(args.Seed))
	rnd.Shuffle(len(scripts), func(i, j int) { scripts[i], scripts[j] = scripts[j], scripts[i] })

	// ---- 2. run every script against a real store ----
	progress("%d scripts", len(scripts))
	outs := runAll(rep, scripts, core.Pick(args, 40, 64))
	progress("scripts executed")
	if p := os.Getenv("C08_DUMP"); p != "" {
		var all []event
		for _, o := range outs {
			all = append(all, o.log...)
		}
		writeLog(p, all)
	}

	// ---- 3. monitors (verdicts), with a re-run before anything is reported (R5) ----
	judgeAll(rep, outs)
	progress("monitors evaluated")

	// ---- 4. impl -> spec: validate the logs with LeaseTrace.tla ----
	beatWhile("tlc", func() { validateAll(rep, outs) })
	progress("traces validated")

	// ---- 5. binding self-test: a corrupted log must be rejected ----
	beatWhile("tlc", func() { selfTest(rep, outs) })

	// ---- 6. the Consul mapping: ConsulLease.tla, consul.Leaser against a fake Consul endpoint ----
	consulStage(rep, args, scripts)
	streamEndsWithTenure(rep)
	handoffToBusySubscriber(rep)
	clusterIDPersist(rep)
	primaryFile(rep)

	nontriv := 0
	for _, o := range outs {
		if nontrivial(o) {
			nontriv++
		}
		rep.Case(o.sc.key(), nontrivial(o))
	}
	rep.Extra["scripts_run"] = len(outs)
	rep.Extra["scripts_nontrivial"] = nontriv
	if len(outs) > 0 {
		// a representative sample: the longest script with a handoff, and one with a failed renewal
		var a, b *outcome
		for _, o := range outs {
			if o.sc.hasHandoff() && (a == nil || len(o.sc.H) > len(a.sc.H)) {
				a = o
			}
			if o.sc.Cfg.TTL > 1000 && (b == nil || len(o.sc.H) > len(b.sc.H)) {
				b = o
			}
		}
		for _, o := range []*outcome{a, b} {
			if o != nil {
				rep.Sample(map[string]any{"config": o.sc.Cfg.String(), "script": o.sc.compact(), "events_logged": len(o.log), "wall_ms": o.dur.Milliseconds()})
			}
		}
	}
	rep.Finish()
}

func nontrivial(o *outcome) bool {
	for _, e := range o.log {
		if e.Ev != "call" {
			continue
		}
		if (e.C == "ACQ" || e.C == "ACQX") && e.A == "ok" {
			return true
		}
		if e.C == "STREAM" && e.A != "err" {
			return true
		}
		if e.C == "CID" && e.A != "err" && e.A != "" && e.A != e.Local {
			return true
		}
		if e.C == "INFO" && e.A == "none" {
			return true
		}
	}
	return false
}

func beatWhile(label string, f func()) {
	core.Beat(label)
	stop := make(chan struct{})
	var wg sync.WaitGroup
	wg.Add(1)
	go func() {
		defer wg.Done()
		for {
			select {
			case <-stop:
				return
			case <-time.After(5 * time.Second):
				core.Beat(label)
			}
		}
	}()
	f()
	close(stop)
	wg.Wait()
	core.Beat("harness")
}

func runAll(rep *core.Report, scripts []*script, par int) []*outcome {
	outs := make([]*outcome, len(scripts))
	sem := make(chan struct{}, par)
	var wg sync.WaitGroup
	var done int64
	var mu sync.Mutex
	for i, sc := range scripts {
		wg.Add(1)
		sem <- struct{}{}
		go func(i int, sc *script) {
			defer wg.Done()
			defer func() { <-sem }()
			o := runScript(sc, i+1)
			mu.Lock()
			outs[i] = o
			done++
			mu.Unlock()
			core.Beat("real:scripts")
		}(i, sc)
	}
	wg.Wait()
	core.Beat("harness")
	return outs
}

// judgeAll evaluates the monitors on every outcome. Failures are grouped by (monitor, signature) and
// reported once per group with the shortest failing script; for the time-bounded clauses the
// shortest failing scripts are executed again first and the group is reported only if the same
// monitor fails with the same signature on the second execution as well (R5).
func judgeAll(rep *core.Report, outs []*outcome) {
	type group struct {
		f    fail
		outs []*outcome
	}
	groups := map[string]*group{}
	var order []string
	for _, o := range outs {
		fails, evals := monitors(o.sc.Cfg, o.log)
		rep.Eval(evals)
		rep.TracesValidated++
		o.fails = fails
		for _, f := range fails {
			k := f.Monitor + "|" + f.Sig
			g := groups[k]
			if g == nil {
				g = &group{f: f}
				groups[k] = g
				order = append(order, k)
			}
			g.outs = append(g.outs, o)
		}
	}
	sort.Strings(order)
	var wg sync.WaitGroup
	var mu sync.Mutex
	for _, k := range order {
		g := groups[k]
		sort.SliceStable(g.outs, func(i, j int) bool { return len(g.outs[i].sc.H) < len(g.outs[j].sc.H) })
		wg.Add(1)
		go func(g *group) {
			defer wg.Done()
			report := func(o *outcome) {
				var f1 fail
				for _, x := range o.fails {
					if x.Monitor == g.f.Monitor && x.Sig == g.f.Sig {
						f1 = x
					}
				}
				mu.Lock()
				rep.Violate(f1.Monitor, f1.Sig, map[string]any{"detail": f1.Detail, "event": f1.Event, "config": o.sc.Cfg.String(), "script": o.sc.compact(), "scripts_with_this_failure": len(g.outs)},
					map[string]any{"script": o.sc})
				mu.Unlock()
			}
			// only the clauses with a time bound can fail because the machine was slow: those are
			// executed again; every other failure is a recorded fact (e.g. a frame on the wrong stream)
			timing := g.f.Monitor == "C08.stops-after-lease-lost" || strings.HasPrefix(g.f.Sig, "close/missing-after-lease-lost")
			if !timing {
				report(g.outs[0])
				return
			}
			tries := g.outs
			if len(tries) > 3 {
				tries = tries[:3]
			}
			for _, o := range tries {
				core.Beat("real:rerun")
				again := runScript(o.sc, 0)
				fails2, _ := monitors(again.sc.Cfg, again.log)
				for _, f2 := range fails2 {
					if f2.Monitor == g.f.Monitor && f2.Sig == g.f.Sig {
						report(o)
						return
					}
				}
			}
			mu.Lock()
			rep.Note("monitor %s (%s) failed on %d script(s), e.g. %s, but not on an immediate re-run; not reported", g.f.Monitor, g.f.Sig, len(g.outs), g.outs[0].sc.key())
			mu.Unlock()
		}(g)
	}
	wg.Wait()
	core.Beat("harness")
}

var t0 = time.Now()

func progress(format string, a ...any) {
	if os.Getenv("C08_VERBOSE") != "" {
		fmt.Fprintf(os.Stderr, "[%6.1fs] %s\n", time.Since(t0).Seconds(), fmt.Sprintf(format, a...))
	}
}

func saveLog(name string, log []event) string {
	dir := filepath.Join(core.VerifRoot(), "replays", "C08")
	_ = os.MkdirAll(dir, 0o777)
	p := filepath.Join(dir, name+".ndjson")
	writeLog(p, log)
	return p
}

func writeLog(p string, log []event) {
	var sb strings.Builder
	for _, e := range log {
		b, _ := json.Marshal(e)
		sb.Write(b)
		sb.WriteByte('\n')
	}
	if err := os.WriteFile(p, []byte(sb.String()), 0o644); err != nil {
		core.Infra("write trace: %v", err)
	}
}

func replay(rep *core.Report, path string) {
	b, err := os.ReadFile(path)
	if err != nil {
		core.Infra("read replay: %v", err)
	}
	var f struct {
		Seed   int64 `json:"seed"`
		Replay struct {
			Script       *script  `json:"script"`
			ConsulScript *cscript `json:"consul_script"`
		} `json:"replay"`
	}
	if err := json.Unmarshal(b, &f); err != nil || (f.Replay.Script == nil && f.Replay.ConsulScript == nil) {
		core.Infra("parse replay: %v", err)
	}
	consulSeed = f.Seed
	consulCAS = probeCAS()
	if cs := f.Replay.ConsulScript; cs != nil {
		// a script of ConsulLease.tla on the real consul.Leaser against the fake endpoint
		nodes := []string{"n1"}
		for _, st := range cs.H {
			if st.N == "n2" || st.V == "n2" {
				nodes = []string{"n1", "n2"}
			}
		}
		outs := replayConsul([]*cscript{cs}, nodes, len(cs.St.Live), 1)
		for _, l := range cs.compact() {
			fmt.Println(l)
		}
		for _, r := range outs[0].log {
			j, _ := json.Marshal(r)
			fmt.Println(string(j))
		}
		fmt.Printf("spec->impl differences=%v\n", outs[0].mism)
		judgeConsul(rep, outs)
		return
	}
	o := runScript(f.Replay.Script, 1)
	for _, e := range o.log {
		j, _ := json.Marshal(e)
		fmt.Println(string(j))
	}
	fmt.Printf("quiesced=%v spec->impl differences=%v\n", o.quies, o.mism)
	judgeAll(rep, []*outcome{o})
	ok, res := validate(o.sc.Cfg, o.log)
	fmt.Printf("LeaseTrace.tla accepts=%v (%s)\n", ok, res.Describe())
}
