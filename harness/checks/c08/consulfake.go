package main

// A fake Consul HTTP endpoint: exactly the requests consul.Leaser makes through
// github.com/hashicorp/consul/api (session create / renew / destroy, KV get and put with the
// acquire / release / cas flags, catalog register), with the semantics of Consul's state store
// (the same rules ConsulLease.tla states). It has no clock: sessions expire, the lock-delay
// elapses and competitors act when the driver says so (a script step, or a recipe of the
// store-level stage). Every request is recorded together with what was answered (ground truth
// for the monitors) and gets an answer class from the driver:
//   ok    the server's answer
//   err   HTTP 500, nothing applied
//   lost  applied, but the client is sent HTTP 500
//   stale (read of the primary key) the previous version of the key

import (
	"encoding/base64"
	"encoding/json"
	"fmt"
	"io"
	"net/http"
	"net/http/httptest"
	"strconv"
	"strings"
	"sync"
	"time"
)

const (
	fakeKey    = "litefs/primary" // consul.Leaser.Key
	fakeCIDKey = fakeKey + "/clusterid"
)

// reqRec is one request the fake received, and what it did with it.
type reqRec struct {
	Node   string `json:"n"`   // which leaser (front door) sent it
	Q      string `json:"q"`   // session.create session.renew session.destroy kv.acquire kv.release kv.get cid.get cid.put cid.cas catalog.register other
	Sid    int    `json:"p"`   // session concerned (number in creation order; 0 none / unknown)
	Val    string `json:"v"`   // kv.acquire: hostname in the value; cid.put/cas: the id
	Ans    string `json:"ans"` // answer class the driver chose
	Sent   string `json:"r"`   // what the client was sent: id true false 200 404 500 err val:<x>
	Prev   string `json:"prev,omitempty"`
	Raw    string `json:"raw,omitempty"` // method + path (diagnostics)
	At     int64  `json:"at"`            // ms since the fake was reset
	Seq    int    `json:"seq"`
	CallNo int    `json:"call"` // leaser-level call it belongs to (set by the driver)
}

type kvEntry struct {
	exists bool
	value  []byte
	sess   int
	lockIx uint64
	create uint64
	modify uint64
}

// arrival is a request waiting at the gate for the driver's decision.
type arrival struct {
	rec    *reqRec
	decide chan string // the driver sends the answer class
	done   chan struct{}
}

type fakeConsul struct {
	mu     sync.Mutex
	run    int
	live   map[int]bool
	nsess  int
	owner  []string
	sessP  map[int]map[string]any // parameters the session was created with
	key    kvEntry
	old    kvEntry // previous version of the primary key
	delay  bool
	cid    kvEntry
	index  uint64
	log    []reqRec
	start  time.Time
	callNo map[string]int

	// gate == nil: auto mode, answers come from plan(); otherwise every request waits for the driver
	gate map[string]chan *arrival
	// auto mode: called (without the lock) before the request is applied; returns the answer class
	plan func(rec *reqRec) string
	// called (without the lock) after the request has been applied and recorded
	after func(rec reqRec)

	doors map[string]*httptest.Server
}

func newFakeConsul(nodes ...string) *fakeConsul {
	f := &fakeConsul{doors: map[string]*httptest.Server{}}
	f.reset(0)
	for _, n := range nodes {
		n := n
		f.doors[n] = httptest.NewServer(http.HandlerFunc(func(w http.ResponseWriter, r *http.Request) { f.serve(n, w, r) }))
	}
	return f
}

func (f *fakeConsul) close() {
	for _, d := range f.doors {
		d.CloseClientConnections()
		d.Close()
	}
}

func (f *fakeConsul) url(node string) string { return f.doors[node].URL }

func (f *fakeConsul) reset(run int) {
	f.mu.Lock()
	defer f.mu.Unlock()
	f.run = run
	f.live = map[int]bool{}
	f.nsess = 0
	f.owner = nil
	f.sessP = map[int]map[string]any{}
	f.key, f.old, f.cid = kvEntry{}, kvEntry{}, kvEntry{}
	f.delay = false
	f.index = 10
	f.log = nil
	f.start = time.Now()
	f.callNo = map[string]int{}
	f.gate = nil
	f.plan = nil
	f.after = nil
}

func (f *fakeConsul) sessID(n int) string {
	return fmt.Sprintf("%08x-0000-4000-8000-%012d", f.run&0xffffffff, n)
}

func (f *fakeConsul) sessNo(id string) int {
	i := strings.LastIndexByte(id, '-')
	if i < 0 || !strings.HasPrefix(id, fmt.Sprintf("%08x-", f.run&0xffffffff)) {
		return 0
	}
	n, err := strconv.Atoi(strings.TrimLeft(id[i+1:], "0"))
	if err != nil || n < 1 || n > f.nsess+1 {
		return 0
	}
	return n
}

// ---------------------------------------------------------------- state store semantics (f.mu held)

func (f *fakeConsul) setKey(value []byte, sess int, del bool) {
	f.old = f.key
	f.index++
	if del {
		f.key = kvEntry{}
		return
	}
	k := f.key
	if !k.exists {
		k.create = f.index
	}
	if sess != 0 && k.sess != sess {
		k.lockIx++
	}
	k.exists, k.value, k.sess, k.modify = true, append([]byte(nil), value...), sess, f.index
	f.key = k
}

func (f *fakeConsul) createSession(owner string, params map[string]any) int {
	f.nsess++
	f.live[f.nsess] = true
	f.owner = append(f.owner, owner)
	f.sessP[f.nsess] = params
	f.index++
	return f.nsess
}

func (f *fakeConsul) invalidate(x int) {
	delete(f.live, x)
	f.index++
	if x != 0 && f.key.exists && f.key.sess == x {
		f.setKey(nil, 0, true) // behaviour "delete"
		f.delay = true
	}
}

func (f *fakeConsul) acquire(x int, value []byte, apply bool) string {
	switch {
	case f.delay:
		return "false"
	case !f.live[x]:
		return "500"
	case f.key.exists && f.key.sess != 0 && f.key.sess != x:
		return "false"
	}
	if apply {
		f.setKey(value, x, false)
	}
	return "true"
}

func (f *fakeConsul) release(x int, value []byte, apply bool) string {
	if !f.key.exists || x == 0 || f.key.sess != x {
		return "false"
	}
	if apply {
		f.setKey(value, 0, false)
	}
	return "true"
}

func hostOf(value []byte) string {
	if len(value) == 0 {
		return ""
	}
	var v struct {
		Hostname string `json:"hostname"`
	}
	if json.Unmarshal(value, &v) != nil || v.Hostname == "" {
		return "?"
	}
	return v.Hostname
}

func kvalOf(k kvEntry) string {
	if !k.exists {
		return "none"
	}
	return hostOf(k.value)
}

// ---------------------------------------------------------------- environment (driver)

func (f *fakeConsul) envExpire(x int) {
	f.mu.Lock()
	defer f.mu.Unlock()
	f.invalidate(x)
}

func (f *fakeConsul) envDelayElapse() {
	f.mu.Lock()
	defer f.mu.Unlock()
	f.delay = false
}

func infoValue(host string) []byte {
	b, _ := json.Marshal(map[string]string{"hostname": host, "advertise-url": "http://" + host + ".invalid:20202"})
	return b
}

// envXAcq: a competing node creates a session and takes the free key; returns the session number (0 = not possible).
func (f *fakeConsul) envXAcq() int {
	f.mu.Lock()
	defer f.mu.Unlock()
	if f.delay || (f.key.exists && f.key.sess != 0) {
		return 0
	}
	x := f.createSession("x", nil)
	f.setKey(infoValue("x"), x, false)
	return x
}

func (f *fakeConsul) envSetCID(v string) {
	f.mu.Lock()
	defer f.mu.Unlock()
	f.index++
	if v == "" {
		f.cid = kvEntry{}
		return
	}
	c := f.cid
	if !c.exists {
		c.create = f.index
	}
	c.exists, c.value, c.modify = true, []byte(v), f.index
	f.cid = c
}

// proj is the projection compared with Proj(s) of ConsulLease.tla.
type fproj struct {
	Live  []bool `json:"live"`
	Kval  string `json:"kval"`
	Kh    int    `json:"kh"`
	Delay bool   `json:"delay"`
	Cid   string `json:"cid"`
}

func (f *fakeConsul) proj(maxSess int) fproj {
	f.mu.Lock()
	defer f.mu.Unlock()
	p := fproj{Kval: kvalOf(f.key), Kh: f.key.sess, Delay: f.delay, Cid: string(f.cid.value)}
	n := maxSess
	if f.nsess > n {
		n = f.nsess
	}
	for i := 1; i <= n; i++ {
		p.Live = append(p.Live, f.live[i])
	}
	return p
}

func (f *fakeConsul) snapshotLog() []reqRec {
	f.mu.Lock()
	defer f.mu.Unlock()
	return append([]reqRec(nil), f.log...)
}

func (f *fakeConsul) setCall(node string, n int) {
	f.mu.Lock()
	f.callNo[node] = n
	f.mu.Unlock()
}

// ---------------------------------------------------------------- HTTP

func (f *fakeConsul) classify(node string, r *http.Request, body []byte) *reqRec {
	rec := &reqRec{Node: node, Raw: r.Method + " " + r.URL.RequestURI(), Q: "other"}
	p := r.URL.Path
	q := r.URL.Query()
	switch {
	case r.Method == "PUT" && p == "/v1/catalog/register":
		rec.Q = "catalog.register"
	case r.Method == "PUT" && p == "/v1/session/create":
		rec.Q = "session.create"
	case r.Method == "PUT" && strings.HasPrefix(p, "/v1/session/renew/"):
		rec.Q, rec.Sid = "session.renew", f.sessNo(strings.TrimPrefix(p, "/v1/session/renew/"))
	case r.Method == "PUT" && strings.HasPrefix(p, "/v1/session/destroy/"):
		rec.Q, rec.Sid = "session.destroy", f.sessNo(strings.TrimPrefix(p, "/v1/session/destroy/"))
	case strings.HasPrefix(p, "/v1/kv/"):
		key := strings.TrimPrefix(p, "/v1/kv/")
		if i := strings.Index(key, fakeKey); i > 0 { // a key prefix taken from the URL path
			key = key[i:]
		}
		switch {
		case r.Method == "GET" && key == fakeKey:
			rec.Q = "kv.get"
		case r.Method == "GET" && key == fakeCIDKey:
			rec.Q = "cid.get"
		case r.Method == "PUT" && key == fakeKey && q.Has("acquire"):
			rec.Q, rec.Sid, rec.Val = "kv.acquire", f.sessNo(q.Get("acquire")), hostOf(body)
		case r.Method == "DELETE" && key == fakeKey:
			rec.Q = "kv.delete" // plain delete: Consul removes the key whoever holds it
		case r.Method == "PUT" && key == fakeKey && q.Has("release"):
			rec.Q, rec.Sid = "kv.release", f.sessNo(q.Get("release"))
		case r.Method == "PUT" && key == fakeCIDKey && q.Has("cas"):
			rec.Q, rec.Val = "cid.cas", string(body)
			rec.Prev = q.Get("cas")
		case r.Method == "PUT" && key == fakeCIDKey && len(q) == 0:
			rec.Q, rec.Val = "cid.put", string(body)
		}
	}
	return rec
}

func kvJSON(key string, k kvEntry, f *fakeConsul) []byte {
	sess := ""
	if k.sess != 0 {
		sess = f.sessID(k.sess)
	}
	b, _ := json.Marshal([]map[string]any{{"Key": key, "Value": base64.StdEncoding.EncodeToString(k.value), "Flags": 0,
		"Session": sess, "LockIndex": k.lockIx, "CreateIndex": k.create, "ModifyIndex": k.modify}})
	return b
}

func (f *fakeConsul) serve(node string, w http.ResponseWriter, r *http.Request) {
	body, _ := io.ReadAll(r.Body)
	f.mu.Lock()
	rec := f.classify(node, r, body)
	if rec.Q == "session.create" {
		rec.Sid = f.nsess + 1
	}
	gate, plan, after := f.gate[node], f.plan, f.after
	f.mu.Unlock()

	ans := "ok"
	var arr *arrival
	switch {
	case rec.Q == "catalog.register" || rec.Q == "other":
	case gate != nil:
		arr = &arrival{rec: rec, decide: make(chan string, 1), done: make(chan struct{})}
		select {
		case gate <- arr:
			select {
			case ans = <-arr.decide:
			case <-r.Context().Done():
				return
			}
		case <-r.Context().Done():
			return
		}
	case plan != nil:
		ans = plan(rec)
	}

	f.mu.Lock()
	status, out := f.apply(rec, ans, body)
	rec.At = time.Since(f.start).Milliseconds()
	rec.Seq = len(f.log) + 1
	rec.CallNo = f.callNo[node]
	f.log = append(f.log, *rec)
	idx := f.index
	f.mu.Unlock()
	if after != nil {
		after(*rec)
	}

	w.Header().Set("X-Consul-Index", strconv.FormatUint(idx, 10))
	w.Header().Set("X-Consul-KnownLeader", "true")
	w.Header().Set("X-Consul-LastContact", "0")
	w.Header().Set("Content-Type", "application/json")
	w.WriteHeader(status)
	_, _ = w.Write(out)
	if fl, ok := w.(http.Flusher); ok {
		fl.Flush()
	}
	if arr != nil {
		close(arr.done)
	}
}

// apply performs the request under answer class ans and returns the HTTP answer (f.mu held).
func (f *fakeConsul) apply(rec *reqRec, ans string, body []byte) (int, []byte) {
	rec.Ans = ans
	applied := ans == "ok" || ans == "lost"
	fail := func() (int, []byte) {
		rec.Sent = "err"
		return 500, []byte("injected failure (" + ans + ")")
	}
	switch rec.Q {
	case "catalog.register":
		rec.Sent = "true"
		return 200, []byte("true")
	case "session.create":
		if !applied {
			rec.Sid = 0
			return fail()
		}
		var params map[string]any
		_ = json.Unmarshal(body, &params)
		x := f.createSession(rec.Node, params)
		rec.Sid = x
		if ans == "lost" {
			return fail()
		}
		rec.Sent = "id"
		b, _ := json.Marshal(map[string]string{"ID": f.sessID(x)})
		return 200, b
	case "session.renew":
		if ans != "ok" {
			return fail()
		}
		if !f.live[rec.Sid] {
			rec.Sent = "404"
			return 404, []byte("Session id not found")
		}
		rec.Sent = "200"
		p := f.sessP[rec.Sid]
		e := map[string]any{"ID": f.sessID(rec.Sid), "Name": "litefs", "Node": "fake", "Behavior": "delete", "TTL": "10s", "LockDelay": 1000000, "CreateIndex": 1, "ModifyIndex": 1}
		for _, k := range []string{"Name", "Behavior", "TTL"} {
			if v, ok := p[k]; ok {
				e[k] = v
			}
		}
		b, _ := json.Marshal([]any{e})
		return 200, b
	case "session.destroy":
		if applied {
			f.invalidate(rec.Sid)
		}
		if ans != "ok" {
			return fail()
		}
		rec.Sent = "true"
		return 200, []byte("true")
	case "kv.acquire":
		res := f.acquire(rec.Sid, body, applied)
		if ans != "ok" {
			return fail()
		}
		rec.Sent = res
		if res == "500" {
			return 500, []byte("rpc error: invalid session")
		}
		return 200, []byte(res)
	case "kv.delete":
		rec.Sid = f.key.sess // the session that held the lock when the delete arrived (0 = nobody)
		if ans != "ok" && ans != "lost" {
			return fail()
		}
		if f.key.exists {
			f.old = f.key
			f.index++
			f.key = kvEntry{}
		}
		if ans != "ok" {
			return fail()
		}
		rec.Sent = "true"
		return 200, []byte("true")
	case "kv.release":
		res := f.release(rec.Sid, body, applied)
		if ans != "ok" {
			return fail()
		}
		rec.Sent = res
		return 200, []byte(res)
	case "kv.get":
		if ans == "err" || ans == "lost" {
			return fail()
		}
		k := f.key
		if ans == "stale" {
			k = f.old
		}
		rec.Sent = "val:" + kvalOf(k)
		if !k.exists {
			return 404, nil
		}
		return 200, kvJSON(fakeKey, k, f)
	case "cid.get":
		if ans != "ok" {
			return fail()
		}
		rec.Sent = "val:" + string(f.cid.value)
		if !f.cid.exists {
			return 404, nil
		}
		return 200, kvJSON(fakeCIDKey, f.cid, f)
	case "cid.put", "cid.cas":
		res := "true"
		if rec.Q == "cid.cas" {
			want, _ := strconv.ParseUint(rec.Prev, 10, 64)
			if (want == 0 && f.cid.exists) || (want != 0 && (!f.cid.exists || f.cid.modify != want)) {
				res = "false"
			}
		}
		rec.Prev = string(f.cid.value)
		if applied && res == "true" {
			f.index++
			c := f.cid
			if !c.exists {
				c.create = f.index
			}
			c.exists, c.value, c.modify = true, append([]byte(nil), body...), f.index
			f.cid = c
		}
		if ans != "ok" {
			return fail()
		}
		rec.Sent = res
		return 200, []byte(res)
	}
	rec.Sent = "404"
	return 404, []byte("the fake Consul endpoint does not serve this request")
}
