package main

import (
	"fmt"
	"time"

	"github.com/superfly/litefs/verifharness/core"
	"github.com/superfly/litefs/verifharness/sim"
)

// streamEndsWithTenure: "serves the replication stream ... only between acquiring a lease and losing it".
// A real primary with a real replica connected over HTTP; the lease is taken away at the lease service (the
// next renewal reports it gone) and nobody may take it. Once the node has stopped being primary its stream to
// the replica must be over: the replica stops following it (it knows no primary any more).
func streamEndsWithTenure(rep *core.Report) {
	for _, how := range []string{"expired", "demoted"} {
		core.Beat("real:c08:stream-ends-with-tenure/" + how)
		cl := sim.NewCluster(core.Scratch("c08-stream"))
		cl.Lease.TTL = 600 * time.Millisecond
		cl.Lease.AllowOnly()
		p, err := cl.Start("p", sim.ClusterNodeOpts{Candidate: true})
		if err != nil {
			core.Infra("start p: %v", err)
		}
		if err := cl.Elect("p", 20*time.Second); err != nil {
			core.Infra("elect: %v", err)
		}
		cl.Lease.AllowOnly() // nobody may acquire from now on
		r, err := cl.Start("r", sim.ClusterNodeOpts{Candidate: false})
		if err != nil {
			core.Infra("start r: %v", err)
		}
		follows := func() string {
			_, info := r.Store.PrimaryInfo()
			if info == nil {
				return ""
			}
			return info.Hostname
		}
		for t0 := time.Now(); follows() == "" && time.Since(t0) < 20*time.Second; time.Sleep(time.Millisecond) {
		}
		if follows() == "" {
			core.Infra("replica never connected")
		}
		time.Sleep(50 * time.Millisecond) // a few heartbeats
		switch how {
		case "expired":
			cl.Lease.Expire()
		case "demoted":
			p.Store.Demote()
		}
		t0 := time.Now()
		for p.Store.IsPrimary() && time.Since(t0) < 20*time.Second {
			time.Sleep(time.Millisecond)
		}
		stepDown := time.Since(t0)
		rep.Eval(2)
		rep.TracesValidated++
		rep.Case("stream-ends-with-tenure/"+how, true)
		detail := map[string]any{"how": how, "ttl_ms": cl.Lease.TTL.Milliseconds(), "stepped_down_after_ms": stepDown.Milliseconds(), "lease_holder_at_the_service": cl.Lease.Holder()}
		if p.Store.IsPrimary() {
			rep.Violate("C08.stops-after-lease-lost", "stream-tenure/still-primary/"+how, detail, nil)
			_ = core.Try(cl.Close)
			continue
		}
		// bound: the handler notices its cancelled context at once; the replica then asks the lease service
		t1 := time.Now()
		for follows() != "" && time.Since(t1) < 4*time.Second {
			time.Sleep(time.Millisecond)
		}
		detail["replica_follows_after_ms"] = time.Since(t1).Milliseconds()
		if f := follows(); f != "" {
			detail["replica_still_follows"] = f
			rep.Violate("C08.stream-only-while-primary", "stream-tenure/stream-served-after-tenure/"+how, detail, map[string]any{"stream_tenure": how})
		}
		rep.Extra["stream_ends_with_tenure_"+how] = fmt.Sprintf("stepped down after %s, replica let go after %s", stepDown.Round(time.Millisecond), time.Since(t1).Round(time.Millisecond))
		_ = core.Try(cl.Close)
	}
	core.Beat("harness")
}
