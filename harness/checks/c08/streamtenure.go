package main

import (
	"bytes"
	"context"
	"fmt"
	"time"

	"github.com/superfly/litefs"
	lhttp "github.com/superfly/litefs/http"

	"github.com/superfly/litefs/verifharness/core"
	"github.com/superfly/litefs/verifharness/sim"
)

// streamEndsWithTenure: "serves the replication stream ... only between acquiring a lease and losing it".
// A real primary with a real replica connected over HTTP; the lease is taken away at the lease service (the
// next renewal reports it gone) and nobody may take it. Once the node has stopped being primary its stream to
// the replica must be over: the replica stops following it (it knows no primary any more).
func streamEndsWithTenure(rep *core.Report) {
	for _, how := range []string{"expired", "demoted"} {
		core.Beat("real:c08:stream-ends-with-tenure/" + how)
		cl := sim.NewCluster(core.Scratch("c08-stream"))
		cl.Lease.TTL = 600 * time.Millisecond
		cl.Lease.AllowOnly()
		p, err := cl.Start("p", sim.ClusterNodeOpts{Candidate: true})
		if err != nil {
			core.Infra("start p: %v", err)
		}
		if err := cl.Elect("p", 20*time.Second); err != nil {
			core.Infra("elect: %v", err)
		}
		cl.Lease.AllowOnly() // nobody may acquire from now on
		r, err := cl.Start("r", sim.ClusterNodeOpts{Candidate: false})
		if err != nil {
			core.Infra("start r: %v", err)
		}
		follows := func() string {
			_, info := r.Store.PrimaryInfo()
			if info == nil {
				return ""
			}
			return info.Hostname
		}
		for t0 := time.Now(); follows() == "" && time.Since(t0) < 20*time.Second; time.Sleep(time.Millisecond) {
		}
		if follows() == "" {
			core.Infra("replica never connected")
		}
		time.Sleep(50 * time.Millisecond) // a few heartbeats
		switch how {
		case "expired":
			cl.Lease.Expire()
		case "demoted":
			p.Store.Demote()
		}
		t0 := time.Now()
		for p.Store.IsPrimary() && time.Since(t0) < 20*time.Second {
			time.Sleep(time.Millisecond)
		}
		stepDown := time.Since(t0)
		rep.Eval(2)
		rep.TracesValidated++
		rep.Case("stream-ends-with-tenure/"+how, true)
		detail := map[string]any{"how": how, "ttl_ms": cl.Lease.TTL.Milliseconds(), "stepped_down_after_ms": stepDown.Milliseconds(), "lease_holder_at_the_service": cl.Lease.Holder()}
		if p.Store.IsPrimary() {
			rep.Violate("C08.stops-after-lease-lost", "stream-tenure/still-primary/"+how, detail, nil)
			_ = core.Try(cl.Close)
			continue
		}
		// bound: the handler notices its cancelled context at once; the replica then asks the lease service
		t1 := time.Now()
		for follows() != "" && time.Since(t1) < 4*time.Second {
			time.Sleep(time.Millisecond)
		}
		detail["replica_follows_after_ms"] = time.Since(t1).Milliseconds()
		if f := follows(); f != "" {
			detail["replica_still_follows"] = f
			rep.Violate("C08.stream-only-while-primary", "stream-tenure/stream-served-after-tenure/"+how, detail, map[string]any{"stream_tenure": how})
		}
		rep.Extra["stream_ends_with_tenure_"+how] = fmt.Sprintf("stepped down after %s, replica let go after %s", stepDown.Round(time.Millisecond), time.Since(t1).Round(time.Millisecond))
		_ = core.Try(cl.Close)
	}
	core.Beat("harness")
}

// handoffToBusySubscriber: a hand-off is requested for a connected replica whose stream handler on the primary
// is busy (it is in the middle of sending a large initial set that the replica does not read). The primary
// may give up on the hand-off, but its lease loop must go on: a node that acts as primary keeps renewing its
// lease (bound: the hand-off time-out of 5 s + half a TTL + 2 s).
func handoffToBusySubscriber(rep *core.Report) {
	core.Beat("real:c08:handoff-busy-subscriber")
	cl := sim.NewCluster(core.Scratch("c08-handoff"))
	defer func() { _ = core.Try(cl.Close) }()
	cl.Lease.AllowOnly()
	p, err := cl.Start("p", sim.ClusterNodeOpts{Candidate: true})
	if err != nil {
		core.Infra("start p: %v", err)
	}
	if err := cl.Elect("p", 20*time.Second); err != nil {
		core.Infra("elect: %v", err)
	}
	l := sim.L0(4096)
	pages := 12 << 20 / 4096
	img := func(v int) []byte {
		var buf bytes.Buffer
		for r := uint32(1); r <= uint32(pages); r++ {
			b := l.PageBytes(r, sim.Content{V: v + int(r), Sz: 1})
			if r == 1 {
				b[28], b[29], b[30], b[31] = byte(pages>>24), byte(pages>>16), byte(pages>>8), byte(pages)
			}
			buf.Write(b)
		}
		return buf.Bytes()
	}
	for i, n := range []string{"a.db", "b.db"} {
		if err := lhttp.NewClient().Import(context.Background(), p.URL, n, bytes.NewReader(img(1000*(i+1)))); err != nil {
			core.Infra("import %s: %v", n, err)
		}
	}
	r, err := cl.Start("r", sim.ClusterNodeOpts{Candidate: true, Configure: func(s *litefs.Store) {
		s.Client.(*sim.FaultClient).HoldAfter(6 << 20) // stops reading in the middle of the first database
	}})
	if err != nil {
		core.Infra("start r: %v", err)
	}
	for t0 := time.Now(); r.Client.Delivered() < 6<<20 && time.Since(t0) < 60*time.Second; time.Sleep(time.Millisecond) {
	}
	time.Sleep(200 * time.Millisecond) // the primary's handler has filled the connection and is blocked in a write
	hoDone := make(chan error, 1)
	t0 := time.Now()
	go func() {
		ctx, cancel := context.WithTimeout(context.Background(), 20*time.Second)
		defer cancel()
		hoDone <- lhttp.NewClient().Handoff(ctx, p.URL, r.Store.ID())
	}()
	bound := 5*time.Second + cl.Lease.TTL/2 + 2*time.Second
	renewed := false
	for time.Since(t0) < bound && !renewed {
		time.Sleep(20 * time.Millisecond)
		// a renewal that happened after the hand-off was requested (the hand-off itself starts with one)
		if at := cl.Lease.HolderRenewedAt(); !at.IsZero() && at.Sub(t0) > 500*time.Millisecond {
			renewed = true
		}
		if !p.Store.IsPrimary() {
			break
		}
	}
	rep.Eval(1)
	rep.TracesValidated++
	rep.Case("handoff-to-busy-subscriber", true)
	if p.Store.IsPrimary() && !renewed {
		rep.Violate("C08.primary-keeps-renewing", "handoff-busy-subscriber/no-renewal-while-primary", map[string]any{
			"ttl_ms": cl.Lease.TTL.Milliseconds(), "bound_ms": bound.Milliseconds(), "last_renewal_ms_after_the_request": cl.Lease.HolderRenewedAt().Sub(t0).Milliseconds(),
			"lease_holder": cl.Lease.Holder(), "bytes_delivered_to_the_replica": r.Client.Delivered()}, map[string]any{"handoff_busy": true})
	}
	r.Client.Resume()
	select {
	case <-hoDone:
	case <-time.After(25 * time.Second):
	}
	core.Beat("harness")
}
