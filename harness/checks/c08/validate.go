package main

import (
	"encoding/json"
	"fmt"
	"os"
	"path/filepath"
	"strings"
	"sync"
	"time"

	"github.com/superfly/litefs/verifharness/core"
)

// traceCfg derives the trace-validation configuration for a batch from spec/Trace_Lease.cfg.
func traceCfg(c cfgT) string {
	b, err := os.ReadFile(filepath.Join(core.SpecDir(), "Trace_Lease.cfg"))
	if err != nil {
		core.Infra("read Trace_Lease.cfg: %v", err)
	}
	s := string(b)
	rep := func(key, val string) {
		lines := strings.Split(s, "\n")
		found := false
		for i, l := range lines {
			if strings.HasPrefix(strings.TrimSpace(l), key+" =") {
				lines[i] = "  " + key + " = " + val
				found = true
			}
		}
		if !found {
			core.Infra("Trace_Lease.cfg has no constant %s", key)
		}
		s = strings.Join(lines, "\n")
	}
	rep("Candidate", map[bool]string{true: "TRUE", false: "FALSE"}[c.Cand])
	rep("LocalInit", fmt.Sprintf("%q", c.Local))
	rep("TTL", fmt.Sprint(c.TTL))
	if repaired {
		rep("CheckAfterAcquire", "TRUE")
	}
	return s
}

// runTraceTLC validates one concatenation of runs; it returns whether the whole file was accepted
// and the index (in file order) of the last run whose reset event was reached.
func runTraceTLC(c cfgT, log []event) (accepted bool, lastRun int, res *core.TLCResult) {
	dir := core.Scratch("trace")
	defer os.RemoveAll(dir)
	p := filepath.Join(dir, "trace.ndjson")
	writeLog(p, log)
	var mu sync.Mutex
	lastRun = -1
	res, err := core.RunTLC(core.TLCOpts{Module: "LeaseTrace", Cfg: "Trace_Lease_gen.cfg", Workers: 1, DFS: true, Timeout: 10 * time.Minute,
		Env: map[string]string{"TRACE_FILE": p}, ExtraFiles: map[string]string{"Trace_Lease_gen.cfg": traceCfg(c)},
		OnLine: func(tag string, payload json.RawMessage) {
			if tag != "RESET" {
				return
			}
			var x struct {
				Run int `json:"run"`
			}
			if json.Unmarshal(payload, &x) == nil {
				mu.Lock()
				lastRun = x.Run
				mu.Unlock()
			}
		}})
	if err != nil {
		core.Infra("tlc trace validation: %v", err)
	}
	if res.TimedOut {
		core.Infra("tlc trace validation timed out: %s", res.Describe())
	}
	switch res.Violation {
	case "NotAccepted":
		return true, lastRun, res
	case "":
		if res.ExitCode != 0 {
			core.Infra("tlc trace validation failed: %s\n%s", res.Describe(), res.OutputTail)
		}
		return false, lastRun, res
	default:
		core.Infra("unexpected TLC result in trace validation: %s\n%s", res.Describe(), res.ErrorText)
	}
	return false, lastRun, res
}

func validate(c cfgT, log []event) (bool, *core.TLCResult) {
	ok, _, res := runTraceTLC(c, log)
	return ok, res
}

// validateAll groups the recorded runs by configuration and lets one JVM validate each batch; a
// rejected run is identified from the last reset event TLC got past, recorded, and the rest of
// the batch is validated again (R3: nonconformance is evidence, not a verdict).
func validateAll(rep *core.Report, outs []*outcome) {
	type key struct {
		cand  bool
		local string
		ttl   int
	}
	groups := map[key][]*outcome{}
	var order []key
	for _, o := range outs {
		k := key{o.sc.Cfg.Cand, o.sc.Cfg.Local, o.sc.Cfg.TTL}
		if _, ok := groups[k]; !ok {
			order = append(order, k)
		}
		groups[k] = append(groups[k], o)
	}
	accepted, rejected := 0, 0
	var wg sync.WaitGroup
	var mu sync.Mutex
	for _, k := range order {
		wg.Add(1)
		go func(k key) {
			defer wg.Done()
			batch := groups[k]
			c := cfgT{Cand: k.cand, Local: k.local, TTL: k.ttl}
			nrej := 0
			for len(batch) > 0 {
				if nrej >= 6 {
					mu.Lock()
					rep.Note("trace validation of batch %s stopped after %d rejected runs; %d runs not validated", c, nrej, len(batch))
					mu.Unlock()
					return
				}
				var log []event
				for i, o := range batch {
					for _, e := range o.log {
						e.Run = i
						log = append(log, e)
					}
				}
				ok, last, res := runTraceTLC(c, log)
				mu.Lock()
				rep.AddTLC(fmt.Sprintf("Trace_Lease[%s]", c), res)
				mu.Unlock()
				if ok {
					mu.Lock()
					accepted += len(batch)
					for _, o := range batch {
						o.acc = true
					}
					mu.Unlock()
					return
				}
				if last < 0 || last >= len(batch) {
					core.Infra("trace validation rejected a batch without telling where: %s", res.Describe())
				}
				bad := batch[last]
				mu.Lock()
				accepted += last
				for _, o := range batch[:last] {
					o.acc = true
				}
				rejected++
				nrej++
				p := saveLog(fmt.Sprintf("rejected-%s-%d-%d", rep.Args.Tier, rep.Args.Seed, rejected), bad.log)
				if len(bad.fails) == 0 {
					rep.Nonconf("LeaseTrace.tla rejects the run of script %s (no monitor failed); spec->impl differences: %v; trace: %s", bad.sc.key(), bad.mism, p)
				} else {
					rep.Note("LeaseTrace.tla rejects the run of script %s on which monitors failed as well; trace: %s", bad.sc.key(), p)
				}
				bad.mism = nil
				mu.Unlock()
				batch = batch[last+1:]
			}
		}(k)
	}
	wg.Wait()
	// spec -> impl differences that trace validation did not already account for
	for _, o := range outs {
		if len(o.mism) > 0 && len(o.fails) == 0 {
			rep.Nonconf("script %s: %v", o.sc.key(), o.mism)
		}
	}
	rep.Extra["traces_accepted_by_LeaseTrace"] = accepted
	rep.Extra["traces_rejected_by_LeaseTrace"] = rejected
}

// selfTest: the binding must not be vacuous. A recorded run with one observation flipped, and one
// with an answer replaced, must be rejected; the untouched run must be accepted.
func selfTest(rep *core.Report, outs []*outcome) {
	var pick *outcome
	for _, o := range outs {
		if o.acc && o.quies && len(o.fails) == 0 && len(o.mism) == 0 && o.sc.Cfg.TTL == 300 && !strings.HasPrefix(o.sc.Source, "static") {
			n := 0
			for _, e := range o.log {
				if e.Ev == "call" && e.C == "RENEW" && e.A == "ok" {
					n++
				}
			}
			if n >= 1 && (pick == nil || len(o.log) > len(pick.log)) {
				pick = o
			}
		}
	}
	if pick == nil {
		for _, o := range outs {
			if len(o.fails) > 0 || !o.acc {
				rep.Note("self-test skipped: no accepted run without monitor failures that renews a lease")
				return
			}
		}
		core.Infra("self-test: no suitable recorded run")
	}
	if ok, res := validate(pick.sc.Cfg, pick.log); !ok {
		core.Infra("self-test: trace validation rejects a run it accepted in the batch: %s", res.Describe())
	}
	flip := append([]event(nil), pick.log...)
	for i := range flip {
		if flip[i].Ev == "call" && flip[i].C == "RENEW" {
			flip[i].Prim = !flip[i].Prim
			break
		}
	}
	if ok, _ := validate(pick.sc.Cfg, flip); ok {
		core.Infra("self-test: trace validation accepts a run with IsPrimary flipped inside Renew (binding vacuous)")
	}
	ans := append([]event(nil), pick.log...)
	for i := range ans {
		if ans[i].Ev == "call" && ans[i].C == "RENEW" && ans[i].A == "ok" {
			ans[i].A = "expired" // the store went on renewing although the model would have left the tenure
			break
		}
	}
	if ok, _ := validate(pick.sc.Cfg, ans); ok {
		core.Infra("self-test: trace validation accepts a run that keeps renewing after ErrLeaseExpired (binding vacuous)")
	}
	// monitors: a run that stays primary after Close() must be flagged
	mon := append([]event(nil), pick.log...)
	seenClose := false
	for i := range mon {
		if mon[i].Ev == "close" {
			seenClose = true
		} else if seenClose && (mon[i].Ev == "call" || mon[i].Ev == "quiesce") {
			mon[i].Prim = true
			break
		}
	}
	if seenClose {
		if f, _ := monitors(pick.sc.Cfg, mon); len(f) == 0 {
			core.Infra("self-test: the monitors accept a run that is primary after Close()")
		}
	}
	rep.Extra["self_test"] = "flipped observation rejected, altered answer rejected, primary-after-close flagged"
}
