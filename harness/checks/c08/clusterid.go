package main

import (
	"fmt"
	"os"
	"path/filepath"
	"strings"
	"sync/atomic"
	"syscall"
	"time"

	"github.com/superfly/litefs"

	"github.com/superfly/litefs/verifharness/core"
	"github.com/superfly/litefs/verifharness/sim"
)

// clusterIDPersist: the cluster ID a node acts under is its STORED one. A node without a stored ID (a new
// member) takes the cluster's ID on its first lease / first stream and writes it to its data directory; here
// one call of that write fails once (Faults.tla, operation set_cluster_id). Afterwards, whenever the node is
// primary or has replicated from the primary, the ID in its data directory is the cluster's.
func clusterIDPersist(rep *core.Report) {
	for _, role := range []string{"primary", "replica"} {
		for _, call := range []string{"MkdirAll", "Create", "Rename"} {
			clusterIDCase(rep, role, call)
		}
	}
}

func storedClusterID(dir string) string {
	b, err := os.ReadFile(filepath.Join(dir, "clusterid"))
	if err != nil {
		return ""
	}
	return strings.TrimSpace(string(b))
}

func clusterIDCase(rep *core.Report, role, call string) {
	key := "cluster-id-persist/" + role + "/" + call
	core.Beat("real:c08:" + key)
	defer core.Beat("harness")
	dir := core.Scratch("c08cid")
	defer os.RemoveAll(dir)
	cl := sim.NewCluster(dir)
	defer func() { _ = core.Try(cl.Close) }()
	var injected atomic.Int32
	fault := func(s *litefs.Store) {
		s.OS.(*sim.OSWrap).Before = func(ev sim.OSEvent) error {
			if ev.Label == "SETCLUSTERID" && ev.Call == call && injected.CompareAndSwap(0, 1) {
				return &os.PathError{Op: strings.ToLower(call), Path: ev.Path, Err: syscall.ENOSPC}
			}
			return nil
		}
	}
	rep.Case(key, true)
	rep.Eval(1)
	det := func(n *sim.CNode) map[string]any {
		return map[string]any{"role": role, "failing_call": call + ":SETCLUSTERID", "fault_injected": injected.Load() == 1,
			"stored_id": storedClusterID(n.Dir), "in_memory_id": n.Store.ClusterID(), "lease_service_id": cl.Lease.ClusterID(), "is_primary": n.Store.IsPrimary()}
	}
	if role == "primary" {
		// a brand-new cluster: neither the lease service nor the node has an ID
		cl.ClusterID = ""
		cl.Lease.SetClusterID("")
		n1, err := cl.Start("n1", sim.ClusterNodeOpts{Candidate: true, Configure: fault})
		if err != nil {
			core.Infra("start n1: %v", err)
		}
		if err := cl.WaitPrimary("n1", 15*time.Second); err != nil {
			// never becoming primary is not what this monitor is about
			rep.Note("%s: %v", key, err)
			return
		}
		time.Sleep(50 * time.Millisecond)
		if n1.Store.IsPrimary() && (storedClusterID(n1.Dir) == "" || storedClusterID(n1.Dir) != cl.Lease.ClusterID()) {
			rep.Violate("C08.own-cluster-only", "cluster-id/primary-without-the-stored-id/"+call, mergeMap(det(n1), map[string]any{"what": "after one failed attempt to store the cluster ID the node is primary while the ID in its data directory is not the cluster's"}), map[string]any{"stage": "cluster-id-persist", "role": role, "call": call})
		}
		return
	}
	n1, err := cl.Start("n1", sim.ClusterNodeOpts{Candidate: true})
	if err != nil {
		core.Infra("start n1: %v", err)
	}
	if err := cl.Elect("n1", 15*time.Second); err != nil {
		core.Infra("elect n1: %v", err)
	}
	conn := n1.Connect("db", 31)
	pg := sim.NewPager(conn, sim.L0(4096), sim.PagerOpts{Sector: 512, Busy: time.Second})
	if err := commitJ(pg, sim.Plan{Kind: "j", Ns: 2, M: []int{1, 2}, Out: "commit", Fin: "DELETE", V: 1}); err != nil {
		core.Infra("tx1: %v", err)
	}
	// a new member: no stored ID
	id := cl.ClusterID
	cl.ClusterID = ""
	n2, err := cl.Start("n2", sim.ClusterNodeOpts{Configure: fault})
	cl.ClusterID = id
	if err != nil {
		core.Infra("start n2: %v", err)
	}
	if err := cl.WaitPos("n2", "db", n1.Store.DB("db").Pos(), 15*time.Second); err != nil {
		rep.Note("%s: %v", key, err)
		return
	}
	if got := storedClusterID(n2.Dir); got != id {
		rep.Violate("C08.own-cluster-only", "cluster-id/replica-without-the-stored-id/"+call, mergeMap(det(n2), map[string]any{"what": "after one failed attempt to store the cluster ID the node has replicated from the primary while the ID in its data directory is not the cluster's", "position": fmt.Sprint(n2.Store.DB("db").Pos())}), map[string]any{"stage": "cluster-id-persist", "role": role, "call": call})
	}
}

func mergeMap(a, b map[string]any) map[string]any {
	for k, v := range b {
		a[k] = v
	}
	return a
}

func commitJ(pg *sim.Pager, pl sim.Plan) error {
	if err := pg.BeginJ(pl); err != nil {
		return err
	}
	for _, f := range []func() error{pg.JCreate, pg.JSync} {
		if err := f(); err != nil {
			return err
		}
	}
	for _, q := range pl.M {
		if err := pg.JPage(q); err != nil {
			return err
		}
	}
	err := pg.JFinal()
	pg.EndJ()
	return err
}
