package main

import (
	"bytes"
	"context"
	"fmt"
	"io"
	"os"
	"path/filepath"
	"strings"
	"sync"
	"time"

	"github.com/superfly/litefs"
	lhttp "github.com/superfly/litefs/http"
	"github.com/superfly/litefs/verifharness/core"
	"github.com/superfly/litefs/verifharness/sim"
	"github.com/superfly/ltx"
)

const (
	idA = "LFSC0000000000000001" // the node's own cluster (stored in <datadir>/clusterid when Local = "A")
	idB = "LFSCFFFFFFFFFFFFFFFF" // a foreign cluster
)

var peerIDs = map[string]uint64{"N1": 0x1111, "N2": 0x2222, "N9": 0x9999}

// event is one line of the recorded trace (ndjson for LeaseTrace.tla; every field always present).
type event struct {
	Ev    string `json:"ev"` // reset | call | close | obs | frame | quiesce | final
	Run   int    `json:"run"`
	Seq   int    `json:"seq"`
	C     string `json:"c"`  // CID INFO ACQ ACQX SETCID RENEW STREAM CLOSE | TTL RENEWEDAT HOCH ID ENV1 ENV0 READ SCLOSE
	A     string `json:"a"`  // answer given
	S     string `json:"s"`  // request made by the environment during the call
	Sr    string `json:"sr"` // its result
	Prim  bool   `json:"prim"`
	Done  bool   `json:"done"`
	Pinfo bool   `json:"pinfo"`
	Local string `json:"local"` // store.ClusterID() as a symbol ("" A B G)
	T     int64  `json:"t"`     // ms since the current lease was obtained
	Node  string `json:"node"`  // frame: the peer that read it
	// for the monitors only
	At        int64  `json:"at"`        // ms since the run started
	Lease     int    `json:"lease"`     // number of the lease object concerned (0 = none)
	LeaseID   string `json:"lease_id"`  // frame / ACQX: lease id carried
	StaleCtx  bool   `json:"stale_ctx"` // a context obtained from PrimaryCtx during an earlier tenure is still live
	Q         bool   `json:"q"`         // answered by the quiescent default (script exhausted)
	Cand      bool   `json:"cand"`
	SvcSet    string `json:"svc_set"`    // SETCID: the id passed, as a symbol
	StreamCID string `json:"stream_cid"` // READ/SCLOSE: cluster id of the stream being read
	// Consul stage only: what the fake endpoint really answered (ground truth), and failures of the
	// leaser-level monitors on this call (ev = "gt": c = monitor, a = signature)
	Srv    string `json:"srv"`
	Detail string `json:"detail"`
}

type sLease struct {
	r         *run
	n         int
	id        string
	obtained  time.Time
	renewedAt time.Time
	frozenEl  time.Duration
	handoffCh chan uint64
}

type capturedCtx struct {
	lease  int
	ctx    context.Context
	cancel context.CancelFunc
}

type peer struct {
	name      string
	id        uint64
	cancel    context.CancelFunc
	done      chan struct{}
	connected bool
	client    *lhttp.Client
	sub       *litefs.ChangeSetSubscriber // mute peer
}

// run executes one script against one real store.
type run struct {
	sc    *script
	cfg   cfgT
	id    int
	store *litefs.Store
	start time.Time
	ttl   time.Duration

	mu        sync.Mutex
	log       []event
	pos       int // next entry of sc.H
	diverged  bool
	exhausted time.Time
	quiesced  bool
	doneCh    chan struct{}
	lastEvent time.Time
	mism      []string

	leases    []*sLease
	cur       *sLease
	lastRenew string // last scripted answer to Renew
	lastCID   string // last scripted answer to ClusterID (not an error)
	driveLeft int    // calls still answered permissively after the store left the script
	genID     string
	captured  []capturedCtx
	streamN   int
	frameIDs  map[string]bool // lease ids put into scripted handoff frames

	srv   *lhttp.Server
	url   string
	peers map[string]*peer

	inner litefs.Leaser // static-leaser runs: answers come from the real StaticLeaser

	consul *consulBackend // Consul runs: the answers come from the real consul.Leaser against the fake endpoint
}

func (r *run) sym(id string) string {
	switch id {
	case "":
		return ""
	case idA:
		return "A"
	case idB:
		return "B"
	}
	return "G"
}

func (r *run) conc(sym string) string {
	switch sym {
	case "A":
		return idA
	case "B":
		return idB
	case "G":
		r.mu.Lock()
		defer r.mu.Unlock()
		if r.genID != "" {
			return r.genID
		}
		return "LFSC00000000000000EE"
	}
	return ""
}

// sample reads the store's externally visible role state (called from inside mock calls).
func (r *run) sample(e *event) {
	st := r.store
	e.Prim = st.IsPrimary()
	ctx, cancel := context.WithCancel(context.Background())
	keep := false
	defer func() {
		if !keep {
			cancel()
		}
	}()
	pc := st.PrimaryCtx(ctx)
	e.Done = pc.Err() != nil
	_, info := st.PrimaryInfo()
	e.Pinfo = info != nil
	e.Local = r.sym(st.ClusterID())
	e.Cand = st.Candidate()
	e.At = time.Since(r.start).Milliseconds()

	r.mu.Lock()
	curN := 0
	if r.cur != nil {
		curN = r.cur.n
		e.T = time.Since(r.cur.obtained).Milliseconds()
	}
	if e.Lease == 0 {
		e.Lease = curN
	}
	if e.Prim && !e.Done {
		have := false
		for _, c := range r.captured {
			if c.lease == curN {
				have = true
			}
		}
		if !have {
			r.captured = append(r.captured, capturedCtx{lease: curN, ctx: pc, cancel: cancel})
			keep = true
		}
	}
	for _, c := range r.captured {
		if (c.lease != curN || !e.Prim) && c.ctx.Err() == nil {
			e.StaleCtx = true
		}
	}
	r.mu.Unlock()
}

func (r *run) append(e event) {
	r.mu.Lock()
	e.Run = r.id
	e.Seq = len(r.log) + 1
	r.log = append(r.log, e)
	r.lastEvent = time.Now()
	r.mu.Unlock()
}

func (r *run) obs(c string, fill func(e *event)) {
	r.mu.Lock()
	q := r.quiesced
	r.mu.Unlock()
	if q {
		return
	}
	e := event{Ev: "obs", C: c, S: "none", Sr: "none"}
	r.sample(&e)
	if fill != nil {
		fill(&e)
	}
	r.append(e)
}

// next is the heart of the scripted service: a call of kind c has arrived. It returns the answer
// to give ("" + park=true when the call has to be parked because the script is exhausted).
func (r *run) next(ctx context.Context, c string, fill func(e *event)) (ans string, park bool) {
	e := event{Ev: "call", C: c, S: "none", Sr: "none"}
	r.sample(&e)
	if fill != nil {
		fill(&e)
	}
	r.mu.Lock()
	if r.quiesced {
		r.mu.Unlock()
		return "", true
	}
	var ent *hEntry
	if !r.diverged && r.pos < len(r.sc.H) {
		ent = &r.sc.H[r.pos]
		if ent.K != "call" || ent.C != c {
			r.mism = append(r.mism, fmt.Sprintf("step %d: model predicts %s %s, the store called %s", r.pos+1, ent.K, ent.C, c))
			r.diverged = true
			ent = nil
		} else {
			r.pos++
			if o := (obsT{e.Prim, e.Done, e.Pinfo, e.Local}); o != ent.O && r.inner == nil {
				r.mism = append(r.mism, fmt.Sprintf("step %d (%s): model predicts %+v, observed %+v", r.pos, c, ent.O, o))
			}
		}
	}
	if ent == nil && r.exhausted.IsZero() {
		r.exhausted = time.Now()
	}
	drive, driving := "", false
	if ent == nil && r.diverged && r.driveLeft > 0 && c != "RENEW" {
		driving = true
		// the store has left the script (only a changed tree does): keep the lease service
		// permissive for a few more calls so that what the store is heading for becomes visible
		r.driveLeft--
		switch c {
		case "CID":
			drive = r.lastCID
		case "INFO":
			drive = "none"
		case "ACQ", "ACQX", "SETCID":
			drive = "ok"
		case "STREAM":
			drive = "err"
		}
	}
	if ent != nil && c == "CID" && ent.A != "err" {
		r.lastCID = ent.A
	}
	r.mu.Unlock()
	if driving {
		e.A, e.Q = drive, true
		if r.consul != nil {
			r.consul.perform(ctx, c, &e)
		}
		r.append(e)
		return e.A, false
	}

	if ent == nil {
		// quiescent default: renewals report the lease gone (drives a tenure to its end) or keep
		// failing, every other call is parked until the store shuts down
		if c == "RENEW" {
			// a run of failing renewals goes on failing; otherwise the lease is reported gone
			e.A, e.Q = "expired", true
			r.mu.Lock()
			if r.lastRenew == "err" {
				e.A = "err"
			}
			r.mu.Unlock()
			if r.consul != nil {
				r.consul.perform(ctx, c, &e)
			}
			r.append(e)
			return e.A, false
		}
		e.Ev, e.Q = "quiesce", true
		r.append(e)
		r.mu.Lock()
		r.quiesced = true
		close(r.doneCh)
		r.mu.Unlock()
		return "", true
	}
	e.A, e.S = ent.A, ent.S
	if c == "RENEW" {
		r.mu.Lock()
		r.lastRenew = ent.A
		r.mu.Unlock()
	}
	if ent.S != "none" {
		e.Sr = r.stimulus(ent.S)
		if e.Sr != ent.Sr {
			r.mu.Lock()
			r.mism = append(r.mism, fmt.Sprintf("step %d: request %s: model predicts %s, observed %s", r.pos, ent.S, ent.Sr, e.Sr))
			r.mu.Unlock()
		}
	}
	if r.consul != nil {
		// the real consul.Leaser makes the call against the fake endpoint, which has been set up so
		// that the scripted answer is the true one; what it really returned is logged
		r.consul.perform(ctx, c, &e)
		if e.A != ent.A {
			r.mu.Lock()
			r.mism = append(r.mism, fmt.Sprintf("step %d (%s): the endpoint was set up for %q, consul.Leaser returned %q", r.pos, c, ent.A, e.A))
			r.mu.Unlock()
		}
	}
	r.append(e)
	return e.A, false
}

func parkCtx(ctx context.Context) error {
	<-ctx.Done()
	return ctx.Err()
}

// ---------------------------------------------------------------- environment requests

func (r *run) stimulus(s string) string {
	switch s {
	case "demote":
		r.store.Demote()
		return "ok"
	case "ho1", "ho1x":
		r.ensurePeer("N1")
		r.ensurePeer("N2")
		if err := r.requestHandoff("N1"); err != nil {
			return "refused"
		}
		if s == "ho1x" {
			r.dropPeer("N1")
		}
		return "ok"
	case "ho9":
		if err := r.requestHandoff("N9"); err != nil {
			return "refused"
		}
		return "ok"
	}
	return "none"
}

func (r *run) requestHandoff(name string) error {
	ctx, cancel := context.WithTimeout(context.Background(), 10*time.Second)
	defer cancel()
	if r.srv == nil {
		return r.store.Handoff(ctx, peerIDs[name])
	}
	c := lhttp.NewClient()
	defer c.HTTPClient.CloseIdleConnections()
	return c.Handoff(ctx, r.url, peerIDs[name]) // POST /handoff on the real server
}

// ensurePeer connects a replica (played by the harness) to the real /stream endpoint of the store.
func (r *run) ensurePeer(name string) {
	r.mu.Lock()
	p := r.peers[name]
	r.mu.Unlock()
	if p != nil && p.connected && p.sub == nil {
		select {
		case <-p.done: // its stream has ended (the tenure it was connected in is over)
			p.connected = false
		default:
			if r.store.SubscriberByNodeID(p.id) == nil {
				p.cancel()
				p.connected = false
			}
		}
	}
	if p != nil && p.connected {
		return
	}
	p = &peer{name: name, id: peerIDs[name], done: make(chan struct{})}
	if r.cfg.Mute && name == "N1" {
		// a subscriber whose stream handler never takes the lease id (stuck writer)
		if r.store.IsPrimary() {
			p.sub = r.store.SubscribeChangeSet(p.id)
			p.connected = true
		}
		close(p.done)
		r.mu.Lock()
		r.peers[name] = p
		r.mu.Unlock()
		return
	}
	ctx, cancel := context.WithCancel(context.Background())
	p.cancel = cancel
	p.client = lhttp.NewClient()
	st, err := p.client.Stream(ctx, r.url, p.id, map[string]ltx.Pos{}, nil)
	if err != nil {
		cancel()
		close(p.done)
		r.mu.Lock()
		r.peers[name] = p
		r.mu.Unlock()
		return
	}
	p.connected = true
	go func() {
		defer close(p.done)
		defer st.Close()
		for {
			f, err := litefs.ReadStreamFrame(st)
			if err != nil {
				return
			}
			switch f := f.(type) {
			case *litefs.HandoffStreamFrame:
				e := event{Ev: "frame", Node: name, LeaseID: f.LeaseID, S: "none", Sr: "none", At: time.Since(r.start).Milliseconds()}
				r.mu.Lock()
				for _, l := range r.leases {
					if l.id == f.LeaseID {
						e.Lease = l.n
					}
				}
				r.mu.Unlock()
				r.append(e)
			case *litefs.EndStreamFrame:
				return
			}
		}
	}()
	r.mu.Lock()
	r.peers[name] = p
	r.mu.Unlock()
}

// dropPeer disconnects a peer and waits until the store no longer lists it as a subscriber.
func (r *run) dropPeer(name string) {
	r.mu.Lock()
	p := r.peers[name]
	r.mu.Unlock()
	if p == nil || !p.connected {
		return
	}
	if p.sub != nil {
		_ = p.sub.Close()
	} else {
		p.cancel()
	}
	p.connected = false
	deadline := time.Now().Add(10 * time.Second)
	for r.store.SubscriberByNodeID(p.id) != nil && time.Now().Before(deadline) {
		time.Sleep(200 * time.Microsecond)
	}
}

// ---------------------------------------------------------------- litefs.Leaser

type sLeaser struct{ r *run }

func (l *sLeaser) Close() error         { return nil }
func (l *sLeaser) Type() string         { return "scripted" }
func (l *sLeaser) Hostname() string     { return "node-under-test" }
func (l *sLeaser) AdvertiseURL() string { return "http://node-under-test.invalid:20202" }

func (l *sLeaser) ClusterID(ctx context.Context) (string, error) {
	r := l.r
	if r.consul != nil {
		return r.consul.ClusterID(ctx)
	}
	if r.inner != nil {
		v, err := r.inner.ClusterID(ctx)
		r.passthrough("CID", r.symErr(r.sym(v), err), nil)
		return v, err
	}
	a, park := r.next(ctx, "CID", nil)
	if park {
		return "", parkCtx(ctx)
	}
	if a == "err" {
		return "", fmt.Errorf("scripted: lease service unreachable")
	}
	return r.conc(a), nil
}

func (l *sLeaser) SetClusterID(ctx context.Context, id string) error {
	r := l.r
	if r.consul != nil {
		return r.consul.SetClusterID(ctx, id)
	}
	r.mu.Lock()
	if r.sym(id) == "G" {
		r.genID = id
	}
	r.mu.Unlock()
	fill := func(e *event) { e.SvcSet = r.sym(id) }
	if r.inner != nil {
		err := r.inner.SetClusterID(ctx, id)
		r.passthrough("SETCID", r.symErr("ok", err), fill)
		return err
	}
	a, park := r.next(ctx, "SETCID", fill)
	if park {
		return parkCtx(ctx)
	}
	if a == "err" {
		return fmt.Errorf("scripted: cannot set cluster id")
	}
	return nil
}

func (l *sLeaser) PrimaryInfo(ctx context.Context) (litefs.PrimaryInfo, error) {
	r := l.r
	if r.consul != nil {
		return r.consul.PrimaryInfo(ctx)
	}
	if r.inner != nil {
		v, err := r.inner.PrimaryInfo(ctx)
		a := "info"
		if err == litefs.ErrNoPrimary {
			a = "none"
		} else if err != nil {
			a = "err"
		}
		r.passthrough("INFO", a, nil)
		return v, err
	}
	a, park := r.next(ctx, "INFO", nil)
	if park {
		return litefs.PrimaryInfo{}, parkCtx(ctx)
	}
	switch a {
	case "info":
		return litefs.PrimaryInfo{Hostname: "other", AdvertiseURL: "http://other-primary.invalid:20202"}, nil
	case "none":
		return litefs.PrimaryInfo{}, litefs.ErrNoPrimary
	}
	return litefs.PrimaryInfo{}, fmt.Errorf("scripted: lease service unreachable")
}

func (r *run) newLease(id string, innerLease litefs.Lease) *sLease {
	r.mu.Lock()
	defer r.mu.Unlock()
	now := time.Now()
	le := &sLease{r: r, n: len(r.leases) + 1, id: id, obtained: now, renewedAt: now, handoffCh: make(chan uint64, 1)}
	if id == "" {
		le.id = fmt.Sprintf("lease-%d-%d", r.id, le.n)
	}
	r.leases = append(r.leases, le)
	r.cur = le
	return le
}

func (l *sLeaser) Acquire(ctx context.Context) (litefs.Lease, error) {
	r := l.r
	if r.consul != nil {
		return r.consul.Acquire(ctx)
	}
	if r.inner != nil {
		v, err := r.inner.Acquire(ctx)
		a := "ok"
		if err == litefs.ErrPrimaryExists {
			a = "exists"
		} else if err != nil {
			a = "err"
		}
		r.passthrough("ACQ", a, nil)
		if err != nil {
			return nil, err
		}
		return &staticWrap{sLease: r.newLease("", v), inner: v}, nil
	}
	a, park := r.next(ctx, "ACQ", nil)
	if park {
		return nil, parkCtx(ctx)
	}
	switch a {
	case "ok":
		return r.newLease("", nil), nil
	case "exists":
		return nil, litefs.ErrPrimaryExists
	}
	return nil, fmt.Errorf("scripted: lease service unreachable")
}

func (l *sLeaser) AcquireExisting(ctx context.Context, leaseID string) (litefs.Lease, error) {
	r := l.r
	if r.consul != nil {
		return r.consul.AcquireExisting(ctx, leaseID)
	}
	fill := func(e *event) { e.LeaseID = leaseID }
	if r.inner != nil {
		_, err := r.inner.AcquireExisting(ctx, leaseID)
		r.passthrough("ACQX", r.symErr("ok", err), fill)
		return nil, err
	}
	a, park := r.next(ctx, "ACQX", fill)
	if park {
		return nil, parkCtx(ctx)
	}
	if a == "ok" {
		return r.newLease(leaseID, nil), nil
	}
	return nil, litefs.ErrLeaseExpired
}

func (r *run) symErr(ok string, err error) string {
	if err != nil {
		return "err"
	}
	return ok
}

// passthrough logs a call answered by a real leaser (static-leaser runs).
func (r *run) passthrough(c, a string, fill func(e *event)) {
	e := event{Ev: "call", C: c, A: a, S: "none", Sr: "none"}
	r.sample(&e)
	if fill != nil {
		fill(&e)
	}
	r.append(e)
}

// ---------------------------------------------------------------- litefs.Lease

func (l *sLease) ID() string {
	l.r.obs("ID", func(e *event) { e.Lease = l.n })
	return l.id
}
func (l *sLease) TTL() time.Duration {
	l.r.obs("TTL", func(e *event) { e.Lease = l.n })
	return l.r.ttl
}
func (l *sLease) RenewedAt() time.Time {
	l.r.obs("RENEWEDAT", func(e *event) { e.Lease = l.n })
	l.r.mu.Lock()
	defer l.r.mu.Unlock()
	// the elapsed time the service reports is the one it saw when the failed renewal arrived
	return time.Now().Add(-l.frozenEl)
}
func (l *sLease) HandoffCh() <-chan uint64 {
	l.r.obs("HOCH", func(e *event) { e.Lease = l.n })
	return l.handoffCh
}
func (l *sLease) Handoff(ctx context.Context, nodeID uint64) error {
	select {
	case l.handoffCh <- nodeID:
		return nil
	default:
		return fmt.Errorf("scripted: a handoff is already pending")
	}
}
func (l *sLease) Renew(ctx context.Context) error {
	r := l.r
	entry := time.Now()
	r.mu.Lock()
	l.frozenEl = entry.Sub(l.renewedAt)
	r.mu.Unlock()
	a, park := r.next(ctx, "RENEW", func(e *event) { e.Lease = l.n; e.T = entry.Sub(l.obtained).Milliseconds() })
	if park {
		<-ctx.Done()
		return nil
	}
	switch a {
	case "ok":
		r.mu.Lock()
		l.renewedAt = entry
		l.frozenEl = 0
		r.mu.Unlock()
		return nil
	case "expired":
		return litefs.ErrLeaseExpired
	}
	return fmt.Errorf("scripted: lease service unreachable")
}
func (l *sLease) Close() error {
	r := l.r
	e := event{Ev: "close", C: "CLOSE", A: "ok", S: "none", Sr: "none", Lease: l.n}
	r.sample(&e)
	r.mu.Lock()
	q := r.quiesced
	if !q && !r.diverged && r.inner == nil {
		if r.pos < len(r.sc.H) {
			ent := r.sc.H[r.pos]
			if ent.K != "close" {
				r.mism = append(r.mism, fmt.Sprintf("step %d: model predicts %s %s, the store called Close()", r.pos+1, ent.K, ent.C))
				r.diverged = true
			} else {
				r.pos++
				if o := (obsT{e.Prim, e.Done, e.Pinfo, e.Local}); o != ent.O {
					r.mism = append(r.mism, fmt.Sprintf("step %d (Close): model predicts %+v, observed %+v", r.pos, ent.O, o))
				}
			}
		}
	}
	r.mu.Unlock()
	if !q {
		r.append(e)
	}
	return nil
}

// staticWrap records the calls made on a real StaticLease.
type staticWrap struct {
	*sLease
	inner litefs.Lease
}

func (w *staticWrap) TTL() time.Duration {
	w.r.obs("TTL", func(e *event) { e.Lease = w.n })
	return w.inner.TTL()
}
func (w *staticWrap) RenewedAt() time.Time { return w.inner.RenewedAt() }
func (w *staticWrap) Renew(ctx context.Context) error {
	err := w.inner.Renew(ctx)
	w.r.passthrough("RENEW", w.r.symErr("ok", err), func(e *event) { e.Lease = w.n })
	return err
}
func (w *staticWrap) Handoff(ctx context.Context, nodeID uint64) error {
	return w.inner.Handoff(ctx, nodeID)
}
func (w *staticWrap) HandoffCh() <-chan uint64 {
	w.r.obs("HOCH", func(e *event) { e.Lease = w.n })
	return w.inner.HandoffCh()
}

// ---------------------------------------------------------------- litefs.Client / litefs.Stream

type sClient struct{ r *run }

func (c *sClient) AcquireHaltLock(ctx context.Context, primaryURL string, nodeID uint64, name string, lockID int64) (*litefs.HaltLock, error) {
	return nil, fmt.Errorf("scripted client: not available")
}
func (c *sClient) ReleaseHaltLock(ctx context.Context, primaryURL string, nodeID uint64, name string, lockID int64) error {
	return fmt.Errorf("scripted client: not available")
}
func (c *sClient) Commit(ctx context.Context, primaryURL string, nodeID uint64, name string, lockID int64, rd io.Reader) error {
	return fmt.Errorf("scripted client: not available")
}

func (c *sClient) Stream(ctx context.Context, primaryURL string, nodeID uint64, posMap map[string]ltx.Pos, filter []string) (litefs.Stream, error) {
	r := c.r
	r.mu.Lock()
	r.streamN++
	hid := fmt.Sprintf("handed-lease-%d-%d", r.id, r.streamN)
	r.mu.Unlock()
	if r.consul != nil {
		hid = r.consul.handoffID() // the id of a session the (scripted) primary really holds on the endpoint
	}
	a, park := r.next(ctx, "STREAM", func(e *event) { e.LeaseID = hid })
	if park {
		return nil, parkCtx(ctx)
	}
	if a == "err" {
		return nil, fmt.Errorf("scripted: connection refused")
	}
	i := strings.IndexByte(a, '/')
	cid, end := a[:i], a[i+1:]
	st := &sStream{r: r, cid: r.conc(cid), sym: cid}
	if end == "ho" {
		id := hid
		var buf bytes.Buffer
		if err := litefs.WriteStreamFrame(&buf, &litefs.ReadyStreamFrame{}); err != nil {
			panic(err)
		}
		if err := litefs.WriteStreamFrame(&buf, &litefs.HandoffStreamFrame{LeaseID: id}); err != nil {
			panic(err)
		}
		st.buf = buf.Bytes()
	}
	return st, nil
}

type sStream struct {
	r   *run
	cid string
	sym string
	buf []byte
}

func (s *sStream) ClusterID() string { return s.cid }
func (s *sStream) Read(p []byte) (int, error) {
	s.r.obs("READ", func(e *event) { e.StreamCID = s.sym })
	if len(s.buf) == 0 {
		return 0, io.EOF
	}
	n := copy(p, s.buf)
	s.buf = s.buf[n:]
	return n, nil
}
func (s *sStream) Close() error {
	s.r.obs("SCLOSE", func(e *event) { e.StreamCID = s.sym })
	return nil
}

// ---------------------------------------------------------------- litefs.Environment

type sEnv struct{ r *run }

func (e *sEnv) Type() string { return "verif" }
func (e *sEnv) SetPrimaryStatus(ctx context.Context, isPrimary bool) {
	if isPrimary {
		e.r.obs("ENV1", nil)
	} else {
		e.r.obs("ENV0", nil)
	}
}

// ---------------------------------------------------------------- running one script

func runScript(sc *script, id int) *outcome {
	r := &run{sc: sc, cfg: sc.Cfg, id: id, ttl: time.Duration(sc.Cfg.TTL) * time.Millisecond, doneCh: make(chan struct{}),
		peers: map[string]*peer{}, frameIDs: map[string]bool{}, driveLeft: 8}
	o := &outcome{sc: sc}
	dir := core.Scratch("c08")
	defer os.RemoveAll(dir)
	if sc.Cfg.Local == "A" {
		if err := os.WriteFile(filepath.Join(dir, "clusterid"), []byte(idA+"\n"), 0o644); err != nil {
			core.Infra("seed cluster id: %v", err)
		}
	}
	r.start = time.Now()
	r.lastEvent = r.start
	r.log = append(r.log, event{Ev: "reset", Run: id, Seq: 1, S: "none", Sr: "none", Cand: sc.Cfg.Cand, Local: sc.Cfg.Local})
	var leaser litefs.Leaser = &sLeaser{r: r}
	static := strings.HasPrefix(sc.Source, "static")
	if static {
		r.inner = litefs.NewStaticLeaser(strings.HasPrefix(sc.Source, "static-primary"), "static-host", "http://static-primary.invalid:20202")
		r.ttl = 0
	}
	if strings.HasPrefix(sc.Source, "consul") {
		r.consul = newConsulBackend(r)
		defer r.consul.close()
	}
	var startErr error
	var node *sim.Node
	var err error
	if p := core.Try(func() {
		node, err = sim.OpenNode(sim.NodeOpts{Dir: dir, Candidate: sc.Cfg.Cand, Leaser: leaser, Client: &sClient{r: r}, NoWait: true,
			Configure: func(s *litefs.Store) {
				r.store = s
				s.ReconnectDelay = 2 * time.Millisecond
				s.DemoteDelay = 5 * time.Millisecond
				s.Environment = &sEnv{r: r}
				if sc.hasHandoff() {
					srv := lhttp.NewServer(s, "127.0.0.1:0")
					if e := srv.Listen(); e != nil {
						startErr = e
						return
					}
					r.srv = srv
					r.url = srv.URL()
				}
			}})
	}); p != nil {
		core.Infra("panic while opening a store: %s\n%s", p.Value, p.Stack)
	}
	if startErr != nil || err != nil {
		core.Infra("cannot open store: %v %v", startErr, err)
	}
	if r.srv != nil {
		r.srv.Serve()
	}
	if sc.Source == "static-primary/demote" {
		// a manual demotion of a static primary (requested from outside any leaser call)
		go func() {
			for i := 0; i < 2000 && !r.store.IsPrimary(); i++ {
				time.Sleep(time.Millisecond)
			}
			time.Sleep(20 * time.Millisecond)
			r.store.Demote()
		}()
	}

	// wait for quiescence; limits are far above anything the unchanged tree needs
	half := r.ttl / 2
	if half < time.Second {
		half = time.Second
	}
	idle := half + 4*time.Second
	post := r.ttl + 4*time.Second
	if sc.Cfg.Mute || sc.hasHandoff() {
		// processHandoff may wait 5 s for a target that does not take the lease id
		idle += 6 * time.Second
		post += 6 * time.Second
	}
	if static {
		idle, post = 400*time.Millisecond, 400*time.Millisecond
	}
	tick := time.NewTicker(2 * time.Millisecond)
loop:
	for {
		select {
		case <-r.doneCh:
			o.quies = true
			break loop
		case <-tick.C:
			r.mu.Lock()
			last, exh := r.lastEvent, r.exhausted
			r.mu.Unlock()
			if time.Since(last) > idle || (!exh.IsZero() && time.Since(exh) > post) || time.Since(r.start) > 90*time.Second ||
				(static && time.Since(r.start) > 1500*time.Millisecond) { // e.g. a non-candidate with a static primary leaser polls for ever
				break loop
			}
		}
	}
	tick.Stop()
	// peers drain their streams (a tenure that ended has ended them)
	if o.quies {
		r.mu.Lock()
		var ps []*peer
		for _, p := range r.peers {
			ps = append(ps, p)
		}
		r.mu.Unlock()
		for _, p := range ps {
			if p.sub != nil {
				continue
			}
			select {
			case <-p.done:
			case <-time.After(3 * time.Second):
			}
		}
	}
	fin := event{Ev: "final", S: "none", Sr: "none", Q: o.quies}
	r.sample(&fin)
	r.mu.Lock()
	r.quiesced = true // stop logging
	fin.Run, fin.Seq = r.id, len(r.log)+1
	r.log = append(r.log, fin)
	o.log = append([]event(nil), r.log...)
	o.mism = append([]string(nil), r.mism...)
	if !o.quies && !static {
		o.mism = append(o.mism, "the loop did not reach a parked call after the script was exhausted")
	}
	caps := r.captured
	ps := r.peers
	r.mu.Unlock()
	// teardown
	for _, p := range ps {
		if p.cancel != nil {
			p.cancel()
		}
		if p.sub != nil {
			_ = p.sub.Close()
		}
	}
	if r.srv != nil {
		closed := make(chan struct{})
		go func() { _ = r.srv.Close(); close(closed) }()
		select {
		case <-closed:
		case <-time.After(10 * time.Second):
		}
	}
	node.Close()
	for _, p := range ps {
		if p.client != nil {
			p.client.HTTPClient.CloseIdleConnections()
		}
	}
	for _, c := range caps {
		c.cancel()
	}
	o.dur = time.Since(r.start)
	if r.consul != nil {
		o.clog, o.cevals = r.consul.result()
	}
	return o
}

// staticScripts: the static leaser as the constant script (answers come from the real StaticLeaser).
func staticScripts() []*script {
	return []*script{
		{Cfg: cfgT{Cand: true, Local: "", TTL: 300}, Source: "static-primary"},
		{Cfg: cfgT{Cand: true, Local: "A", TTL: 300}, Source: "static-primary"},
		{Cfg: cfgT{Cand: false, Local: "", TTL: 300}, Source: "static-replica",
			H: []hEntry{{K: "call", C: "STREAM", A: "A/eof", S: "none", Sr: "none"}, {K: "call", C: "STREAM", A: "A/eof", S: "none", Sr: "none"}}},
	}
}
