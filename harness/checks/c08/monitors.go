package main

import "fmt"

// fail is one monitor failure on one recorded run.
type fail struct {
	Monitor string `json:"monitor"`
	Sig     string `json:"sig"`
	Detail  string `json:"detail"`
	Event   *event `json:"event,omitempty"`
}

// graceMs is the slack the property's timing clauses get on top of the TTL.
const graceMs = 3000

type leaseMon struct {
	n         int
	via       string // acq | acqx
	id        string
	closes    int
	delivered string   // peer that read a handoff frame carrying this lease's id
	failSince int64    // run time (ms) of the first renewal of the current run of renewals that did not succeed; -1 none
	failKind  string   // expired | errors
	cidCalls  int      // ClusterID calls since the lease was obtained (the first belongs to the tenure)
	loopMoved bool     // the loop is known to have left this lease's tenure behind
	closedAt  int      // index of the first close event
	reqs      []*hoReq // accepted handoff requests not yet served, oldest first
	loopCID   string   // what the loop-top ClusterID had answered when the lease was obtained
	localAt   string
}

// hoReq is one handoff request the store accepted.
type hoReq struct {
	node    string
	renewOK bool // a renewal of the lease succeeded after the request was accepted
}

// monitors evaluates the clauses of C08 on the observations recorded for one run. It looks only
// at what the real store did and reported (R1); it knows nothing about Lease.tla.
func monitors(cfg cfgT, log []event) (fails []fail, evals int) {
	add := func(mon, sig, detail string, e *event) {
		for _, f := range fails {
			if f.Monitor == mon && f.Sig == sig {
				return
			}
		}
		var ec *event
		if e != nil {
			c := *e
			ec = &c
		}
		fails = append(fails, fail{Monitor: mon, Sig: sig, Detail: detail, Event: ec})
	}
	leases := map[int]*leaseMon{}
	acqxOK := map[string]int{} // lease id -> successful AcquireExisting calls so far
	var cur *leaseMon
	loopCID := "" // last answer of a loop-top ClusterID call
	svcCID := ""  // the lease service's cluster id as last reported to / set by the node
	ttl := int64(cfg.TTL)

	setLoopMoved := func() {
		if cur != nil {
			cur.loopMoved = true
		}
	}
	for i := range log {
		e := &log[i]
		hasObs := e.Ev == "call" || e.Ev == "close" || e.Ev == "obs" || e.Ev == "quiesce" || e.Ev == "final"

		// ---- bookkeeping that depends on the call itself (before the clauses: obs are pre-state) ----
		sync := e.Ev == "call" || e.Ev == "quiesce" || e.Ev == "close" || e.Ev == "final"

		// M1  primary only between a successful Acquire/AcquireExisting and the end of that tenure
		if hasObs {
			evals++
			if e.Prim {
				switch {
				case e.Ev == "close":
					// the tenure ends before the lease is destroyed: from the moment the lease service
					// sees the destroy request another node may be primary
					add("C08.primary-only-in-tenure", "primary/while-destroying-lease", "IsPrimary() is still true inside Close() of the node's own lease: the node gives the lease away before it stops acting as primary", e)
				case cur == nil:
					add("C08.primary-only-in-tenure", "primary/without-lease", "IsPrimary() is true although no Acquire/AcquireExisting has returned a lease", e)
				case cur.closes > 0:
					add("C08.primary-only-in-tenure", "primary/after-close", fmt.Sprintf("IsPrimary() is true after Close() was called on lease %d", cur.n), e)
				case cur.delivered != "" && sync:
					add("C08.primary-only-in-tenure", "primary/after-handoff", fmt.Sprintf("IsPrimary() is true after lease %d was handed to %s", cur.n, cur.delivered), e)
				}
			}
			// the primary-scoped context is cancelled when the node is not primary
			evals++
			if !e.Prim && !e.Done {
				add("C08.primary-context-cancelled", "ctx/live-while-not-primary", "PrimaryCtx(ctx).Err() is nil while IsPrimary() is false", e)
			}
			if e.StaleCtx {
				add("C08.primary-context-cancelled", "ctx/earlier-tenure-still-live", "a context obtained from PrimaryCtx during an earlier tenure is still live", e)
			}
			// M2  the lease was reported gone / renewals have failed: not primary TTL + 3 s later
			if cur != nil && cur.failSince >= 0 {
				evals++
				if e.Prim && e.At-cur.failSince > ttl+graceMs && cfg.TTL > 0 {
					add("C08.stops-after-lease-lost", "lease-lost/still-primary/"+cur.failKind,
						fmt.Sprintf("still primary %d ms after the first of the renewals that did not succeed (TTL %d ms + %d ms)", e.At-cur.failSince, ttl, graceMs), e)
				}
			}
			// M5b no tenure for a cluster whose id differs from the stored one
			if e.Prim && cur != nil {
				evals++
				if svcCID != "" && svcCID != e.Local {
					rel := func(x, local string) string {
						switch {
						case x == "":
							return "unset"
						case x == local:
							return "own"
						}
						return "foreign"
					}
					loc := "set"
					if e.Local == "" {
						loc = "unset"
					}
					add("C08.own-cluster-only", fmt.Sprintf("own-cluster/tenure/via=%s/local=%s/loop-check=%s/in-tenure=foreign", cur.via, loc, rel(cur.loopCID, cur.localAt)),
						fmt.Sprintf("primary while the lease service's cluster id is %q and the stored one is %q", svcCID, e.Local), e)
				}
			}
		}

		switch e.Ev {
		case "call", "quiesce":
			// the loop has moved past a lease's tenure when it calls anything but the tenure's own calls
			if cur != nil {
				switch e.C {
				case "CID":
					cur.cidCalls++
					if cur.cidCalls > 1 {
						setLoopMoved()
					}
				case "INFO", "ACQ", "ACQX", "STREAM":
					setLoopMoved()
				}
			}
			if e.Ev == "quiesce" {
				// the call was made (and parked): the clauses about making it apply
				switch e.C {
				case "ACQ":
					evals++
					if !cfg.Cand {
						add("C08.noncandidate-never-acquires", "noncandidate/acquire", "Leaser.Acquire was called by a non-candidate", e)
					}
					fallthrough
				case "ACQX":
					evals++
					if loopCID != "" && loopCID != e.Local {
						add("C08.own-cluster-only", "own-cluster/"+e.C+"/loop-check=foreign",
							fmt.Sprintf("%s called although the lease service reported cluster id %q and the stored one is %q", e.C, loopCID, e.Local), e)
					}
					if e.C == "ACQX" {
						evals++
						if framesBefore(log[:i], e.LeaseID) <= acqxOK[e.LeaseID] {
							add("C08.handoff-only-to-requested", "handoff/acqx-reuses-a-consumed-frame",
								fmt.Sprintf("AcquireExisting(%s) called again although the only handoff frame carrying that id already started a tenure", e.LeaseID), e)
						}
					}
				}
				break
			}
			switch e.C {
			case "CID":
				if cur == nil || cur.cidCalls != 1 {
					if e.A != "err" {
						loopCID = e.A
					}
				}
				if e.A != "err" {
					svcCID = e.A
				}
			case "SETCID":
				if e.A == "ok" {
					svcCID = e.SvcSet
				}
			case "ACQ", "ACQX":
				// M4  a non-candidate never calls Acquire
				if e.C == "ACQ" {
					evals++
					if !cfg.Cand {
						add("C08.noncandidate-never-acquires", "noncandidate/acquire", "Leaser.Acquire was called by a non-candidate", e)
					}
				}
				// M5a no Acquire for a cluster whose id differs from the stored one
				evals++
				if loopCID != "" && loopCID != e.Local {
					add("C08.own-cluster-only", "own-cluster/"+e.C+"/loop-check=foreign",
						fmt.Sprintf("%s called although the lease service reported cluster id %q and the stored one is %q", e.C, loopCID, e.Local), e)
				}
				if e.C == "ACQX" {
					evals++
					if !knownFrame(log, e.LeaseID) {
						add("C08.handoff-only-to-requested", "handoff/acqx-without-frame", "AcquireExisting called with a lease id that no handoff frame carried: "+e.LeaseID, e)
					}
					// a handoff frame hands the lease over once: after the tenure it started has ended, the same
					// frame must not be used to take the lease back (the node has given it to somebody else, or lost it)
					evals++
					if framesBefore(log[:i], e.LeaseID) <= acqxOK[e.LeaseID] {
						add("C08.handoff-only-to-requested", "handoff/acqx-reuses-a-consumed-frame",
							fmt.Sprintf("AcquireExisting(%s) called again although the only handoff frame carrying that id already started a tenure", e.LeaseID), e)
					}
					if e.A == "ok" {
						acqxOK[e.LeaseID]++
					}
				}
				if e.A == "ok" {
					n := len(leases) + 1
					cur = &leaseMon{n: n, via: map[string]string{"ACQ": "acq", "ACQX": "acqx"}[e.C], failSince: -1, loopCID: loopCID, localAt: e.Local, id: e.LeaseID}
					leases[n] = cur
				}
			case "RENEW":
				l := leases[e.Lease]
				if l == nil {
					break
				}
				// Consul runs: what counts is what the lease service really said (e.Srv), not only what
				// the leaser made of it
				if e.A == "ok" && (e.Srv == "" || e.Srv == "200") {
					l.failSince = -1
					for _, q := range l.reqs {
						q.renewOK = true
					}
				} else if l.failSince < 0 {
					l.failSince = e.At
					l.failKind = map[string]string{"expired": "expired", "err": "errors", "ok": map[string]string{"404": "expired"}[e.Srv]}[e.A]
					if l.failKind == "" {
						l.failKind = "errors"
					}
				}
			}
			// handoff requests accepted by the store
			if (e.S == "ho1" || e.S == "ho1x") && e.Sr == "ok" && cur != nil {
				cur.reqs = append(cur.reqs, &hoReq{node: "N1"})
			}
		case "close":
			if l := leases[e.Lease]; l != nil {
				l.closes++
				if l.closes == 1 {
					l.closedAt = i
				}
			}
		case "gt":
			// a leaser-level monitor (consulreplay.go: leaserMonitors) failed on this call of a Consul run
			add(e.C, e.A, e.Detail, e)
		case "frame":
			// M6  the lease id goes only to the requested node, after a successful final renewal
			evals++
			l := leases[e.Lease]
			var req *hoReq
			if l != nil {
				for i, q := range l.reqs {
					if q.node == e.Node {
						req = q
						l.reqs = append(append([]*hoReq(nil), l.reqs[:i]...), l.reqs[i+1:]...)
						break
					}
				}
			}
			switch {
			case l == nil:
				add("C08.handoff-only-to-requested", "handoff/frame-with-unknown-lease", "a handoff frame carries a lease id the node does not hold: "+e.LeaseID, e)
			case req == nil:
				add("C08.handoff-only-to-requested", "handoff/frame-to-unrequested-node", fmt.Sprintf("peer %s read a handoff frame although no handoff to it was requested", e.Node), e)
			case !req.renewOK:
				add("C08.handoff-only-to-requested", "handoff/frame-without-final-renew", fmt.Sprintf("peer %s read a handoff frame although no renewal succeeded after the request", e.Node), e)
			default:
				l.delivered = e.Node
			}
		}
		// M5c no frames are read from a primary of another cluster
		if e.Ev == "obs" && e.C == "READ" {
			evals++
			if e.StreamCID != e.Local {
				add("C08.own-cluster-only", "own-cluster/stream/read-from-foreign", fmt.Sprintf("frames are read from a primary whose cluster id is %q, the stored one is %q", e.StreamCID, e.Local), e)
			}
		}
	}
	// M3  at the end: every lease whose tenure the loop has left behind was closed -- unless its id
	// reached the requested peer, in which case it must NOT have been closed
	var fin *event
	if len(log) > 0 && log[len(log)-1].Ev == "final" {
		fin = &log[len(log)-1]
	}
	for n := 1; n <= len(leases); n++ {
		l := leases[n]
		handed := false
		for i := range log {
			if log[i].Ev == "frame" && log[i].Lease == n {
				handed = true
			}
		}
		evals++
		switch {
		case handed && l.closes > 0:
			add("C08.lease-closed-unless-handed-off", "close/after-handoff", fmt.Sprintf("Close() was called on lease %d although it was handed off", n), &log[l.closedAt])
		case !handed && l.loopMoved && l.closes == 0:
			add("C08.lease-closed-unless-handed-off", "close/missing", fmt.Sprintf("the loop left the tenure of lease %d but Close() was never called on it", n), fin)
		case !handed && l.failSince >= 0 && l.closes == 0 && fin != nil && fin.At-l.failSince > ttl+graceMs && cfg.TTL > 0:
			add("C08.lease-closed-unless-handed-off", "close/missing-after-lease-lost", fmt.Sprintf("lease %d was lost %d ms ago and has not been closed", n, fin.At-l.failSince), fin)
		}
	}
	return fails, evals
}

// knownFrame reports whether the lease id was carried by a handoff frame of a stream the node
// was given (the STREAM call event records the id its handoff frame carries).
// framesBefore counts the handoff frames carrying lease id that the node has received so far.
func framesBefore(log []event, id string) int {
	n := 0
	for i := range log {
		e := &log[i]
		if e.Ev == "call" && e.C == "STREAM" && len(e.A) >= 3 && e.A[len(e.A)-3:] == "/ho" && e.LeaseID == id && id != "" {
			n++
		}
	}
	return n
}

func knownFrame(log []event, id string) bool {
	for i := range log {
		e := &log[i]
		if e.Ev == "call" && e.C == "STREAM" && len(e.A) >= 3 && e.A[len(e.A)-3:] == "/ho" && e.LeaseID == id && id != "" {
			return true
		}
	}
	return false
}
