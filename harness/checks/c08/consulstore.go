package main

// Stage 6c: a real Store whose Leaser is the real consul.Leaser talking to the fake Consul endpoint.
//
// The scripts are Lease.tla's (a subset chosen by pickStoreScripts): each entry names the call the
// loop is predicted to make and the answer the lease service gives. Before the real call is made
// the backend brings the endpoint into a state (or arms one-shot faults / actions of the
// environment between two requests of the call) in which that answer is the TRUE answer - by one
// of several recipes chosen by a seeded generator: "Acquire -> exists" is a competitor holding the
// key, or a lock-delay in force; "Acquire -> err" is a failing session create, a lost response, a
// failing lock request, or the new session expiring before the lock request; "Renew -> expired" is
// the server dropping the session; "SetClusterID -> ok" may have a competitor set the id between
// the read and the write; and so on. The wrapper logs every call exactly like the scripted mock of
// the existing stages does (same event format: the same monitors and LeaseTrace.tla judge it), with
// the answer the real leaser returned and, as ground truth, what the endpoint answered. The
// endpoint-level log (requests, environment, return values) is validated by ConsulLeaseTrace.tla.

import (
	"context"
	"encoding/json"
	"fmt"
	"hash/fnv"
	"math/rand"
	"os"
	"path/filepath"
	"strings"
	"sync"
	"time"

	"github.com/superfly/litefs"
	"github.com/superfly/litefs/consul"
	"github.com/superfly/litefs/verifharness/core"
)

// cevent is one line of the endpoint-level trace (ndjson for ConsulLeaseTrace.tla; every field always present).
type cevent struct {
	Ev  string `json:"ev"` // reset | req | ret | env | drop
	Run int    `json:"run"`
	N   string `json:"n"`
	Op  string `json:"op"`
	Q   string `json:"q"`
	P   int    `json:"p"`
	V   string `json:"v"`
	Ans string `json:"ans"`
	R   string `json:"r"`
	Ret string `json:"ret"`
}

var consulSeed int64 = 1

// consulCAS is set by probeCAS(): the tree under test writes the cluster ID with cas (candidate repair
// proposed_fixes/C08-consul-clusterid-cas.diff applied); the specifications are then run with UseCAS = TRUE.
var consulCAS bool

func probeCAS() bool {
	f := newFakeConsul("n1")
	defer f.close()
	l, err := newLeaser(f, "n1", false, time.Second)
	if err != nil {
		core.Infra("open consul leaser against the fake endpoint: %v", err)
	}
	ctx, cancel := context.WithTimeout(context.Background(), 20*time.Second)
	defer cancel()
	_ = l.SetClusterID(ctx, idA)
	for _, r := range f.snapshotLog() {
		if r.Q == "cid.cas" {
			return true
		}
	}
	return false
}

// consulSpecCfg returns the configuration to use for a cfg file of ConsulLease.tla: the file itself, or
// a copy with the constant of the repair switched on (and the cluster-ID invariant checked).
func consulSpecCfg(file string) (string, map[string]string) {
	if !consulCAS {
		return file, nil
	}
	b, err := os.ReadFile(filepath.Join(core.SpecDir(), file))
	if err != nil {
		core.Infra("read %s: %v", file, err)
	}
	s := strings.Replace(string(b), "UseCAS = FALSE", "UseCAS = TRUE", 1)
	s = strings.Replace(s, "INVARIANTS TypeOK", "INVARIANTS ClusterIDSetOnce TypeOK", 1)
	name := strings.TrimSuffix(file, ".cfg") + "_cas.cfg"
	return name, map[string]string{name: s}
}

type consulBackend struct {
	r      *run
	f      *fakeConsul
	leaser *consul.Leaser
	rnd    *rand.Rand

	mu      sync.Mutex
	clog    []cevent
	evals   int
	callNo  int
	oneShot map[string]string // request class -> answer class for the next such request
	before  map[string]func() // request class -> action of the environment performed just before it is applied
	recipe  []string          // recipes used (diagnostics)

	// arguments / results of the call being performed (the loop is one goroutine)
	argID    string
	resStr   string
	resInfo  litefs.PrimaryInfo
	resLease litefs.Lease
	resErr   error

	curOp   string  // leaser-level call in flight (acquire acqx renew close info cid setcid)
	open    *cLease // the lease object the store holds and has not closed
	pending bool    // a Handoff() is waiting for the loop to take it
}

func newConsulBackend(r *run) *consulBackend {
	h := fnv.New64a()
	h.Write([]byte(r.sc.key()))
	b := &consulBackend{r: r, f: newFakeConsul("n1"), oneShot: map[string]string{}, before: map[string]func(){},
		rnd: rand.New(rand.NewSource(consulSeed ^ int64(h.Sum64()&0x7fffffffffffffff)))}
	b.f.reset(r.id)
	b.f.plan = b.plan
	b.f.after = b.after
	l, err := newLeaser(b.f, "n1", r.id%2 == 1, r.ttl)
	if err != nil {
		core.Infra("open consul leaser against the fake endpoint: %v", err)
	}
	b.leaser = l
	b.clog = append(b.clog, cevent{Ev: "reset", Run: r.id})
	return b
}

func (b *consulBackend) close() { b.f.close() }

func (b *consulBackend) result() ([]cevent, int) {
	b.mu.Lock()
	defer b.mu.Unlock()
	return append([]cevent(nil), b.clog...), b.evals
}

func (b *consulBackend) logc(e cevent) {
	b.mu.Lock()
	e.Run = b.r.id
	b.clog = append(b.clog, e)
	b.mu.Unlock()
}

// symV turns a concrete value of the endpoint into the symbol the specifications use.
func (b *consulBackend) symV(q, v string) string {
	if q == "cid.put" || q == "cid.cas" {
		return b.r.sym(v)
	}
	return v
}

func (b *consulBackend) symSent(q, sent string) string {
	if q == "cid.get" && strings.HasPrefix(sent, "val:") {
		return "val:" + b.r.sym(strings.TrimPrefix(sent, "val:"))
	}
	return sent
}

// plan is called by the endpoint for every request (before it is applied).
func (b *consulBackend) plan(rec *reqRec) string {
	b.mu.Lock()
	pre := b.before[rec.Q]
	delete(b.before, rec.Q)
	ans, ok := b.oneShot[rec.Q]
	delete(b.oneShot, rec.Q)
	b.mu.Unlock()
	if pre != nil {
		pre()
	}
	if !ok {
		ans = "ok"
	}
	return ans
}

func (b *consulBackend) after(rec reqRec) {
	if rec.Q == "catalog.register" || rec.Q == "other" {
		return
	}
	b.mu.Lock()
	op := b.curOp
	b.mu.Unlock()
	b.logc(cevent{Ev: "req", N: "n1", Op: op, Q: rec.Q, P: rec.Sid, V: b.symV(rec.Q, rec.Val), Ans: rec.Ans, R: b.symSent(rec.Q, rec.Sent)})
}

// ---------------------------------------------------------------- environment, logged

func (b *consulBackend) envExpire(x int) {
	if p := b.f.proj(0); x < 1 || x > len(p.Live) || !p.Live[x-1] {
		return // the server has dropped it already
	}
	b.f.envExpire(x)
	b.logc(cevent{Ev: "env", Op: "expire", P: x})
}

func (b *consulBackend) envDelay() {
	b.f.envDelayElapse()
	b.logc(cevent{Ev: "env", Op: "delay"})
}

func (b *consulBackend) envSetCID(v string) {
	b.f.envSetCID(v)
	b.logc(cevent{Ev: "env", Op: "cidany", V: b.r.sym(v)})
}

// freeKey makes the primary key acquirable; competitor takes it if take is set. Returns the competitor's session.
func (b *consulBackend) freeKey(take bool) int {
	p := b.f.proj(0)
	if p.Kh != 0 {
		b.envExpire(p.Kh)
	}
	if b.f.proj(0).Delay {
		b.envDelay()
	}
	if !take {
		return 0
	}
	x := b.f.envXAcq()
	if x == 0 {
		core.Infra("fake endpoint: competitor cannot take a free key")
	}
	b.logc(cevent{Ev: "env", Op: "xacq", P: x, V: "x"})
	return x
}

// handoffID: the scripted primary the node replicates from hands its lease over: a competitor's
// session that really holds the key on the endpoint.
func (b *consulBackend) handoffID() string {
	r := b.r
	r.mu.Lock()
	ho := !r.diverged && r.pos < len(r.sc.H) && r.sc.H[r.pos].C == "STREAM" && strings.HasSuffix(r.sc.H[r.pos].A, "/ho")
	r.mu.Unlock()
	if !ho {
		return fmt.Sprintf("no-handoff-%d", r.id)
	}
	p := b.f.proj(0)
	x := p.Kh
	if x == 0 || b.ownerOf(x) != "x" || b.handedBefore(x) {
		x = b.freeKey(true)
	}
	b.mu.Lock()
	b.recipe = append(b.recipe, fmt.Sprintf("handoff-id=%d", x))
	b.mu.Unlock()
	b.logc(cevent{Ev: "env", Op: "xhand", P: x, V: "n1"})
	return b.f.sessID(x)
}

func (b *consulBackend) ownerOf(x int) string {
	b.f.mu.Lock()
	defer b.f.mu.Unlock()
	if x < 1 || x > len(b.f.owner) {
		return ""
	}
	return b.f.owner[x-1]
}

func (b *consulBackend) handedBefore(x int) bool {
	b.mu.Lock()
	defer b.mu.Unlock()
	for _, e := range b.clog {
		if e.Ev == "env" && e.Op == "xhand" && e.P == x {
			return true
		}
	}
	return false
}

func (b *consulBackend) pick(c, want string, variants ...string) string {
	v := variants[b.rnd.Intn(len(variants))]
	b.mu.Lock()
	b.recipe = append(b.recipe, c+">"+want+":"+v)
	b.mu.Unlock()
	return v
}

func (b *consulBackend) arm(q, ans string) {
	b.mu.Lock()
	b.oneShot[q] = ans
	b.mu.Unlock()
}

func (b *consulBackend) armBefore(q string, f func()) {
	b.mu.Lock()
	b.before[q] = f
	b.mu.Unlock()
}

// prepare brings the endpoint into a state in which `want` is the true answer to call c.
func (b *consulBackend) prepare(c, want string) {
	p := b.f.proj(0)
	switch c {
	case "CID":
		if want == "err" {
			b.arm("cid.get", "err")
		} else if conc := b.r.conc(want); conc != p.Cid {
			b.envSetCID(conc)
		}
	case "INFO":
		switch want {
		case "info":
			if p.Kval == "none" || p.Kval == "" {
				b.f.mu.Lock()
				staleOK := b.f.old.exists && len(b.f.old.value) > 0
				b.f.mu.Unlock()
				if staleOK && b.pick(c, want, "competitor", "stale") == "stale" {
					b.arm("kv.get", "stale")
				} else {
					b.freeKey(true)
				}
			}
		case "none":
			if p.Kval != "none" && p.Kval != "" {
				b.envExpire(p.Kh)
			}
		default:
			b.arm("kv.get", "err")
		}
	case "ACQ":
		switch want {
		case "ok":
			b.freeKey(false)
		case "exists":
			if b.pick(c, want, "competitor", "lock-delay") == "competitor" {
				if p.Kh == 0 {
					b.freeKey(true)
				}
			} else {
				if p.Kh == 0 && !p.Delay {
					b.freeKey(true)
				}
				if x := b.f.proj(0).Kh; x != 0 {
					b.envExpire(x) // the key is deleted and the lock-delay starts
				}
			}
		default:
			switch b.pick(c, want, "create-err", "create-lost", "lock-err", "lock-lost", "expired-before-lock") {
			case "create-err":
				b.arm("session.create", "err")
			case "create-lost":
				b.arm("session.create", "lost")
			case "lock-err":
				b.arm("kv.acquire", "err")
			case "lock-lost":
				b.arm("kv.acquire", "lost")
			default:
				b.freeKey(false)
				b.armBefore("kv.acquire", func() {
					b.f.mu.Lock()
					x := b.f.nsess
					b.f.mu.Unlock()
					b.envExpire(x)
				})
			}
		}
	case "ACQX":
		x := b.f.sessNo(b.argID)
		switch want {
		case "ok":
		default:
			switch b.pick(c, want, "expired", "renew-err", "lock-err", "lock-lost") {
			case "expired":
				b.envExpire(x)
			case "renew-err":
				b.arm("session.renew", "err")
			case "lock-err":
				b.arm("kv.acquire", "err")
			default:
				b.arm("kv.acquire", "lost")
			}
		}
	case "SETCID":
		switch want {
		case "ok":
			if p.Cid != "" {
				b.envSetCID("")
			}
			if !consulCAS && b.pick(c, want, "plain", "plain", "race") == "race" {
				// a competing primary initialises the cluster ID between the leaser's read and its write
				b.armBefore("cid.put", func() {
					b.f.envSetCID(idB)
					b.logc(cevent{Ev: "env", Op: "xcid", V: "B"})
				})
			}
		default:
			vs := []string{"read-err", "write-err", "write-lost", "already-set"}
			if consulCAS {
				vs = append(vs, "race")
			}
			switch b.pick(c, want, vs...) {
			case "race":
				b.armBefore("cid.cas", func() {
					b.f.envSetCID(idB)
					b.logc(cevent{Ev: "env", Op: "xcid", V: "B"})
				})
			case "read-err":
				b.arm("cid.get", "err")
			case "write-err":
				b.arm("cid.put", "err")
				b.arm("cid.cas", "err")
			case "write-lost":
				b.arm("cid.put", "lost")
				b.arm("cid.cas", "lost")
			default:
				b.envSetCID(idB)
			}
		}
	case "RENEW":
		switch want {
		case "ok":
		case "expired":
			if b.open != nil {
				b.envExpire(b.f.sessNo(b.open.inner.ID()))
			}
		default:
			b.arm("session.renew", "err")
		}
	}
}

// disarm removes one-shot settings the call did not consume (e.g. cid.cas on a tree that puts).
func (b *consulBackend) disarm() {
	b.mu.Lock()
	b.oneShot = map[string]string{}
	b.before = map[string]func(){}
	b.mu.Unlock()
}

// perform makes the real call for the logged call event e (e.A = the scripted answer) and replaces
// e.A by what the real leaser returned; ground truth goes to e.Srv / "gt" events.
func (b *consulBackend) perform(ctx context.Context, c string, e *event) {
	if c == "STREAM" {
		return // the primary's stream is scripted (litefs.Client), not part of the lease service
	}
	r := b.r
	want := e.A
	if (c == "ACQ" || c == "ACQX") && b.open != nil {
		// the store has left a tenure without closing the lease (handoff): its Lease object is gone
		b.logc(cevent{Ev: "drop", N: "n1"})
		b.open = nil
	}
	b.prepare(c, want)
	b.callNo++
	b.f.setCall("n1", b.callNo)
	b.mu.Lock()
	b.curOp = map[string]string{"CID": "cid", "INFO": "info", "ACQ": "acquire", "ACQX": "acqx", "SETCID": "setcid", "RENEW": "renew"}[c]
	b.mu.Unlock()
	cctx, cancel := context.WithTimeout(context.Background(), 20*time.Second)
	defer cancel()
	op, ret := "", ""
	var argSid int
	var argCID string
	var lease litefs.Lease
	core.Beat("real:consul." + c)
	pan := core.Try(func() {
		switch c {
		case "CID":
			op = "cid"
			b.resStr, b.resErr = b.leaser.ClusterID(cctx)
			if ret = classifyErr(b.resErr); b.resErr == nil {
				ret = "cid:" + r.sym(b.resStr)
				e.A = r.sym(b.resStr)
			} else {
				e.A = "err"
			}
		case "INFO":
			op = "info"
			b.resInfo, b.resErr = b.leaser.PrimaryInfo(cctx)
			switch ret = classifyErr(b.resErr); ret {
			case "ok":
				ret, e.A = "info:"+b.resInfo.Hostname, "info"
			case "none":
				e.A = "none"
			default:
				e.A = "err"
			}
		case "ACQ":
			op = "acquire"
			b.resLease, b.resErr = b.leaser.Acquire(cctx)
			ret = classifyErr(b.resErr)
			e.A = map[string]string{"ok": "ok", "exists": "exists"}[ret]
			if e.A == "" {
				e.A = "err"
			}
			lease = b.resLease
		case "ACQX":
			op = "acqx"
			argSid = b.f.sessNo(b.argID)
			b.resLease, b.resErr = b.leaser.AcquireExisting(cctx, b.argID)
			ret = classifyErr(b.resErr)
			e.A = "err"
			if ret == "ok" {
				e.A = "ok"
			}
			lease = b.resLease
		case "SETCID":
			op = "setcid"
			argCID = b.argID
			b.resErr = b.leaser.SetClusterID(cctx, b.argID)
			ret, e.A = "ok", "ok"
			if b.resErr != nil {
				ret, e.A = "err", "err"
				if strings.Contains(b.resErr.Error(), "already") {
					ret = "already"
				}
			}
		case "RENEW":
			op = "renew"
			if b.open == nil {
				core.Infra("Renew on a lease the backend does not know")
			}
			argSid = b.f.sessNo(b.open.inner.ID())
			b.resErr = b.open.inner.Renew(cctx)
			ret = classifyErr(b.resErr)
			e.A = map[string]string{"ok": "ok", "expired": "expired"}[ret]
			if e.A == "" {
				e.A = "err"
			}
		}
	})
	b.disarm()
	if pan != nil {
		ret, e.A = "panic", "err"
		r.append(event{Ev: "gt", C: "C08.lease-service-call-returns", A: "consul/" + op + "/panic", Detail: fmt.Sprintf("%v\n%s", pan.Value, pan.Stack), S: "none", Sr: "none"})
	}
	core.Beat("harness")
	b.logc(cevent{Ev: "ret", N: "n1", Op: op, Ret: b.symRet(ret)})
	// ground truth
	if c == "RENEW" {
		e.Srv = "none"
		for _, rec := range b.f.snapshotLog() {
			if rec.CallNo == b.callNo && rec.Q == "session.renew" {
				e.Srv = rec.Sent
			}
		}
	}
	fs, n := leaserMonitors(b.f, "n1", b.callNo, op, b.concRet(ret), lease, argSid, argCID)
	b.mu.Lock()
	b.evals += n
	b.mu.Unlock()
	for _, fl := range fs {
		r.append(event{Ev: "gt", C: fl.Monitor, A: fl.Sig, Detail: fl.Detail + " [recipes: " + strings.Join(b.recipe, " ") + "]", S: "none", Sr: "none", At: time.Since(r.start).Milliseconds()})
	}
}

// symRet: the value the call returned as ConsulLease.tla writes it.
func (b *consulBackend) symRet(ret string) string { return ret }

// concRet: leaserMonitors expects cluster ids as ConsulLease symbols that cidConc maps back; the
// store-level stage has more ids (generated ones), so the comparison is made on concrete values here.
func (b *consulBackend) concRet(ret string) string {
	if strings.HasPrefix(ret, "cid:") {
		return "cidraw:" + b.resStr
	}
	return ret
}

// ---------------------------------------------------------------- litefs.Leaser on top of the real consul.Leaser

func (b *consulBackend) ClusterID(ctx context.Context) (string, error) {
	_, park := b.r.next(ctx, "CID", nil)
	if park {
		return "", parkCtx(ctx)
	}
	return b.resStr, b.resErr
}

func (b *consulBackend) SetClusterID(ctx context.Context, id string) error {
	r := b.r
	r.mu.Lock()
	if r.sym(id) == "G" {
		r.genID = id
	}
	r.mu.Unlock()
	b.argID = id
	_, park := r.next(ctx, "SETCID", func(e *event) { e.SvcSet = r.sym(id) })
	if park {
		return parkCtx(ctx)
	}
	return b.resErr
}

func (b *consulBackend) PrimaryInfo(ctx context.Context) (litefs.PrimaryInfo, error) {
	_, park := b.r.next(ctx, "INFO", nil)
	if park {
		return litefs.PrimaryInfo{}, parkCtx(ctx)
	}
	if b.resErr == nil {
		// the store would try to reach the advertised URL through the scripted client anyway
		return litefs.PrimaryInfo{Hostname: b.resInfo.Hostname, AdvertiseURL: "http://other-primary.invalid:20202"}, nil
	}
	return b.resInfo, b.resErr
}

func (b *consulBackend) wrap(inner litefs.Lease) litefs.Lease {
	l := &cLease{sLease: b.r.newLease(inner.ID(), nil), inner: inner, b: b}
	b.open = l
	return l
}

func (b *consulBackend) Acquire(ctx context.Context) (litefs.Lease, error) {
	a, park := b.r.next(ctx, "ACQ", nil)
	if park {
		return nil, parkCtx(ctx)
	}
	if a == "ok" && b.resLease != nil {
		return b.wrap(b.resLease), nil
	}
	return nil, b.resErr
}

func (b *consulBackend) AcquireExisting(ctx context.Context, leaseID string) (litefs.Lease, error) {
	b.argID = leaseID
	a, park := b.r.next(ctx, "ACQX", func(e *event) { e.LeaseID = leaseID })
	if park {
		return nil, parkCtx(ctx)
	}
	if a == "ok" && b.resLease != nil {
		return b.wrap(b.resLease), nil
	}
	return nil, b.resErr
}

// cLease: the real consul Lease, logged like the scripted one.
type cLease struct {
	*sLease
	inner litefs.Lease
	b     *consulBackend
}

func (l *cLease) ID() string {
	l.r.obs("ID", func(e *event) { e.Lease = l.n })
	return l.inner.ID()
}
func (l *cLease) TTL() time.Duration {
	l.r.obs("TTL", func(e *event) { e.Lease = l.n })
	return l.inner.TTL()
}
func (l *cLease) RenewedAt() time.Time {
	l.r.obs("RENEWEDAT", func(e *event) { e.Lease = l.n })
	return l.inner.RenewedAt()
}
func (l *cLease) HandoffCh() <-chan uint64 {
	l.r.obs("HOCH", func(e *event) { e.Lease = l.n })
	return l.inner.HandoffCh()
}

// Handoff: Store.Handoff calls it from the HTTP handler of the request, which the harness makes
// while the loop is inside a leaser call; the real Lease.Handoff blocks until the loop takes the
// node id, so it is left running and the request is acknowledged (one request at a time, like the
// one-slot channel of the scripted lease).
func (l *cLease) Handoff(ctx context.Context, nodeID uint64) error {
	b := l.b
	b.mu.Lock()
	if b.pending {
		b.mu.Unlock()
		return fmt.Errorf("a handoff is already pending")
	}
	b.pending = true
	b.mu.Unlock()
	go func() {
		_ = l.inner.Handoff(context.Background(), nodeID)
		b.mu.Lock()
		b.pending = false
		b.mu.Unlock()
	}()
	return nil
}

func (l *cLease) Renew(ctx context.Context) error {
	r := l.r
	entry := time.Now()
	_, park := r.next(ctx, "RENEW", func(e *event) { e.Lease = l.n; e.T = entry.Sub(l.obtained).Milliseconds() })
	if park {
		<-ctx.Done()
		return nil
	}
	return l.b.resErr
}

func (l *cLease) Close() error {
	b := l.b
	_ = l.sLease.Close() // logs the close event (and compares it with the script)
	switch b.pick("CLOSE", "", "ok", "ok", "release-err", "destroy-err", "destroy-lost") {
	case "release-err":
		b.arm("kv.release", "err")
	case "destroy-err":
		b.arm("session.destroy", "err")
	case "destroy-lost":
		b.arm("session.destroy", "lost")
	}
	b.callNo++
	b.f.setCall("n1", b.callNo)
	b.mu.Lock()
	b.curOp = "close"
	b.mu.Unlock()
	sid := b.f.sessNo(l.inner.ID())
	var err error
	core.Beat("real:consul.close")
	pan := core.Try(func() { err = l.inner.Close() })
	core.Beat("harness")
	b.disarm()
	ret := classifyErr(err)
	if pan != nil {
		ret = "panic"
	}
	b.logc(cevent{Ev: "ret", N: "n1", Op: "close", Ret: ret})
	if b.open == l {
		b.open = nil
	}
	fs, n := leaserMonitors(b.f, "n1", b.callNo, "close", ret, nil, sid, "")
	b.mu.Lock()
	b.evals += n
	b.mu.Unlock()
	for _, fl := range fs {
		l.r.append(event{Ev: "gt", C: fl.Monitor, A: fl.Sig, Detail: fl.Detail, S: "none", Sr: "none", Lease: l.n, At: time.Since(l.r.start).Milliseconds()})
	}
	return err
}

// ---------------------------------------------------------------- the stage

func stripGT(log []event) []event {
	out := make([]event, 0, len(log))
	for _, e := range log {
		if e.Ev != "gt" {
			e.Srv, e.Detail = "", ""
			e.Seq = len(out) + 1
			out = append(out, e)
		}
	}
	return out
}

func consulStoreStage(rep *core.Report, args *core.Args, leaseScripts []*script) map[string]any {
	consulSeed = args.Seed
	t1 := time.Now()
	scripts := pickStoreScripts(leaseScripts, core.Pick(args, 160, 1500), args.Seed)
	if len(scripts) < 50 {
		core.Infra("store-level Consul stage: only %d scripts selected", len(scripts))
	}
	outs := runAll(rep, scripts, core.Pick(args, 40, 64))
	progress("consul store-level: %d scripts executed in %.1fs", len(outs), time.Since(t1).Seconds())
	judgeAll(rep, outs)
	leases, recipes := 0, map[string]int{}
	for _, o := range outs {
		rep.Eval(o.cevals)
		rep.Case(o.sc.key(), nontrivial(o))
		for _, e := range o.log {
			if e.Ev == "call" && (e.C == "ACQ" || e.C == "ACQX") && e.A == "ok" {
				leases++
			}
		}
		for _, e := range o.clog {
			if e.Ev == "req" {
				recipes[e.Q+">"+e.Ans]++
			} else if e.Ev == "env" {
				recipes["env:"+e.Op]++
			}
		}
	}
	// impl -> spec, twice: the call logs against LeaseTrace.tla (as in the existing stages) ...
	prevAcc, prevRej := rep.Extra["traces_accepted_by_LeaseTrace"], rep.Extra["traces_rejected_by_LeaseTrace"]
	v := make([]*outcome, len(outs))
	for i, o := range outs {
		c := *o
		c.log = stripGT(o.log)
		v[i] = &c
	}
	beatWhile("tlc", func() { validateAll(rep, v) })
	accL, rejL := rep.Extra["traces_accepted_by_LeaseTrace"], rep.Extra["traces_rejected_by_LeaseTrace"]
	if prevAcc != nil {
		rep.Extra["traces_accepted_by_LeaseTrace"], rep.Extra["traces_rejected_by_LeaseTrace"] = prevAcc, prevRej
	}
	// ... and the endpoint-level logs against ConsulLeaseTrace.tla
	var accC, rejC int
	beatWhile("tlc", func() { accC, rejC = validateConsulTraces(rep, outs) })
	progress("consul store-level done in %.1fs", time.Since(t1).Seconds())
	return map[string]any{"scripts_run": len(outs), "leases_obtained_through_consul": leases, "requests_and_environment_actions": recipes,
		"accepted_by_LeaseTrace": accL, "rejected_by_LeaseTrace": rejL, "accepted_by_ConsulLeaseTrace": accC, "rejected_by_ConsulLeaseTrace": rejC,
		"wall_s": time.Since(t1).Seconds()}
}

// treeUsesCAS: does the tree under test write the cluster ID with cas (candidate repair applied)?
func treeUsesCAS(outs []*outcome) bool {
	for _, o := range outs {
		for _, e := range o.clog {
			if e.Ev == "req" && e.Q == "cid.cas" {
				return true
			}
		}
	}
	return false
}

func validateConsulTraces(rep *core.Report, outs []*outcome) (accepted, rejected int) {
	cfgB, err := os.ReadFile(filepath.Join(core.SpecDir(), "Trace_ConsulLease.cfg"))
	if err != nil {
		core.Infra("read Trace_ConsulLease.cfg: %v", err)
	}
	cfg := string(cfgB)
	if consulCAS || treeUsesCAS(outs) {
		cfg = strings.Replace(cfg, "UseCAS = FALSE", "UseCAS = TRUE", 1)
	}
	batch := append([]*outcome(nil), outs...)
	for len(batch) > 0 {
		if rejected >= 6 {
			rep.Note("ConsulLeaseTrace validation stopped after %d rejected runs; %d runs not validated", rejected, len(batch))
			break
		}
		dir := core.Scratch("ctrace")
		p := filepath.Join(dir, "trace.ndjson")
		var sb strings.Builder
		for i, o := range batch {
			for _, e := range o.clog {
				e.Run = i
				j, _ := json.Marshal(e)
				sb.Write(j)
				sb.WriteByte('\n')
			}
		}
		if err := os.WriteFile(p, []byte(sb.String()), 0o644); err != nil {
			core.Infra("write trace: %v", err)
		}
		last := -1
		var mu sync.Mutex
		res, err := core.RunTLC(core.TLCOpts{Module: "ConsulLeaseTrace", Cfg: "Trace_ConsulLease_gen.cfg", Workers: 1, DFS: true, Timeout: 10 * time.Minute,
			Env: map[string]string{"TRACE_FILE": p}, ExtraFiles: map[string]string{"Trace_ConsulLease_gen.cfg": cfg},
			OnLine: func(tag string, payload json.RawMessage) {
				var x struct {
					Run int `json:"run"`
				}
				if tag == "RESET" && json.Unmarshal(payload, &x) == nil {
					mu.Lock()
					last = x.Run
					mu.Unlock()
				}
			}})
		os.RemoveAll(dir)
		if err != nil || res.TimedOut {
			core.Infra("tlc ConsulLeaseTrace: %v %s", err, res.Describe())
		}
		rep.AddTLC("Trace_ConsulLease", res)
		if res.Violation == "NotAccepted" {
			accepted += len(batch)
			break
		}
		if res.Violation != "" || res.ExitCode != 0 {
			core.Infra("unexpected TLC result in ConsulLeaseTrace validation: %s\n%s\n%s", res.Describe(), res.ErrorText, res.OutputTail)
		}
		if last < 0 || last >= len(batch) {
			core.Infra("ConsulLeaseTrace rejected a batch without telling where: %s", res.Describe())
		}
		bad := batch[last]
		accepted += last
		rejected++
		var lines []string
		for _, e := range bad.clog {
			j, _ := json.Marshal(e)
			lines = append(lines, string(j))
		}
		dirR := filepath.Join(core.VerifRoot(), "replays", "C08")
		_ = os.MkdirAll(dirR, 0o777)
		tp := filepath.Join(dirR, fmt.Sprintf("consul-rejected-%s-%d-%d.ndjson", rep.Args.Tier, rep.Args.Seed, rejected))
		_ = os.WriteFile(tp, []byte(strings.Join(lines, "\n")+"\n"), 0o644)
		if len(bad.fails) == 0 {
			rep.Nonconf("ConsulLeaseTrace.tla rejects the endpoint-level log of script %s (no monitor failed); trace: %s", bad.sc.key(), tp)
		} else {
			rep.Note("ConsulLeaseTrace.tla rejects the endpoint-level log of script %s on which monitors failed as well; trace: %s", bad.sc.key(), tp)
		}
		batch = batch[last+1:]
	}
	return accepted, rejected
}

// ---------------------------------------------------------------- 6d: the static leaser

// staticStage runs the static leaser for every combination the property quantifies over that the
// existing stage does not run: primary / replica x candidate / non-candidate x stored id unset / set,
// plus a manual demotion of a static primary. Verdicts: the same monitors.
func staticStage(rep *core.Report) map[string]any {
	var scs []*script
	for _, src := range []string{"static-primary", "static-replica"} {
		for _, cand := range []bool{true, false} {
			for _, local := range []string{"", "A"} {
				sc := &script{Cfg: cfgT{Cand: cand, Local: local, TTL: 300}, Source: src + "/matrix"}
				if src == "static-replica" {
					sc.H = []hEntry{{K: "call", C: "STREAM", A: "A/eof", S: "none", Sr: "none"}, {K: "call", C: "STREAM", A: "A/eof", S: "none", Sr: "none"}}
				}
				scs = append(scs, sc)
			}
		}
	}
	scs = append(scs, &script{Cfg: cfgT{Cand: true, Local: "A", TTL: 300}, Source: "static-primary/demote"})
	outs := runAll(rep, scs, 12)
	judgeAll(rep, outs)
	sum := map[string]any{}
	for _, o := range outs {
		acq, prim, closes := 0, false, 0
		for _, e := range o.log {
			if e.Ev == "call" && e.C == "ACQ" {
				acq++
			}
			if e.Ev == "close" {
				closes++
			}
			prim = prim || e.Prim
		}
		k := fmt.Sprintf("%s cand=%v local=%q", o.sc.Source, o.sc.Cfg.Cand, o.sc.Cfg.Local)
		sum[k] = map[string]any{"acquire_calls": acq, "was_primary": prim, "closes": closes, "monitor_failures": len(o.fails)}
		rep.Case("static:"+k, true)
		// what the property demands of these runs beyond the monitors' clauses being true
		st := strings.HasPrefix(o.sc.Source, "static-primary")
		if st && o.sc.Cfg.Cand && !prim {
			rep.Nonconf("static primary leaser on a candidate node: the node never became primary (%s)", k)
		}
	}
	return sum
}
