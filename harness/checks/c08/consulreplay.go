package main

// spec -> impl for the Consul mapping: TLC explores ConsulLease.tla exhaustively and prints one
// script per explored edge (shortest path + the edge). A script is a sequence of atomic steps:
// one HTTP request of a leaser-level call with the answer class it gets, or an action of the
// environment (session expiry, lock-delay elapsing, a competitor taking the key / setting the
// cluster ID / handing its lease over). The real consul.Leaser of every node runs against the
// fake endpoint; each request is held at the gate until the script reaches it, compared with the
// request the model predicts, answered as scripted, and the value the call returns is compared
// with the model's. After the last step the endpoint's state is compared with Proj(s').
// Differences are nonconformance (R3); verdicts come from the monitors in leaserMonitors(),
// which look only at what the real leaser returned and at what the endpoint really answered.

import (
	"context"
	"encoding/json"
	"errors"
	"fmt"
	"sort"
	"strings"
	"sync"
	"time"

	"github.com/superfly/litefs"
	"github.com/superfly/litefs/consul"
	"github.com/superfly/litefs/verifharness/core"
)

type cstep struct {
	N   string `json:"n"`
	Op  string `json:"op"`
	Q   string `json:"q"`
	P   int    `json:"p"`
	V   string `json:"v"`
	Ans string `json:"ans"`
	R   string `json:"r"`
	Ret string `json:"ret"`
}

type cproj struct {
	Live   []bool         `json:"live"`
	Kval   string         `json:"kval"`
	Kh     int            `json:"kh"`
	Delay  bool           `json:"delay"`
	Cid    string         `json:"cid"`
	Lease  map[string]int `json:"lease"`
	Handed map[string]int `json:"handed"`
}

type cscript struct {
	H      []cstep `json:"h"`
	St     cproj   `json:"st"`
	Source string  `json:"source"`
	Prefix bool    `json:"prefix"` // the leasers are opened with a key prefix (catalog registration)
}

func (s *cscript) key() string {
	var sb strings.Builder
	sb.WriteString(s.Source)
	for _, e := range s.H {
		if e.N == "env" {
			fmt.Fprintf(&sb, "|env:%s%d%s", e.Op, e.P, e.V)
		} else {
			fmt.Fprintf(&sb, "|%s:%s/%s>%s", e.N, e.Op, e.Q, e.Ans)
		}
	}
	return sb.String()
}

func (s *cscript) compact() []string {
	var out []string
	for _, e := range s.H {
		switch {
		case e.N == "env":
			out = append(out, fmt.Sprintf("env %s %d %s", e.Op, e.P, e.V))
		case e.Op == "handoff":
			out = append(out, fmt.Sprintf("%s Handoff(lease %d -> %s)", e.N, e.P, e.V))
		default:
			x := fmt.Sprintf("%s %s: %s(%d) answered %s -> %s", e.N, e.Op, e.Q, e.P, e.Ans, e.R)
			if e.Ret != "" {
				x += " returns " + e.Ret
			}
			out = append(out, x)
		}
	}
	return out
}

// cid symbols of ConsulLease.tla <-> concrete ids
var cidConc = map[string]string{"": "", "A": idA, "B": idB, "C": "LFSC00000000000000CC"}

func cidSym(v string) string {
	for k, c := range cidConc {
		if c == v {
			return k
		}
	}
	return "?" + v
}

var nodeIDs = map[string]uint64{"n1": 0x1111, "n2": 0x2222}

// callRes is what a leaser-level call returned.
type callRes struct {
	op    string
	ret   string // ok exists expired err none info:<host> cid:<sym> already
	lease litefs.Lease
	err   error
	pan   *core.Panic
}

type cnode struct {
	name     string
	leaser   *consul.Leaser
	lease    litefs.Lease
	leaseSid int
	handed   string
	inflight chan callRes
	op       string
	callNo   int
	argSid   int    // session the call in flight concerns (renew / close / acqx)
	argCID   string // setcid: the id passed
}

// cfail is a monitor failure of the leaser-level stage.
type cfail struct {
	Monitor, Sig, Detail string
}

type coutcome struct {
	sc    *cscript
	mism  []string
	fails []cfail
	evals int
	log   []reqRec
	calls int
}

func classifyErr(err error) string {
	switch {
	case err == nil:
		return "ok"
	case errors.Is(err, litefs.ErrPrimaryExists):
		return "exists"
	case errors.Is(err, litefs.ErrLeaseExpired):
		return "expired"
	case errors.Is(err, litefs.ErrNoPrimary):
		return "none"
	}
	return "err"
}

type creplayer struct {
	f       *fakeConsul
	maxSess int
	timeout time.Duration
}

func newLeaser(f *fakeConsul, node string, prefix bool, ttl time.Duration) (*consul.Leaser, error) {
	u := f.url(node)
	if prefix {
		u += "/verif-cluster"
	}
	l := consul.NewLeaser(u, fakeKey, node, "http://"+node+".invalid:20202")
	l.TTL = ttl
	l.LockDelay = time.Millisecond
	return l, l.Open()
}

// start launches the leaser-level call op of node n.
func (rp *creplayer) start(n *cnode, op string) {
	ch := make(chan callRes, 1)
	n.inflight, n.op = ch, op
	n.callNo++
	rp.f.setCall(n.name, n.callNo)
	lease, leaser, handed := n.lease, n.leaser, n.handed
	n.argSid, n.argCID = n.leaseSid, ""
	if op == "acqx" {
		n.argSid = rp.f.sessNo(handed)
		n.handed = ""
	}
	if op == "setcid" {
		n.argCID = cidConc[map[string]string{"n1": "A", "n2": "C"}[n.name]]
	}
	cid := n.argCID
	go func() {
		res := callRes{op: op}
		ctx, cancel := context.WithTimeout(context.Background(), 20*time.Second)
		defer cancel()
		core.Beat("real:consul." + op)
		res.pan = core.Try(func() {
			switch op {
			case "acquire":
				res.lease, res.err = leaser.Acquire(ctx)
				res.ret = classifyErr(res.err)
			case "acqx":
				res.lease, res.err = leaser.AcquireExisting(ctx, handed)
				res.ret = classifyErr(res.err)
			case "renew":
				res.err = lease.Renew(ctx)
				res.ret = classifyErr(res.err)
			case "close":
				res.err = lease.Close()
				res.ret = classifyErr(res.err)
			case "info":
				var info litefs.PrimaryInfo
				info, res.err = leaser.PrimaryInfo(ctx)
				if res.ret = classifyErr(res.err); res.err == nil {
					res.ret = "info:" + info.Hostname
				}
			case "cid":
				var v string
				v, res.err = leaser.ClusterID(ctx)
				if res.ret = classifyErr(res.err); res.err == nil {
					res.ret = "cid:" + cidSym(v)
				}
			case "setcid":
				res.err = leaser.SetClusterID(ctx, cid)
				if res.ret = classifyErr(res.err); res.err != nil && strings.Contains(res.err.Error(), "already") {
					res.ret = "already"
				}
			}
		})
		if res.pan != nil {
			res.ret = "panic"
		}
		ch <- res
	}()
}

// run replays one script.
func (rp *creplayer) run(sc *cscript, id int) *coutcome {
	o := &coutcome{sc: sc}
	f := rp.f
	f.reset(id)
	gates := map[string]chan *arrival{}
	for name := range f.doors {
		gates[name] = make(chan *arrival, 8)
	}
	f.mu.Lock()
	f.gate = gates
	f.mu.Unlock()
	nodes := map[string]*cnode{}
	for name := range f.doors {
		l, err := newLeaser(f, name, sc.Prefix, 10*time.Second)
		if err != nil {
			core.Infra("open consul leaser against the fake endpoint: %v", err)
		}
		nodes[name] = &cnode{name: name, leaser: l}
	}
	diverged := false
	mism := func(format string, a ...any) {
		o.mism = append(o.mism, fmt.Sprintf(format, a...))
		diverged = true
	}

	// finish waits for the call in flight on n (answering further requests the model does not
	// predict from the server's own state) and evaluates the monitors on it.
	finish := func(n *cnode, want string, step int) {
		for {
			select {
			case res := <-n.inflight:
				n.inflight = nil
				o.calls++
				if want != "" && res.ret != want {
					mism("step %d: %s.%s: model predicts it returns %q, the leaser returned %q (%v)", step, n.name, res.op, want, res.ret, res.err)
				}
				rp.judge(o, n, res)
				switch res.op {
				case "acquire", "acqx":
					if res.lease != nil {
						n.lease, n.leaseSid = res.lease, f.sessNo(res.lease.ID())
					}
				case "close":
					n.lease, n.leaseSid = nil, 0
				}
				core.Beat("harness")
				return
			case arr := <-gates[n.name]:
				if want != "" {
					mism("step %d: %s.%s makes a further request %s(%d) where the model predicts it returns", step, n.name, n.op, arr.rec.Q, arr.rec.Sid)
				}
				arr.decide <- map[bool]string{true: "err", false: "ok"}[step < 0]
				<-arr.done
			case <-time.After(rp.timeout):
				o.fails = append(o.fails, cfail{"C08.lease-service-call-returns", "consul/" + n.op + "/hangs", fmt.Sprintf("%s.%s has not returned %s after its last request was answered", n.name, n.op, rp.timeout)})
				n.inflight = nil
				diverged = true
				return
			}
		}
	}

steps:
	for i, st := range sc.H {
		if diverged {
			break
		}
		switch {
		case st.N == "env":
			switch st.Op {
			case "expire":
				f.envExpire(st.P)
			case "delay":
				f.envDelayElapse()
			case "xacq":
				if x := f.envXAcq(); x != st.P {
					mism("step %d: competitor's session is %d, model predicts %d", i+1, x, st.P)
				}
			case "xcid":
				f.envSetCID(cidConc[st.V])
			case "xhand":
				nodes[st.V].handed = f.sessID(st.P)
			default:
				core.Infra("unknown environment action %q", st.Op)
			}
		case st.Op == "handoff":
			n, m := nodes[st.N], nodes[st.V]
			if n.lease == nil {
				mism("step %d: handoff by %s which holds no lease object", i+1, n.name)
				break steps
			}
			// the store's side of a handoff: Lease.Handoff(ctx, nodeID) -> HandoffCh(), then Lease.ID() goes to that node
			errCh := make(chan error, 1)
			lease := n.lease
			go func() { errCh <- lease.Handoff(context.Background(), nodeIDs[m.name]) }()
			o.evals++
			select {
			case got := <-lease.HandoffCh():
				if got != nodeIDs[m.name] {
					o.fails = append(o.fails, cfail{"C08.handoff-only-to-requested", "consul/handoff/node-id-differs", fmt.Sprintf("Handoff(%#x) delivered %#x on HandoffCh()", nodeIDs[m.name], got)})
				}
				if err := <-errCh; err != nil {
					mism("step %d: Handoff returned %v although the id was taken", i+1, err)
				}
			case <-time.After(rp.timeout):
				o.fails = append(o.fails, cfail{"C08.handoff-only-to-requested", "consul/handoff/not-delivered", "Handoff() did not deliver the node id on HandoffCh()"})
			}
			if got := f.sessNo(lease.ID()); got != st.P {
				mism("step %d: the lease handed over is %d, model predicts %d", i+1, got, st.P)
			}
			m.handed = lease.ID()
			n.lease, n.leaseSid = nil, 0
		default:
			n := nodes[st.N]
			if n == nil {
				core.Infra("script names unknown node %q", st.N)
			}
			if n.inflight == nil {
				if (st.Op == "renew" || st.Op == "close") && n.lease == nil {
					mism("step %d: %s on %s which holds no lease object", i+1, st.Op, n.name)
					break steps
				}
				if st.Op == "acqx" && n.handed == "" {
					mism("step %d: acqx on %s which was handed no lease", i+1, n.name)
					break steps
				}
				rp.start(n, st.Op)
			} else if n.op != st.Op {
				mism("step %d: model continues %s, the call in flight is %s", i+1, st.Op, n.op)
				break steps
			}
			// the request the model predicts must arrive
			select {
			case arr := <-gates[n.name]:
				rec := arr.rec
				if rec.Node != st.N || rec.Q != st.Q || (st.Q != "session.create" && rec.Sid != st.P) ||
					(st.Q == "kv.acquire" && rec.Val != st.V) || ((st.Q == "cid.put" || st.Q == "cid.cas") && cidSym(rec.Val) != st.V) {
					mism("step %d: model predicts %s %s(%d,%q), the leaser sent %s %s(%d,%q) [%s]", i+1, st.N, st.Q, st.P, st.V, rec.Node, rec.Q, rec.Sid, rec.Val, rec.Raw)
					arr.decide <- "ok"
					<-arr.done
					break
				}
				arr.decide <- st.Ans
				<-arr.done
				sent := rec.Sent
				if rec.Q == "cid.get" && strings.HasPrefix(sent, "val:") {
					sent = "val:" + cidSym(strings.TrimPrefix(sent, "val:"))
				}
				if sent != st.R && !diverged {
					// the endpoint and the model disagree about Consul itself: neither is the code under test
					core.Infra("fake Consul endpoint and ConsulLease.tla disagree: script %v step %d: request %s(%d) answered %q, model says %q", sc.compact(), i+1, rec.Q, rec.Sid, sent, st.R)
				}
				if st.Q == "session.create" && rec.Sid != st.P {
					mism("step %d: session number %d, model predicts %d", i+1, rec.Sid, st.P)
				}
			case res := <-n.inflight:
				n.inflight <- res // hand it to finish()
				mism("step %d: %s.%s returned %q before making the request %s the model predicts", i+1, n.name, n.op, res.ret, st.Q)
			case <-time.After(rp.timeout):
				mism("step %d: %s.%s: the request %s the model predicts did not arrive within %s", i+1, n.name, n.op, st.Q, rp.timeout)
			}
			if st.Ret != "" && !diverged {
				finish(n, st.Ret, i+1)
			}
		}
	}
	if !diverged {
		got := f.proj(rp.maxSess)
		want := sc.St
		same := got.Kval == want.Kval && got.Kh == want.Kh && got.Delay == want.Delay && cidSym(got.Cid) == want.Cid && len(got.Live) == len(want.Live)
		for i := range want.Live {
			same = same && i < len(got.Live) && got.Live[i] == want.Live[i]
		}
		for name, n := range nodes {
			if n.inflight == nil {
				same = same && n.leaseSid == want.Lease[name] && f.sessNo(n.handed) == want.Handed[name]
			}
		}
		if !same {
			b, _ := json.Marshal(got)
			w, _ := json.Marshal(want)
			mism("final state: endpoint %s, model %s", b, w)
		}
	}
	// let calls that are still in flight end (every further request fails)
	for _, n := range nodes {
		if n.inflight != nil {
			finish(n, "", -1)
		}
	}
	f.mu.Lock()
	f.gate = nil
	f.mu.Unlock()
	o.log = f.snapshotLog()
	return o
}

// judge evaluates the leaser-level monitors on one completed call: what the leaser told its
// caller against what the endpoint really answered during this call (ground truth).
func (rp *creplayer) judge(o *coutcome, n *cnode, res callRes) {
	fs, evals := leaserMonitors(rp.f, n.name, n.callNo, res.op, res.ret, res.lease, n.argSid, n.argCID)
	o.evals += evals
	o.fails = append(o.fails, fs...)
	if res.pan != nil {
		o.fails = append(o.fails, cfail{"C08.lease-service-call-returns", "consul/" + res.op + "/panic", fmt.Sprintf("%v\n%s", res.pan.Value, res.pan.Stack)})
	}
}

// leaserMonitors: the clauses of C08 that the Consul mapping is responsible for, on observations.
//   - "acts as primary only between acquiring a lease and losing it": a Lease is returned only if
//     the endpoint answered true to a lock request for that lease's session in this call
//   - "when a renewal reports the lease gone ... stops": Renew returns nil only if the endpoint
//     renewed that session (a 404 must come out as ErrLeaseExpired, a failure as an error)
//   - "destroys the lease": Close() asks the endpoint to destroy the session; when Close reports
//     success the session is gone and does not hold the key
//   - "cluster ID ...": ClusterID returns what the endpoint served; SetClusterID reports success only
//     if the endpoint now stores the id AND no different id was replaced by it
func leaserMonitors(f *fakeConsul, node string, callNo int, op, ret string, lease litefs.Lease, argSid int, argCID string) (fails []cfail, evals int) {
	var recs []reqRec
	for _, r := range f.snapshotLog() {
		if r.Node == node && r.CallNo == callNo {
			recs = append(recs, r)
		}
	}
	find := func(q string, sid int) (last *reqRec) {
		for i := range recs {
			if recs[i].Q == q && (sid < 0 || recs[i].Sid == sid) {
				last = &recs[i]
			}
		}
		return last
	}
	said := func(r *reqRec) string {
		if r == nil {
			return "nothing"
		}
		return r.Sent
	}
	add := func(mon, sig, detail string) { fails = append(fails, cfail{mon, sig, detail}) }
	p := f.proj(0)
	// whatever the call: a leaser removes the lease key only while its own session holds it (a node destroys
	// its own lease, never somebody else's)
	own := map[int]bool{argSid: true}
	for i := range recs {
		if recs[i].Q == "session.create" {
			own[recs[i].Sid] = true
		}
	}
	for i := range recs {
		if recs[i].Q == "kv.delete" {
			evals++
			if h := recs[i].Sid; h != 0 && !own[h] {
				add("C08.lease-closed-unless-handed-off", "consul/"+op+"/deletes-key-held-by-another-session",
					fmt.Sprintf("%s removed the lease key while session %d (not its own) held the lock", op, h))
			}
		}
	}
	switch op {
	case "acquire", "acqx":
		evals++
		if ret == "ok" && lease != nil {
			sid := f.sessNo(lease.ID())
			lock := find("kv.acquire", sid)
			if lock == nil || lock.Sent != "true" {
				add("C08.primary-only-in-tenure", "consul/"+op+"/lease-without-lock/server-said="+said(find("kv.acquire", -1)),
					fmt.Sprintf("%s returned a lease (session %d) although the endpoint did not grant the lock to that session in this call", op, sid))
			} else if p.Kh != sid {
				add("C08.primary-only-in-tenure", "consul/"+op+"/lease-without-lock/holder-differs", fmt.Sprintf("%s returned a lease for session %d, the key is held by %d", op, sid, p.Kh))
			}
			if op == "acqx" {
				evals++
				if sid != argSid {
					add("C08.handoff-only-to-requested", "consul/acqx/other-lease-id", fmt.Sprintf("AcquireExisting(%d) returned a lease with id of session %d", argSid, sid))
				}
			}
		}
	case "renew":
		evals++
		if ret == "ok" {
			rn := find("session.renew", argSid)
			if rn == nil || rn.Sent != "200" {
				add("C08.stops-after-lease-lost", "consul/renew/reports-renewed/server-said="+said(rn),
					fmt.Sprintf("Lease.Renew returned nil although the endpoint answered the renewal of session %d with %s", argSid, said(rn)))
			}
		}
	case "close":
		evals++
		ds := find("session.destroy", argSid)
		if ds == nil {
			add("C08.lease-closed-unless-handed-off", "consul/close/no-destroy-request", fmt.Sprintf("Lease.Close returned (%s) without asking the endpoint to destroy session %d", ret, argSid))
		} else if ret == "ok" {
			if argSid < len(p.Live)+1 && argSid > 0 && p.Live[argSid-1] {
				add("C08.lease-closed-unless-handed-off", "consul/close/ok-but-session-alive", fmt.Sprintf("Lease.Close reported success, session %d still exists", argSid))
			}
			if p.Kh == argSid {
				add("C08.lease-closed-unless-handed-off", "consul/close/ok-but-key-held", fmt.Sprintf("Lease.Close reported success, session %d still holds the key", argSid))
			}
		}
	case "cid":
		evals++
		if strings.HasPrefix(ret, "cid:") || strings.HasPrefix(ret, "cidraw:") {
			g := find("cid.get", -1)
			conc := strings.TrimPrefix(ret, "cidraw:")
			if strings.HasPrefix(ret, "cid:") {
				conc = cidConc[strings.TrimPrefix(ret, "cid:")]
			}
			if g == nil || "val:"+conc != g.Sent {
				add("C08.own-cluster-only", "consul/clusterid/other-than-served", fmt.Sprintf("ClusterID returned %s, the endpoint served %s", ret, said(g)))
			}
		}
	case "setcid":
		evals++
		if ret == "ok" {
			put := find("cid.put", -1)
			if put == nil {
				put = find("cid.cas", -1)
			}
			get := find("cid.get", -1)
			switch {
			case p.Cid != argCID:
				add("C08.own-cluster-only", "consul/setclusterid/ok-but-not-stored", fmt.Sprintf("SetClusterID(%s) reported success, the endpoint stores %q", cidSym(argCID), p.Cid))
			case put != nil && put.Prev != "" && put.Prev != argCID:
				when := "no-check"
				if get != nil && get.Seq < put.Seq {
					when = "set-after-check"
					if get.Sent != "val:" {
						when = "check-ignored"
					}
				}
				add("C08.own-cluster-only", "consul/setclusterid/replaced-different-id/"+when,
					fmt.Sprintf("SetClusterID(%s) reported success and replaced the cluster ID %q the lease service already had (check answered %s)", cidSym(argCID), put.Prev, said(get)))
			}
		}
	}
	return fails, evals
}

// collectConsul runs TLC on one emitting configuration of ConsulLease.tla.
func collectConsul(rep *core.Report, name, cfg string, prefix bool) ([]*cscript, *core.TLCResult) {
	var mu sync.Mutex
	var out []*cscript
	cfgName, extra := consulSpecCfg(cfg)
	res, err := core.RunTLC(core.TLCOpts{Module: "ConsulLease", Cfg: cfgName, ExtraFiles: extra, Workers: 1, Timeout: 10 * time.Minute, Coverage: true,
		OnLine: func(tag string, payload json.RawMessage) {
			if tag != "TRACE" {
				return
			}
			sc := &cscript{Source: name, Prefix: prefix}
			if err := json.Unmarshal(payload, sc); err != nil {
				core.Infra("bad TRACE line of ConsulLease.tla: %v: %.300s", err, payload)
			}
			mu.Lock()
			out = append(out, sc)
			mu.Unlock()
		}})
	if err != nil {
		core.Infra("tlc %s: %v", cfg, err)
	}
	if !res.OK() {
		core.Infra("model checking of ConsulLease.tla (%s) failed (a model problem, not a verdict about the code): %s\n%s\n%s", cfg, res.Describe(), res.ErrorText, res.OutputTail)
	}
	rep.AddTLC("ConsulLease/"+name, res)
	return out, res
}

// replayConsul replays the scripts on par workers (one fake endpoint each).
func replayConsul(scripts []*cscript, nodes []string, maxSess, par int) []*coutcome {
	outs := make([]*coutcome, len(scripts))
	var wg sync.WaitGroup
	next := make(chan int, len(scripts))
	for i := range scripts {
		next <- i
	}
	close(next)
	for w := 0; w < par; w++ {
		wg.Add(1)
		go func(w int) {
			defer wg.Done()
			f := newFakeConsul(nodes...)
			defer f.close()
			rp := &creplayer{f: f, maxSess: maxSess, timeout: 10 * time.Second}
			for i := range next {
				outs[i] = rp.run(scripts[i], w*1000000+i+1)
				core.Beat("real:consul-replay")
			}
		}(w)
	}
	wg.Wait()
	core.Beat("harness")
	return outs
}

// judgeConsul turns the monitor failures of the leaser-level stage into verdicts (one per
// signature, with the shortest script) and the differences into nonconformance lines.
func judgeConsul(rep *core.Report, outs []*coutcome) (nonconf int) {
	type group struct {
		f cfail
		o *coutcome
		n int
	}
	groups := map[string]*group{}
	for _, o := range outs {
		rep.Eval(o.evals)
		for _, fl := range o.fails {
			k := fl.Monitor + "|" + fl.Sig
			g := groups[k]
			if g == nil {
				g = &group{f: fl, o: o}
				groups[k] = g
			}
			g.n++
			if len(o.sc.H) < len(g.o.sc.H) {
				g.f, g.o = fl, o
			}
		}
	}
	var keys []string
	for k := range groups {
		keys = append(keys, k)
	}
	sort.Strings(keys)
	for _, k := range keys {
		g := groups[k]
		rep.Violate(g.f.Monitor, g.f.Sig, map[string]any{"detail": g.f.Detail, "script": g.o.sc.compact(), "source": g.o.sc.Source, "requests_received": g.o.log, "scripts_with_this_failure": g.n},
			map[string]any{"consul_script": g.o.sc})
	}
	shown := 0
	for _, o := range outs {
		if len(o.mism) > 0 {
			nonconf++
			if len(o.fails) == 0 && shown < 20 {
				shown++
				rep.Nonconf("ConsulLease.tla vs consul.Leaser, script %v: %v", o.sc.compact(), o.mism)
			}
		}
	}
	return nonconf
}
