package main

// Stage 6: the Consul mapping (consul.Leaser against a fake Consul HTTP endpoint).
//   6a  ConsulLease.tla model-checked exhaustively (coverage on), one script per explored edge,
//       every script replayed on the real consul.Leaser (consulreplay.go)
//   6b  model-level evidence: the cluster-ID invariant on the code as written / with cas, the big
//       two-node configuration, relevance configurations (thorough)
//   6c  a real Store with the real consul.Leaser against the fake endpoint (consulstore.go):
//       a subset of Lease.tla's scripts, judged by the monitors of the existing stages plus the
//       endpoint's ground truth, validated by LeaseTrace.tla and ConsulLeaseTrace.tla
//   6d  the static leaser for candidate and non-candidate nodes

import (
	"fmt"
	"math/rand"
	"sort"
	"strings"
	"time"

	"github.com/superfly/litefs/verifharness/core"
)

type consulCfg struct {
	name, cfg string
	nodes     []string
	maxSess   int
	prefix    bool
}

func consulStage(rep *core.Report, args *core.Args, leaseScripts []*script) {
	t0c := time.Now()
	quick := args.Quick()
	consulCAS = probeCAS()
	rep.Extra["tree_sets_cluster_id_with_cas"] = consulCAS
	cfgs := []consulCfg{
		{"q1", "MC_ConsulLease_q1.cfg", []string{"n1"}, 2, false},
		{"q2", "MC_ConsulLease_q2.cfg", []string{"n1", "n2"}, 2, true},
	}
	if !quick {
		cfgs = []consulCfg{
			{"t1", "MC_ConsulLease_t1.cfg", []string{"n1"}, 3, false},
			{"t2", "MC_ConsulLease_t2.cfg", []string{"n1", "n2"}, 2, true},
			{"q2", "MC_ConsulLease_q2.cfg", []string{"n1", "n2"}, 2, false},
		}
	}

	// ---- 6b (thorough, in the background): the large configuration, invariants only ----
	fullDone := make(chan *core.TLCResult, 1)
	if !quick {
		go func() {
			res, err := core.RunTLC(core.TLCOpts{Module: "ConsulLease", Cfg: "MC_ConsulLease_full.cfg", Workers: 6, Timeout: 25 * time.Minute})
			if err != nil {
				core.Infra("tlc MC_ConsulLease_full.cfg: %v", err)
			}
			fullDone <- res
		}()
	}

	// ---- 6a: exhaustive model checking, script emission, replay on the real leaser ----
	summary := map[string]any{}
	covered := map[string]bool{}
	zero := map[string]int{}
	totalScripts, totalCalls, totalNonconf := 0, 0, 0
	var sample *coutcome
	type collected struct {
		scripts []*cscript
		res     *core.TLCResult
	}
	// TLC runs of all emitting configurations start at once; the replays follow in order
	colls := make([]chan collected, len(cfgs))
	for i, c := range cfgs {
		colls[i] = make(chan collected, 1)
		go func(i int, c consulCfg) {
			sc, res := collectConsul(rep, c.name, c.cfg, c.prefix)
			colls[i] <- collected{sc, res}
		}(i, c)
	}
	for i, c := range cfgs {
		var scripts []*cscript
		var zc []string
		beatWhile("tlc", func() { x := <-colls[i]; scripts, zc = x.scripts, x.res.ZeroCov })
		if len(scripts) < 1000 {
			core.Infra("expected >= 1000 scripts from %s, got %d", c.cfg, len(scripts))
		}
		// vacuity: which actions does this configuration never take
		for _, a := range zc {
			zero[a]++
		}
		for _, a := range consulActions {
			isZero := false
			for _, z := range zc {
				isZero = isZero || z == a
			}
			if !isZero {
				covered[a] = true
			}
		}
		rnd := rand.New(rand.NewSource(args.Seed))
		rnd.Shuffle(len(scripts), func(i, j int) { scripts[i], scripts[j] = scripts[j], scripts[i] })
		t1 := time.Now()
		outs := replayConsul(scripts, c.nodes, c.maxSess, core.Pick(args, 8, 12))
		nc := judgeConsul(rep, outs)
		calls := 0
		for _, o := range outs {
			calls += o.calls
			rep.TracesValidated++
			rep.Case("consul:"+o.sc.key(), o.calls > 0)
			if len(o.fails) == 0 && len(o.mism) == 0 && (sample == nil || len(o.sc.H) > len(sample.sc.H)) && c.name != "q1" && c.name != "t1" {
				sample = o
			}
		}
		totalScripts += len(outs)
		totalCalls += calls
		totalNonconf += nc
		summary[c.name] = map[string]any{"cfg": c.cfg, "scripts_replayed": len(outs), "leaser_calls": calls, "nonconforming_scripts": nc, "replay_wall_s": time.Since(t1).Seconds()}
		progress("consul %s: %d scripts replayed in %.1fs, nonconf=%d", c.name, len(outs), time.Since(t1).Seconds(), nc)
	}
	var never []string
	for _, a := range consulActions {
		if !covered[a] {
			never = append(never, a)
		}
	}
	if len(never) > 0 {
		core.Infra("ConsulLease.tla: actions never taken in any emitting configuration of this tier (vacuous): %v", never)
	}
	if sample != nil {
		rep.Sample(map[string]any{"consul_script": sample.sc.compact(), "requests_received": len(sample.log), "source": sample.sc.Source})
	}

	// ---- 6b: model-level evidence ----
	beatWhile("tlc", func() {
		consulRelevance(rep, "MC_ConsulLease_asis_cid.cfg", "ClusterIDSetOnce")
		casCfg := core.Pick(args, "MC_ConsulLease_cas_q.cfg", "MC_ConsulLease_cas.cfg")
		res, err := core.RunTLC(core.TLCOpts{Module: "ConsulLease", Cfg: casCfg, Workers: 4, Timeout: 10 * time.Minute})
		if err != nil {
			core.Infra("tlc %s: %v", casCfg, err)
		}
		if !res.OK() {
			core.Infra("ConsulLease.tla with the candidate repair (cas) does not satisfy all invariants: %s\n%s", res.Describe(), res.ErrorText)
		}
		rep.AddTLC("ConsulLease/cas", res)
		if !quick {
			for _, m := range []struct{ cfg, inv string }{
				{"MC_ConsulLease_mut_renew404.cfg", "ExpiredIsReported"},
				{"MC_ConsulLease_mut_close.cfg", "CloseDestroys"},
				{"MC_ConsulLease_mut_acqfalse.cfg", "LeaseOnlyWithKey"},
				{"MC_ConsulLease_mut_acqxfalse.cfg", "LeaseOnlyWithKey"},
			} {
				consulRelevance(rep, m.cfg, m.inv)
			}
		}
	})

	// ---- 6c: real Store + real consul.Leaser + fake endpoint ----
	storeSummary := consulStoreStage(rep, args, leaseScripts)

	// ---- 6d: the static leaser, candidate x role x stored id ----
	staticSummary := staticStage(rep)

	if !quick {
		beatWhile("tlc", func() {
			res := <-fullDone
			if !res.OK() {
				core.Infra("model checking of ConsulLease.tla (MC_ConsulLease_full.cfg) failed: %s\n%s\n%s", res.Describe(), res.ErrorText, res.OutputTail)
			}
			rep.AddTLC("ConsulLease/full", res)
		})
	}
	rep.Extra["consul"] = map[string]any{
		"leaser_level":            summary,
		"scripts_replayed":        totalScripts,
		"leaser_calls_made":       totalCalls,
		"nonconforming_scripts":   totalNonconf,
		"actions_zero_coverage":   zero,
		"store_level":             storeSummary,
		"static_leaser":           staticSummary,
		"stage_wall_s":            time.Since(t0c).Seconds(),
		"cluster_id_set_once":     "violated on the model of SetClusterID as written (read, then unconditional put); holds with cas=0 (MC_ConsulLease_cas.cfg)",
		"endpoint_requests_served": "session create/renew/destroy, kv get, kv put with acquire/release/cas, catalog register",
	}
	progress("consul stage done in %.1fs", time.Since(t0c).Seconds())
}

// the actions of ConsulLease.tla (coverage must be non-zero for each in some configuration)
var consulActions = []string{"AcqCreate", "AcqKV", "FailRel", "FailDes", "AcqXRenew", "AcqXKV", "Renew", "CloseRel", "CloseDes",
	"Info", "CID", "SetGet", "SetPutV", "Handoff", "Expire", "DelayElapse", "XAcq", "XCid", "XHand"}

func consulRelevance(rep *core.Report, cfg, expect string) {
	res, err := core.RunTLC(core.TLCOpts{Module: "ConsulLease", Cfg: cfg, Workers: 2, Timeout: 5 * time.Minute})
	if err != nil {
		core.Infra("tlc %s: %v", cfg, err)
	}
	if res.TimedOut || (res.Violation == "" && res.ExitCode != 0) {
		core.Infra("relevance configuration %s did not run: %s\n%s", cfg, res.Describe(), res.OutputTail)
	}
	l, _ := rep.Extra["relevance"].([]any)
	rep.Extra["relevance"] = append(l, map[string]any{"cfg": cfg, "expected_violation": expect, "tlc_found": res.Violation, "ok": res.Violation == expect})
	if res.Violation != expect {
		core.Infra("relevance configuration %s: expected TLC to find %s violated, got %q (fix the model)", cfg, expect, res.Violation)
	}
}

// pickStoreScripts selects the Lease.tla scripts that the store-level Consul stage runs: a seeded
// greedy cover of (call, answer, request) triples and of consecutive call pairs, preferring
// scripts in which the node obtains a lease, up to n scripts.
func pickStoreScripts(all []*script, n int, seed int64) []*script {
	var cand []*script
	for _, s := range all {
		if strings.HasPrefix(s.Source, "static") || s.Cfg.Mute {
			continue
		}
		cand = append(cand, s)
	}
	sort.Slice(cand, func(i, j int) bool { return cand[i].key() < cand[j].key() })
	rnd := rand.New(rand.NewSource(seed))
	rnd.Shuffle(len(cand), func(i, j int) { cand[i], cand[j] = cand[j], cand[i] })
	feats := func(s *script) []string {
		var out []string
		prev := ""
		for _, e := range s.H {
			if e.K != "call" {
				continue
			}
			f := fmt.Sprintf("%v/%s/%s>%s+%s", s.Cfg.Cand, s.Cfg.Local, e.C, e.A, e.S)
			out = append(out, f, prev+"|"+f)
			prev = e.C + ">" + e.A
		}
		return out
	}
	seen := map[string]bool{}
	var out []*script
	used := map[*script]bool{}
	for pass := 0; pass < 2 && len(out) < n; pass++ {
		for _, s := range cand {
			if len(out) >= n {
				break
			}
			if used[s] {
				continue
			}
			gain := 0
			for _, f := range feats(s) {
				if !seen[f] {
					gain++
				}
			}
			if (pass == 0 && gain >= 2) || (pass == 1 && gain >= 1) {
				used[s] = true
				for _, f := range feats(s) {
					seen[f] = true
				}
				c := *s
				c.Source = "consul:" + s.Source
				out = append(out, &c)
			}
		}
	}
	return out
}
