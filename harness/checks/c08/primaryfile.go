package main

import (
	"fmt"
	"os"
	"strings"
	"syscall"
	"time"

	lfuse "github.com/superfly/litefs/fuse"

	"github.com/superfly/litefs/verifharness/core"
	"github.com/superfly/litefs/verifharness/sim"
)

// primaryFile: the .primary file of the mount is how applications (and the proxy of other tools) learn who the
// primary is. It follows the lease: on a replica it names the node the replica follows - also when the
// application looked the file up long ago and the kernel kept the inode -, on the primary it does not exist.
// No listed property speaks about this file, so what is seen here is recorded in the evidence as a LEAD
// ("lead_primary_file"), never as a verdict about C08.
func primaryFile(rep *core.Report) {
	key := "primary-file-follows-the-lease"
	core.Beat("real:c08:" + key)
	defer core.Beat("harness")
	dir := core.Scratch("c08pf")
	defer os.RemoveAll(dir)
	cl := sim.NewCluster(dir)
	defer func() { _ = core.Try(cl.Close) }()
	must := func(err error, what string) {
		if err != nil {
			core.Infra("%s: %s: %v", key, what, err)
		}
	}
	a, err := cl.Start("a", sim.ClusterNodeOpts{Candidate: true})
	must(err, "start a")
	b, err := cl.Start("b", sim.ClusterNodeOpts{Candidate: true})
	must(err, "start b")
	c, err := cl.Start("c", sim.ClusterNodeOpts{})
	must(err, "start c")
	_ = a
	must(cl.Elect("a", 20*time.Second), "elect a")
	waitInfo := func(n *sim.CNode, url string) {
		deadline := time.Now().Add(15 * time.Second)
		for time.Now().Before(deadline) {
			if _, info := n.Store.PrimaryInfo(); info != nil && info.AdvertiseURL == url {
				return
			}
			time.Sleep(time.Millisecond)
		}
		core.Infra("%s: node %s does not follow %s", key, n.Name, url)
	}
	waitInfo(c, a.URL)
	read := func(n *sim.CNode, nd *lfuse.PrimaryNode) (string, error) {
		var b []byte
		var err error
		if nd == nil {
			x, lerr := n.Root.Lookup(sim.Ctx(), lfuse.PrimaryFilename)
			if lerr != nil {
				return "", lerr
			}
			pn, ok := x.(*lfuse.PrimaryNode)
			if !ok {
				return "", fmt.Errorf("lookup returned a %T", x)
			}
			nd = pn
		}
		b, err = nd.ReadAll(sim.Ctx())
		return strings.TrimSpace(string(b)), err
	}
	// an application on c looks the file up once and keeps it (the kernel keeps the inode)
	x, err := c.Root.Lookup(sim.Ctx(), lfuse.PrimaryFilename)
	must(err, "lookup .primary on c")
	kept, ok := x.(*lfuse.PrimaryNode)
	if !ok {
		core.Infra("%s: lookup returned a %T", key, x)
	}
	leads := []map[string]any{}
	want := func(n *sim.CNode) string {
		_, info := n.Store.PrimaryInfo()
		if info == nil {
			return ""
		}
		return info.Hostname
	}
	check := func(when string) {
		rep.Eval(2)
		exp := want(c)
		for how, nd := range map[string]*lfuse.PrimaryNode{"kept-inode": kept, "fresh-lookup": nil} {
			got, err := read(c, nd)
			if err != nil || got != exp {
				leads = append(leads, map[string]any{"sig": "primary-file/replica/" + how + "/" + when, "read": got, "error": sim.ErrString(err), "the_replica_follows": exp,
					"what": "the .primary file on a replica does not name the primary the replica follows"})
			}
		}
	}
	rep.Case(key, true)
	defer func() { rep.Extra["lead_primary_file"] = leads }()
	check("first-primary")
	must(cl.Elect("b", 20*time.Second), "elect b")
	waitInfo(c, b.URL)
	check("after-a-primary-change")
	// on the primary itself the file does not exist
	rep.Eval(1)
	if _, err := b.Root.Lookup(sim.Ctx(), lfuse.PrimaryFilename); err == nil || sim.Errno(err) != syscall.ENOENT {
		leads = append(leads, map[string]any{"sig": "primary-file/exists-on-the-primary", "error": sim.ErrString(err), "what": "the .primary file can be looked up on the node that is primary"})
	}
}
