// Check C10: a completed snapshot or export is the image of exactly one position - the one it reports.
//
// spec -> impl: Snapshot.tla (snapshotter/exporter in lock-step against a WAL or rollback-journal
// writer, a SQLite client checkpointer and LiteFS's own checkpoint) is model-checked by TLC, which
// also prints one schedule per distinct final state. Every schedule is replayed on a real node: the
// real DB.WriteSnapshotTo / DB.Export runs on its own goroutine and is stopped at every point the
// code exposes (lock state changes of the twelve locks, litefs.OS.Open, every Write on the
// destination, every ctx.Done() = a failed blocking lock attempt); between two gates the scheduler
// plays the other processes through the FUSE handlers (sim.Pager) and DB.Checkpoint. Randomised
// gate orders seeded by the seed are driven in addition.
//
// Verdicts (R1) come only from the monitor on the bytes an attempt that RETURNED SUCCESS delivered,
// compared with the harness's own reference image of the position that attempt reports.
package main

import (
	"bytes"
	"context"
	"encoding/json"
	"errors"
	"fmt"
	"io"
	"math/rand"
	"os"
	"path/filepath"
	"runtime"
	"sort"
	"strconv"
	"strings"
	"sync"
	"sync/atomic"
	"syscall"
	"time"

	"bazil.org/fuse"
	"github.com/superfly/litefs"
	"github.com/superfly/litefs/verifharness/core"
	"github.com/superfly/litefs/verifharness/faults"
	"github.com/superfly/litefs/verifharness/sim"
	"github.com/superfly/ltx"
)

const deadman = 30 * time.Second // dead-man switch for a gate that is never reached (core.Infra, never a verdict)

// ---------------------------------------------------------------- schedules

// Tok is one step of a schedule: process, operation, arguments, and (TLC schedules) the
// specification's prediction of lock table / position / size after the step.
type Tok struct {
	A  string          `json:"a"`
	Op string          `json:"op"`
	G  json.RawMessage `json:"g,omitempty"`
	O  *Obs            `json:"o,omitempty"`
}

// Obs is Snapshot.tla's Obs: <<lock string, position, size>>.
type Obs struct {
	L string
	T int
	N int
}

func (t *Tok) UnmarshalJSON(b []byte) error {
	if len(b) > 0 && b[0] == '{' {
		type plain Tok
		return json.Unmarshal(b, (*plain)(t))
	}
	var a []json.RawMessage
	if err := json.Unmarshal(b, &a); err != nil {
		return err
	}
	if len(a) != 4 {
		return fmt.Errorf("token with %d fields", len(a))
	}
	_ = json.Unmarshal(a[0], &t.A)
	_ = json.Unmarshal(a[1], &t.Op)
	t.G = a[2]
	var o []json.RawMessage
	if json.Unmarshal(a[3], &o) == nil && len(o) == 3 {
		t.O = &Obs{}
		_ = json.Unmarshal(o[0], &t.O.L)
		_ = json.Unmarshal(o[1], &t.O.T)
		_ = json.Unmarshal(o[2], &t.O.N)
	}
	return nil
}

func (o *Obs) MarshalJSON() ([]byte, error) { return json.Marshal([]any{o.L, o.T, o.N}) }

// Trace is one TRACE line of Snapshot.tla.
type Trace struct {
	H []Tok `json:"h"`
	R struct {
		Res string `json:"res"`
		T   int    `json:"t"`
		N   int    `json:"n"`
		Img []int  `json:"img"`
		Bad bool   `json:"bad"`
	} `json:"r"`
}

// Conc are the concretisation parameters of one replay.
type Conc struct {
	Kind      string `json:"kind"`   // "snapshot" | "export"
	Mode      string `json:"mode"`   // "wal" | "rb"
	Layout    string `json:"layout"` // L0 | L1
	PageSize  uint32 `json:"page_size"`
	Sector    int    `json:"sector"`
	BigEndian bool   `json:"big_endian"`
	Compress  bool   `json:"compress"`
}

func (c Conc) String() string {
	return fmt.Sprintf("%s/%s/%s/ps%d/be%v/lz4%v", c.Kind, c.Mode, c.Layout, c.PageSize, c.BigEndian, c.Compress)
}

func (c Conc) layout() sim.Layout {
	if c.Layout == "L1" {
		return sim.L1(c.PageSize)
	}
	return sim.L0(c.PageSize)
}

// ---------------------------------------------------------------- the gated attempt (process S)

var gidPrefix = []byte("goroutine ")

func curGID() int64 {
	var b [40]byte
	n := runtime.Stack(b[:], false)
	s := b[:n]
	if !bytes.HasPrefix(s, gidPrefix) {
		return -1
	}
	s = s[len(gidPrefix):]
	i := bytes.IndexByte(s, ' ')
	if i < 0 {
		return -1
	}
	id, _ := strconv.ParseInt(string(s[:i]), 10, 64)
	return id
}

type gateEv struct {
	Kind  string // LOCK | OPEN | WRITE | CTX | START | DONE
	Label string
}

type snapProc struct {
	w        *world
	gid      atomic.Int64
	arrive   chan gateEv
	release  chan struct{}
	finished atomic.Bool

	at        gateEv // last arrival (scheduler side)
	phase     string // last lock/open/page label passed
	openSeen  bool
	blocked   bool // parked in ctx.Done() of a blocking lock acquisition that failed
	blockedAt uint64
	started   bool
	done      bool
	pageWr    int
	buf       bytes.Buffer

	// results
	err error
	pn  *core.Panic
	hdr ltx.Header
	trl ltx.Trailer
	pos ltx.Pos
}

// gate is called on S's own goroutine: announce the arrival and wait for the scheduler.
func (s *snapProc) gate(kind, label string) {
	s.arrive <- gateEv{kind, label}
	<-s.release
}

// gateCtx is the context handed to the attempt; Done() is called by the polling Lock/RLock after
// every failed attempt and by WriteSnapshotTo once per page.
type gateCtx struct{ s *snapProc }

var never = make(chan struct{})

func (c gateCtx) Deadline() (time.Time, bool) { return time.Time{}, false }
func (c gateCtx) Err() error                  { return nil }
func (c gateCtx) Value(any) any               { return nil }
func (c gateCtx) Done() <-chan struct{} {
	if !c.s.finished.Load() && curGID() == c.s.gid.Load() {
		c.s.gate("CTX", "CTX")
	}
	return never
}

// closedCtx makes DB.Checkpoint try its all-or-nothing lock acquisition once.
type closedCtx struct{}

var closedCh = func() chan struct{} { c := make(chan struct{}); close(c); return c }()

func (closedCtx) Deadline() (time.Time, bool) { return time.Time{}, false }
func (closedCtx) Done() <-chan struct{}       { return closedCh }
func (closedCtx) Err() error                  { return context.Canceled }
func (closedCtx) Value(any) any               { return nil }

type gateWriter struct{ s *snapProc }

func (g gateWriter) Write(b []byte) (int, error) {
	s := g.s
	s.buf.Write(b)
	if uint32(len(b)) == s.w.lay.PageSize {
		s.pageWr++
		s.gate("WRITE", "PAGE:"+strconv.Itoa(s.pageWr))
	} else {
		s.gate("WRITE", "WR")
	}
	return len(b), nil
}

var lockNames = map[litefs.LockType]string{
	litefs.LockTypePending: "PENDING", litefs.LockTypeShared: "SHARED", litefs.LockTypeReserved: "RESERVED",
	litefs.LockTypeWrite: "WRITE", litefs.LockTypeCkpt: "CKPT", litefs.LockTypeRecover: "RECOVER",
	litefs.LockTypeRead0: "READ0", litefs.LockTypeRead1: "READ1", litefs.LockTypeRead2: "READ2",
	litefs.LockTypeRead3: "READ3", litefs.LockTypeRead4: "READ4", litefs.LockTypeDMS: "DMS",
}

// rank orders the gates of one attempt as the code reaches them (used to notice that a gate the
// schedule names was passed silently). Unknown / repeatable gates have rank -1.
var rankTab = map[string]int{"START": 0, "PENDING+": 1, "SHARED+": 2, "PENDING-": 3, "WRITE+": 4, "WRITE-": 5, "CKPT+": 6,
	"RECOVER+": 7, "READ0+": 8, "READ1+": 9, "READ2+": 10, "READ3+": 11, "READ4+": 12, "CKPT-": 13, "RECOVER-": 14, "OPEN:DB": 15, "OPEN:WAL": 16}

func rank(label string, pagesSeen bool) int {
	if strings.HasPrefix(label, "PAGE:") {
		n, _ := strconv.Atoi(label[5:])
		return 100 + n
	}
	if pagesSeen {
		return -1 // the releases at the end
	}
	if r, ok := rankTab[label]; ok {
		return r
	}
	return -1
}

// window: S has released WRITE (or, in rollback mode, finished its capture) and does not hold READ4 yet.
var windowPhases = map[string]bool{"WRITE-": true, "CKPT+": true, "RECOVER+": true, "READ0+": true, "READ1+": true, "READ2+": true, "READ3+": true}

// ---------------------------------------------------------------- one replay

type refImg struct {
	chk   uint64
	model []sim.Content
}

type interference struct {
	Phase string `json:"s_at"`
	Tok   string `json:"step"`
	What  string `json:"changed_under_captured_view"`
}

type world struct {
	lN   int // LiteFS checkpoints attempted
	conc Conc
	lay  sim.Layout
	node *sim.Node
	name string
	db   *litefs.DB
	pg   *sim.Pager
	wc   *sim.Conn // writer connection
	cc   *sim.Conn // checkpointer connection
	s    *snapProc

	mu       sync.Mutex
	mirror   map[litefs.LockType]litefs.RWMutexState
	lockSeq  uint64 // number of lock state changes seen
	refs     map[uint64]refImg
	baseTXID uint64
	lastTXID uint64

	// writer program
	wpc  string // idle | hdr | frames | end | jlock | jpages | jrb | jfinal | jend
	plan sim.Plan
	todo []int
	mx   int // committed frames of the current log generation
	bf   int // frames backfilled by a client checkpoint
	salt int
	oldN int
	// client checkpointer program
	cpc    string // idle | read0 | trunc | end
	ckind  string
	cHasW  bool
	cWork  bool // frames to backfill existed when the wal-index header was read
	cGen   int  // log generation (salt) at that moment
	cPages map[uint32]int
	cSize  uint32
	cmx    int

	// bookkeeping
	exact     bool
	inexactAt string
	log       []Tok
	capLen    int64 // -1 = S has not finished its capture yet
	viewAt    map[uint32]viewLoc
	viewPrev  map[uint32][]byte
	interf    []interference
	anomaly   string
	evals     int
	nonconf   []string
	gates     map[string]int
}

func errnoOf(err error) syscall.Errno {
	if err == nil {
		return 0
	}
	var se syscall.Errno
	if errors.As(err, &se) {
		return se
	}
	var fe fuse.Errno
	if errors.As(err, &fe) {
		return syscall.Errno(fe)
	}
	return sim.Errno(err)
}

func busy(err error) bool { return errnoOf(err) == syscall.EAGAIN }

const (
	shmWrite = uint64(120)
	shmCkpt  = uint64(121)
	shmRead0 = uint64(123)
	shmRead1 = uint64(124)
	shmRead4 = uint64(127)
)

func (w *world) nonconform(format string, a ...any) {
	if len(w.nonconf) < 5 {
		w.nonconf = append(w.nonconf, fmt.Sprintf(format, a...))
	}
}

func (w *world) inexact(why string) {
	if w.exact {
		w.exact = false
		w.inexactAt = why
	}
}

func newWorld(node *sim.Node, name string, conc Conc) *world {
	w := &world{conc: conc, lay: conc.layout(), node: node, name: name, mirror: map[litefs.LockType]litefs.RWMutexState{},
		refs: map[uint64]refImg{}, wpc: "idle", cpc: "idle", exact: true, capLen: -1, gates: map[string]int{}}
	return w
}

func (w *world) onLock(lt litefs.LockType, prev, next litefs.RWMutexState) {
	w.mu.Lock()
	w.mirror[lt] = next
	w.lockSeq++
	w.mu.Unlock()
	if s := w.s; s != nil && !s.finished.Load() && curGID() == s.gid.Load() {
		l := lockNames[lt]
		if next > prev {
			l += "+"
		} else {
			l += "-"
		}
		s.gate("LOCK", l)
	}
}

func (w *world) lockState(lt litefs.LockType) litefs.RWMutexState {
	w.mu.Lock()
	defer w.mu.Unlock()
	return w.mirror[lt]
}

func (w *world) lockChanges() uint64 {
	w.mu.Lock()
	defer w.mu.Unlock()
	return w.lockSeq
}

func seqTo(n int) []int {
	out := make([]int, n)
	for i := range out {
		out[i] = i + 1
	}
	return out
}

// setup creates the database (journal-mode transaction, version 1), optionally switches it to WAL
// and commits one WAL transaction (version 2) over the pages in im.
func (w *world) setup(n0 int, im []int) error {
	w.wc = w.node.Connect(w.name, 7)
	w.cc = w.node.Connect(w.name, 9)
	w.pg = sim.NewPager(w.wc, w.lay, sim.PagerOpts{Sector: w.conc.Sector, BigEndian: w.conc.BigEndian})
	if err := w.wc.OpenDB(true); err != nil {
		return fmt.Errorf("create: %w", err)
	}
	w.db = w.node.Store.DB(w.name)
	if w.db == nil {
		return fmt.Errorf("database unknown to the store after create")
	}
	w.db.VerifOnLockStateChange(w.onLock)
	pl := sim.Plan{Kind: "j", Ns: n0, M: seqTo(n0), Out: "commit", Fin: "DELETE", V: 1, Wal: w.conc.Mode == "wal"}
	steps := []func() error{func() error { return w.pg.BeginJ(pl) }, w.pg.JCreate, w.pg.JSync}
	for _, q := range pl.M {
		q := q
		steps = append(steps, func() error { return w.pg.JPage(q) })
	}
	steps = append(steps, w.pg.JFinal)
	for _, f := range steps {
		if err := f(); err != nil {
			return fmt.Errorf("creation transaction: %w", err)
		}
	}
	w.pg.EndJ()
	if w.conc.Mode == "wal" && len(im) > 0 {
		pl := sim.Plan{Kind: "w", Ns: n0, M: im, Out: "commit", V: 2, Wal: true}
		if err := w.pg.BeginW(pl); err != nil {
			return fmt.Errorf("initial wal tx: %w", err)
		}
		w.salt++
		if err := w.pg.WHdr(w.salt); err != nil {
			return err
		}
		for i, q := range im {
			if err := w.pg.WFrame(q, false, i == len(im)-1); err != nil {
				return err
			}
		}
		if err := w.pg.WEnd(); err != nil {
			return err
		}
		w.mx = len(w.pg.LastTxPages())
	}
	pos := w.db.Pos()
	w.baseTXID, w.lastTXID = uint64(pos.TXID), uint64(pos.TXID)
	w.refs[w.baseTXID] = refImg{chk: uint64(pos.PostApplyChecksum), model: append([]sim.Content(nil), w.pg.Ref...)}
	wantMode := litefs.DBModeRollback
	if w.conc.Mode == "wal" {
		wantMode = litefs.DBModeWAL
	}
	if w.db.Mode() != wantMode {
		return fmt.Errorf("database is not in %s mode after setup", w.conc.Mode)
	}
	return nil
}

func (w *world) close() {
	_ = core.Try(func() {
		w.wc.Close()
		w.cc.Close()
	})
}

// ---- process S

func (w *world) startS() {
	s := &snapProc{w: w, arrive: make(chan gateEv), release: make(chan struct{})}
	w.s = s
	go func() {
		s.gid.Store(curGID())
		s.gate("START", "START")
		s.pn = core.Try(func() {
			ctx := gateCtx{s}
			dst := gateWriter{s}
			if w.conc.Kind == "snapshot" {
				s.hdr, s.trl, s.err = w.db.WriteSnapshotTo(ctx, dst)
			} else {
				s.pos, s.err = w.db.Export(ctx, dst)
			}
		})
		s.finished.Store(true)
		s.arrive <- gateEv{"DONE", "DONE"}
	}()
	w.await()
	s.started = true
}

func (w *world) await() gateEv {
	s := w.s
	select {
	case ev := <-s.arrive:
		core.Beat("harness")
		s.at = ev
		w.gates[ev.Kind]++
		switch ev.Kind {
		case "DONE":
			s.done = true
			s.blocked = false
		case "CTX":
			if !s.openSeen {
				if !s.blocked {
					w.gates["BLOCKED-ON-LOCK"]++
				}
				s.blocked = true
				s.blockedAt = w.lockChanges()
			}
		case "OPEN":
			s.openSeen = true
			s.blocked = false
			s.phase = ev.Label
		case "LOCK":
			s.blocked = false
			s.phase = ev.Label
			if (ev.Label == "WRITE-" || (ev.Label == "CKPT+" && w.conc.Mode == "rb")) && w.capLen < 0 {
				w.captureFiles()
			}
		case "WRITE":
			s.blocked = false
			if ev.Label != "WR" {
				s.phase = ev.Label
			}
		}
		return ev
	case <-time.After(deadman):
		core.Infra("the %s goroutine reached no gate within %s after %q (schedule so far: %s)", w.conc.Kind, deadman, s.at.Label, w.logString())
	}
	return gateEv{}
}

// step releases S from its gate and waits for the next one.
func (w *world) step() gateEv {
	core.Beat("real:" + w.conc.Kind)
	w.s.release <- struct{}{}
	return w.await()
}

// sTo runs S until it is parked at the gate `target` (or beyond it, or blocked on a lock, or finished).
func (w *world) sTo(target string) {
	s := w.s
	if s.done {
		w.inexact("S already finished at " + target)
		return
	}
	tr := rank(target, false)
	for i := 0; i < 100000; i++ {
		if !s.blocked {
			cur := rank(s.at.Label, s.pageWr > 0)
			if s.at.Label == target {
				return
			}
			if tr >= 0 && cur >= 0 && cur >= tr {
				if cur > tr {
					w.inexact(fmt.Sprintf("gate %s passed silently (at %s)", target, s.at.Label))
				}
				return
			}
		}
		ev := w.step()
		if ev.Kind == "DONE" {
			if target != "DONE" {
				w.inexact("S finished before " + target)
			}
			return
		}
		if s.blocked {
			w.inexact("S blocked on a lock before " + target)
			return
		}
	}
	core.Infra("S passed 100000 gates without reaching %s", target)
}

func (w *world) doS(t Tok) {
	var g struct {
		F *bool `json:"f"`
		P int   `json:"p"`
	}
	_ = json.Unmarshal(t.G, &g)
	switch t.Op {
	case "cap":
		return // internal step, happens on the way to the next gate
	case "step": // randomised schedules: exactly one gate
		if !w.s.done {
			w.step()
		}
		return
	case "page":
		w.sTo("PAGE:" + strconv.Itoa(int(w.lay.Real(g.P))))
	case "fin":
		w.sTo("DONE")
	case "READN+":
		w.sTo("READ4+") // READ2..4 always change state even when READ1 (held by the writer) does not
	default:
		if g.F != nil && !*g.F {
			return // the specification says this call does not change the mutex state: no gate there
		}
		w.sTo(t.Op)
	}
}

// ---- the bytes S is going to read, as fixed by its capture (for classifying a failure, never for deciding one)

type viewLoc struct {
	wal bool
	off int64
}

func (w *world) readFiles() (dbb, wal []byte) {
	dir := w.node.DBDir(w.name)
	dbb, _ = os.ReadFile(filepath.Join(dir, "database"))
	wal, _ = os.ReadFile(filepath.Join(dir, "wal"))
	return
}

// readView returns, per real page, the bytes currently at the place the captured view points to:
// the log at the frame offset SQLite's wal-index (= LiteFS's frameOffsets while WRITE was held by S)
// named at capture time, or the database file. A short file yields nil for that page.
func (w *world) readView() map[uint32][]byte {
	dbb, wal := w.readFiles()
	ps := int64(w.lay.PageSize)
	out := make(map[uint32][]byte, len(w.viewAt)+1)
	// key 0: the log header (salts) if the view reads from the log - a restarted or cut log invalidates
	// the captured offsets even before the frames behind them are overwritten
	for _, l := range w.viewAt {
		if l.wal {
			if len(wal) >= 32 {
				out[0] = wal[:32]
			} else {
				out[0] = nil
			}
			break
		}
	}
	for r, l := range w.viewAt {
		src := dbb
		if l.wal {
			src = wal
		}
		if l.off+ps <= int64(len(src)) {
			out[r] = src[l.off : l.off+ps]
		} else {
			out[r] = nil
		}
	}
	return out
}

func (w *world) captureFiles() {
	w.viewAt = map[uint32]viewLoc{}
	ps := int64(w.lay.PageSize)
	for r := uint32(1); r <= w.pg.RealSize(); r++ {
		if i, ok := w.pg.InWAL(r); ok && w.conc.Mode == "wal" {
			w.viewAt[r] = viewLoc{true, w.frameOff(i) + 24}
		} else {
			w.viewAt[r] = viewLoc{false, int64(r-1) * ps}
		}
	}
	w.viewPrev = w.readView()
	w.capLen = 0
}

func (w *world) noteInterference(t Tok) {
	if w.capLen < 0 || w.s == nil || w.s.done {
		return
	}
	cur := w.readView()
	var changed []string
	for r, b := range cur {
		if !bytes.Equal(b, w.viewPrev[r]) || (b == nil) != (w.viewPrev[r] == nil) {
			src := "db"
			if w.viewAt[r].wal {
				src = "log"
			}
			if r == 0 {
				changed = append(changed, "0(log header: restarted or cut)")
				continue
			}
			changed = append(changed, fmt.Sprintf("%d(%s)", r, src))
		}
	}
	w.viewPrev = cur
	if len(changed) > 0 {
		sort.Strings(changed)
		if len(changed) > 6 {
			changed = append(changed[:6], "...")
		}
		w.interf = append(w.interf, interference{Phase: w.s.phase, Tok: t.A + ":" + t.Op, What: "pages " + strings.Join(changed, ",")})
	}
}

// ---- process W (WAL writer)

func planOf(g json.RawMessage) sim.Plan {
	var p struct {
		M   []int  `json:"M"`
		Ns  int    `json:"ns"`
		Out string `json:"out"`
		V   int    `json:"v"`
	}
	_ = json.Unmarshal(g, &p)
	sort.Ints(p.M)
	return sim.Plan{M: p.M, Ns: p.Ns, Out: p.Out, V: p.V}
}

func (w *world) doW(t Tok) (did bool) {
	switch {
	case t.Op == "begin":
		if w.wpc != "idle" {
			w.inexact("W:begin while a transaction is open")
			return false
		}
		pl := planOf(t.G)
		pl.Kind, pl.Wal = "w", true
		if pl.Out != "commit" {
			pl.Out = "rollback"
		}
		if err := w.pg.BeginW(pl); err != nil {
			_ = w.wc.LockSHM(fuse.LockUnlock, shmRead1, shmRead1)
			if !busy(err) {
				w.anomaly = "W:begin: " + sim.ErrString(err)
			}
			w.inexact("W:begin busy")
			return false
		}
		w.plan, w.wpc, w.oldN = pl, "hdr", len(w.pg.Ref)
		return true
	case w.wpc == "idle":
		w.inexact("W:" + t.Op + " without a transaction")
		return false
	}
	var err error
	switch w.wpc {
	case "hdr":
		var g struct {
			New bool `json:"new"`
		}
		_ = json.Unmarshal(t.G, &g)
		fresh := w.mx == 0
		restart := false
		if !fresh && w.bf == w.mx {
			// walRestartLog: every read mark must be free
			if e := w.wc.LockSHM(fuse.LockWrite, shmRead1, shmRead4); e == nil {
				restart = true
			} else if !busy(e) {
				err = e
			} else {
				// the range request may have taken some of the locks before it hit the busy one
				_ = w.wc.LockSHM(fuse.LockUnlock, shmRead1+1, shmRead4)
				_ = w.wc.LockSHM(fuse.LockRead, shmRead1, shmRead1)
			}
		}
		if err == nil {
			if fresh || restart {
				w.salt++
				err = w.pg.WHdr(w.salt)
				w.mx, w.bf = 0, 0
			} else {
				err = w.pg.WHdr(0)
			}
		}
		if restart {
			_ = w.wc.LockSHM(fuse.LockUnlock, shmRead1+1, shmRead4)
			_ = w.wc.LockSHM(fuse.LockRead, shmRead1, shmRead1)
		}
		if t.Op != "hdr" || (t.G != nil && g.New != (fresh || restart)) {
			w.inexact("W:hdr differs from the specification")
		}
		w.todo = append([]int(nil), w.plan.M...)
		w.wpc = "frames"
	case "frames":
		q := w.todo[0]
		w.todo = w.todo[1:]
		last := len(w.todo) == 0
		err = w.pg.WFrame(q, false, last && w.plan.Out == "commit")
		if last {
			w.wpc = "end"
		}
		if t.Op != "frame" {
			w.inexact("W:frame expected")
		}
	case "end":
		before := uint64(w.db.Pos().TXID)
		err = w.pg.WEnd()
		if w.plan.Out == "commit" {
			w.mx += len(w.pg.LastTxPages())
			if uint64(w.db.Pos().TXID) != before+1 && err == nil {
				w.anomaly = "WAL commit was not captured (position did not advance; C03's concern)"
			}
		}
		w.wpc = "idle"
		if t.Op != "end" {
			w.inexact("W:end expected")
		}
	default:
		w.inexact("W token in journal mode")
		return false
	}
	if err != nil && w.anomaly == "" {
		w.anomaly = fmt.Sprintf("W:%s refused: %s", t.Op, sim.ErrString(err))
	}
	return true
}

// ---- process J (rollback-journal writer)

func (w *world) doJ(t Tok) (did bool) {
	switch {
	case t.Op == "begin":
		if w.wpc != "idle" {
			w.inexact("J:begin while a transaction is open")
			return false
		}
		pl := planOf(t.G)
		pl.Kind, pl.Fin = "j", "DELETE"
		if pl.Out != "commit" {
			pl.Out = "rb_spill"
		}
		w.oldN = len(w.pg.Ref)
		if err := w.pg.BeginJ(pl); err != nil {
			w.pg.EndJ()
			if !busy(err) {
				w.anomaly = "J:begin: " + sim.ErrString(err)
			}
			w.inexact("J:begin busy")
			return false
		}
		if err := w.pg.JCreate(); err != nil {
			w.anomaly = "J:create: " + sim.ErrString(err)
			return true
		}
		w.plan, w.wpc = pl, "jlock"
		return true
	case w.wpc == "idle":
		w.inexact("J:" + t.Op + " without a transaction")
		return false
	}
	var err error
	switch w.wpc {
	case "jlock":
		var g struct {
			Full bool `json:"full"`
		}
		_ = json.Unmarshal(t.G, &g)
		e := w.pg.JSync()
		if e == nil {
			w.wpc = "jpages"
			if w.plan.Out == "commit" {
				w.todo = append([]int(nil), w.plan.M...)
			} else {
				w.todo = []int{w.plan.M[0]}
			}
		} else if !busy(e) {
			err = e
		}
		if t.Op != "lock" || (t.G != nil && g.Full != (e == nil)) {
			w.inexact("J:lock outcome differs from the specification")
		}
	case "jpages":
		q := w.todo[0]
		w.todo = w.todo[1:]
		err = w.pg.JPage(q)
		if len(w.todo) == 0 {
			if w.plan.Out == "commit" {
				w.wpc = "jfinal"
			} else {
				w.wpc = "jrb"
			}
		}
	case "jrb":
		err = w.pg.JRbTrunc(w.oldN)
		for _, q := range w.plan.M {
			if q <= w.oldN && err == nil {
				err = w.pg.JRbPage(q)
			}
		}
		w.wpc = "jfinal"
	case "jfinal":
		err = w.pg.JFinal()
		w.wpc = "jend"
	case "jend":
		w.pg.EndJ()
		w.wpc = "idle"
	default:
		w.inexact("J token in WAL mode")
		return false
	}
	if err != nil && w.anomaly == "" {
		w.anomaly = fmt.Sprintf("J:%s refused: %s", t.Op, sim.ErrString(err))
	}
	return true
}

// ---- process C (SQLite client checkpoint on its own connection)

func (w *world) frameOff(i int) int64 { return 32 + int64(i-1)*(24+int64(w.lay.PageSize)) }

func (w *world) doC(t Tok) (did bool) {
	ps := int64(w.lay.PageSize)
	var err error
	switch {
	case t.Op == "begin":
		if w.cpc != "idle" {
			w.inexact("C:begin while a checkpoint is open")
			return false
		}
		var g struct {
			Kind string `json:"kind"`
		}
		_ = json.Unmarshal(t.G, &g)
		for _, f := range []func() error{func() error { return w.cc.OpenDB(false) }, w.cc.OpenSHM, w.cc.OpenWAL} {
			if e := f(); e != nil {
				w.anomaly = "C:open: " + sim.ErrString(e)
				return false
			}
		}
		if e := w.cc.LockSHM(fuse.LockWrite, shmCkpt, shmCkpt); e != nil {
			if !busy(e) {
				w.anomaly = "C:begin: " + sim.ErrString(e)
			}
			w.inexact("C:begin busy")
			return false
		}
		w.ckind, w.cHasW = g.Kind, false
		if g.Kind == "TRUNCATE" {
			if e := w.cc.LockSHM(fuse.LockWrite, shmWrite, shmWrite); e == nil {
				w.cHasW = true
			} else {
				w.ckind = "PASSIVE" // SQLite degrades to a passive checkpoint when the writer lock is busy
				w.inexact("C:begin TRUNCATE degraded")
			}
		}
		// the wal-index header as read now
		w.cPages = map[uint32]int{}
		w.cSize = w.pg.RealSize()
		for r := uint32(1); r <= w.cSize; r++ {
			if i, ok := w.pg.InWAL(r); ok {
				w.cPages[r] = i
			}
		}
		w.cmx = w.mx
		w.cWork, w.cGen = w.cmx > w.bf, w.salt
		w.cpc = "read0"
		return true
	case w.cpc == "idle":
		w.inexact("C:" + t.Op + " without a checkpoint")
		return false
	}
	switch {
	case w.cpc == "read0" && t.Op != "end":
		if e := w.cc.LockSHM(fuse.LockWrite, shmRead0, shmRead0); e != nil {
			if !busy(e) {
				err = e
			}
			w.inexact("C:copy busy")
			return false
		}
		// nothing to do if everything was backfilled when the checkpoint started; a writer can only
		// have restarted the log in that case, so the remembered frames are never stale when used
		if w.cWork && w.cGen == w.salt && w.cmx > w.bf {
			var pages []uint32
			for r := range w.cPages {
				pages = append(pages, r)
			}
			sort.Slice(pages, func(i, j int) bool { return pages[i] < pages[j] })
			for _, r := range pages {
				b, e := w.cc.ReadWAL(w.frameOff(w.cPages[r])+24, int(ps))
				if e != nil || int64(len(b)) != ps {
					err = fmt.Errorf("read wal frame %d: %v", w.cPages[r], e)
					break
				}
				if e := w.cc.WriteDB(int64(r-1)*ps, b); e != nil {
					err = fmt.Errorf("checkpoint write page %d: %w", r, e)
					break
				}
			}
			if sz, e := w.cc.DBSize(); err == nil && e == nil && sz > int64(w.cSize)*ps {
				err = w.cc.TruncateDB(int64(w.cSize) * ps)
			}
			if err == nil {
				err = w.cc.SyncDB()
			}
			w.bf = w.cmx
		}
		_ = w.cc.LockSHM(fuse.LockUnlock, shmRead0, shmRead0)
		if w.ckind == "TRUNCATE" {
			w.cpc = "trunc"
		} else {
			w.cpc = "end"
		}
	case w.cpc == "trunc" && t.Op != "end":
		if !w.cHasW || w.bf != w.mx {
			w.inexact("C:trunc not possible")
			w.cpc = "end"
			return false
		}
		if e := w.cc.LockSHM(fuse.LockWrite, shmRead1, shmRead4); e != nil {
			_ = w.cc.LockSHM(fuse.LockUnlock, shmRead1, shmRead4)
			if !busy(e) {
				err = e
			}
			w.inexact("C:trunc busy")
			return false
		}
		err = w.cc.TruncateWAL(0)
		w.pg.ForgetWAL()
		w.mx, w.bf = 0, 0
		_ = w.cc.LockSHM(fuse.LockUnlock, shmRead1, shmRead4)
		w.cpc = "end"
	default: // end (also the busy exits)
		if w.cHasW {
			_ = w.cc.LockSHM(fuse.LockUnlock, shmWrite, shmWrite)
			w.cHasW = false
		}
		_ = w.cc.LockSHM(fuse.LockUnlock, shmCkpt, shmCkpt)
		w.cpc = "idle"
	}
	if err != nil && w.anomaly == "" {
		w.anomaly = fmt.Sprintf("C:%s refused: %s", t.Op, sim.ErrString(err))
	}
	return true
}

// ---- process L (LiteFS's own checkpoint)

func (w *world) doL(t Tok) (did bool) {
	// LiteFS's own checkpoint: DB.Checkpoint, or - what a node does at every role change - Store.Recover
	// (journal rollback + checkpoint of every database); both must wait for the locks an export holds
	var err error
	if w.lN++; w.lN%2 == 0 {
		err = w.db.Checkpoint(closedCtx{})
	} else {
		err = w.node.Store.Recover(closedCtx{})
	}
	if err != nil {
		if !errors.Is(err, context.Canceled) {
			w.anomaly = "L:ckpt: " + err.Error()
		}
		w.inexact("L:ckpt busy")
		return false
	}
	w.pg.ForgetWAL()
	w.mx, w.bf = 0, 0
	return true
}

// ---- scheduler

func (w *world) logString() string {
	var sb strings.Builder
	for i, t := range w.log {
		if i > 0 {
			sb.WriteByte(' ')
		}
		sb.WriteString(t.A + ":" + t.Op)
	}
	return sb.String()
}

var lockOrder = []litefs.LockType{litefs.LockTypePending, litefs.LockTypeShared, litefs.LockTypeReserved, litefs.LockTypeWrite,
	litefs.LockTypeCkpt, litefs.LockTypeRecover, litefs.LockTypeRead0, litefs.LockTypeRead1}

func (w *world) lockString() string {
	w.mu.Lock()
	defer w.mu.Unlock()
	b := make([]byte, len(lockOrder))
	for i, lt := range lockOrder {
		b[i] = "usx"[w.mirror[lt]]
	}
	return string(b)
}

// exec performs one token on the real code.
func (w *world) exec(t Tok) {
	w.log = append(w.log, Tok{A: t.A, Op: t.Op, G: t.G})
	if t.A == "S" {
		if w.s == nil {
			w.startS()
		}
		w.doS(t)
	} else {
		core.Beat("real:" + t.A + ":" + t.Op)
		did := false
		pn := core.Try(func() {
			switch t.A {
			case "W":
				did = w.doW(t)
			case "J":
				did = w.doJ(t)
			case "C":
				did = w.doC(t)
			case "L":
				did = w.doL(t)
			}
		})
		core.Beat("harness")
		if pn != nil {
			w.anomaly = fmt.Sprintf("panic in %s:%s: %s", t.A, t.Op, pn.Value)
		}
		// reference image of every new position, from the writer's own reference
		if pos := w.db.Pos(); uint64(pos.TXID) != w.lastTXID {
			w.lastTXID = uint64(pos.TXID)
			w.refs[w.lastTXID] = refImg{chk: uint64(pos.PostApplyChecksum), model: append([]sim.Content(nil), w.pg.Ref...)}
		}
		if did {
			w.noteInterference(t)
		}
		if os.Getenv("VERIF_C10_DEBUG") != "" {
			im, _ := sim.DiskImage(w.node.DBDir(w.name), w.lay.PageSize)
			m, bad := w.lay.ModelOf(im)
			pos := w.db.Pos()
			fmt.Printf("  %s:%s%s did=%v pos=%d/%016x disk=%v bad=%v ref=%v diskchk=%016x mx=%d bf=%d wpc=%s cpc=%s locks=%s\n", t.A, t.Op, t.G, did, pos.TXID, uint64(pos.PostApplyChecksum), m, bad, w.pg.Ref, im.Checksum(w.lay.LockPgno()), w.mx, w.bf, w.wpc, w.cpc, w.lockString())
		}
	}
	// conformance with the specification's prediction (R3, never a verdict)
	if t.O != nil && w.exact && w.anomaly == "" && !(t.A == "S" && (t.Op == "cap")) {
		if got := w.lockString(); got != t.O.L {
			w.nonconform("%s:%s lock table %s, specification %s", t.A, t.Op, got, t.O.L)
			w.inexact("lock table differs")
		}
		if got := int(w.lastTXID - w.baseTXID); got != t.O.T {
			w.nonconform("%s:%s position +%d, specification +%d", t.A, t.Op, got, t.O.T)
			w.inexact("position differs")
		}
		if got := w.db.PageN(); w.wpc == "idle" && got != w.lay.Real(t.O.N) {
			w.nonconform("%s:%s PageN %d, specification %d (real %d)", t.A, t.Op, got, t.O.N, w.lay.Real(t.O.N))
		}
	}
}

// finish lets S run to completion if the schedule ended early.
func (w *world) finish() {
	if w.s == nil {
		w.startS()
	}
	for i := 0; !w.s.done; i++ {
		if w.s.blocked {
			// the other processes are released in an orderly way so that S can proceed
			w.quiesce()
		}
		w.step()
		if i > 200000 {
			core.Infra("S does not finish: %s", w.logString())
		}
	}
}

// quiesce ends open transactions / checkpoints of the other processes (S is blocked on one of their locks).
func (w *world) quiesce() {
	for i := 0; i < 20 && w.cpc != "idle"; i++ {
		w.exec(Tok{A: "C", Op: "end"})
	}
	for i := 0; i < 40 && w.wpc != "idle"; i++ {
		before := w.wpc
		if w.conc.Mode == "wal" {
			w.exec(Tok{A: "W", Op: "next"})
		} else {
			w.exec(Tok{A: "J", Op: "next"})
		}
		if w.wpc == before && w.wpc == "jlock" {
			// the journal writer waits for S's SHARED lock and S waits for its PENDING lock: SQLite's
			// busy handler gives up and the writer rolls back
			w.pg.EndJ()
			w.wpc = "idle"
			w.log = append(w.log, Tok{A: "J", Op: "giveup"})
		}
	}
}

// ---------------------------------------------------------------- the monitor (R1)

type outcome struct {
	Returned  string `json:"returned"` // ok | error | panic
	Err       string `json:"error,omitempty"`
	TXID      uint64 `json:"reported_txid,omitempty"`
	Violation *violation
}

type violation struct {
	Monitor string
	Sig     string
	Detail  map[string]any
}

func (w *world) sigFor(what string) string {
	base := w.conc.Kind + "/" + w.conc.Mode + "/"
	if len(w.interf) == 0 {
		return base + what + "/captured-view-unchanged"
	}
	// the first change of the bytes the captured view points to (database pages not in the log, log
	// frames at the captured offsets): everything later (e.g. appends that refill a log that was cut)
	// is a consequence
	first := w.interf[0].Phase
	if windowPhases[first] {
		return base + "stale-view/captured-view-first-changed-between-WRITE-unlock-and-READ-locks"
	}
	return base + what + "/captured-view-first-changed-while-at:" + first
}

// judge evaluates the property on an attempt that has returned.
func (w *world) judge() outcome {
	s := w.s
	var out outcome
	if s.pn != nil {
		out.Returned = "panic"
		out.Violation = &violation{"C10.attempt-returns", w.conc.Kind + "/" + w.conc.Mode + "/panic", map[string]any{"panic": s.pn.Value, "stack": s.pn.Stack}}
		return out
	}
	if s.err != nil {
		out.Returned, out.Err = "error", s.err.Error()
		return out // attempts that fail are not violations
	}
	out.Returned = "ok"
	lock := w.lay.LockPgno()
	ps := w.lay.PageSize
	got := sim.Image{Pages: map[uint32][]byte{}}
	var txid, chk uint64
	detail := map[string]any{"config": w.conc.String()}
	raw := s.buf.Bytes()
	if w.conc.Kind == "snapshot" {
		w.evals += 3
		if err := ltx.NewDecoder(bytes.NewReader(raw)).Verify(); err != nil {
			detail["error"] = err.Error()
			out.Violation = &violation{"C10.snapshot-is-a-valid-file", w.conc.Kind + "/" + w.conc.Mode + "/ltx-invalid", detail}
			return out
		}
		dec := ltx.NewDecoder(bytes.NewReader(raw))
		if err := dec.DecodeHeader(); err != nil {
			core.Infra("decode verified snapshot: %v", err)
		}
		h := dec.Header()
		buf := make([]byte, h.PageSize)
		for {
			var ph ltx.PageHeader
			if err := dec.DecodePage(&ph, buf); err == io.EOF {
				break
			} else if err != nil {
				core.Infra("decode verified snapshot page: %v", err)
			}
			got.Pages[ph.Pgno] = append([]byte(nil), buf...)
		}
		_ = dec.Close()
		got.N = h.Commit
		txid, chk = uint64(h.MaxTXID), uint64(dec.Trailer().PostApplyChecksum)
		if h.MinTXID != 1 || h.PageSize != ps || s.hdr.MaxTXID != h.MaxTXID || s.trl.PostApplyChecksum != dec.Trailer().PostApplyChecksum {
			detail["header"] = fmt.Sprintf("%+v", h)
			detail["returned_header"] = fmt.Sprintf("%+v", s.hdr)
			out.Violation = &violation{"C10.snapshot-header", w.conc.Kind + "/" + w.conc.Mode + "/header", detail}
			return out
		}
	} else {
		txid, chk = uint64(s.pos.TXID), uint64(s.pos.PostApplyChecksum)
		got.N = uint32(len(raw) / int(ps))
		for r := uint32(1); r <= got.N; r++ {
			got.Pages[r] = raw[int(r-1)*int(ps) : int(r)*int(ps)]
		}
		detail["bytes"] = len(raw)
	}
	out.TXID = txid
	detail["reported_txid"] = txid
	detail["reported_checksum"] = fmt.Sprintf("%016x", chk)
	detail["changes_under_captured_view"] = w.interf
	detail["schedule"] = w.logString()

	// clause 1: the reported position is a committed position
	w.evals++
	ref, ok := w.refs[txid]
	if !ok {
		out.Violation = &violation{"C10.reports-a-committed-position", w.sigFor("unknown-position"), detail}
		return out
	}
	want := w.lay.ImageOf(ref.model)
	wantSum := want.Checksum(lock)
	gotModel, bad := w.lay.ModelOf(got)
	detail["delivered_model"] = gotModel
	detail["reference_model_of_reported_position"] = ref.model
	// which position, if any, is the delivered image?
	for t, r := range w.refs {
		if eq, _ := w.lay.ImageOf(r.model).Equal(got, lock); eq && t != txid {
			detail["delivered_is_image_of_txid"] = t
		}
	}
	// clause 2: size;  clause 3: every page image;  clause 4: checksums
	w.evals += 4
	if w.conc.Kind == "export" && len(raw)%int(ps) != 0 {
		out.Violation = &violation{"C10.size-is-of-reported-position", w.sigFor("size"), detail}
		return out
	}
	if got.N != want.N {
		detail["delivered_pages"], detail["reference_pages"] = got.N, want.N
		out.Violation = &violation{"C10.size-is-of-reported-position", w.sigFor("size"), detail}
		return out
	}
	if eq, why := want.Equal(got, lock); !eq {
		detail["why"] = why
		detail["undecodable_pages"] = bad
		out.Violation = &violation{"C10.pages-are-of-reported-position", w.sigFor("wrong-image"), detail}
		return out
	}
	if w.conc.Kind == "snapshot" && len(got.Pages) != int(want.N) {
		detail["page_count"] = len(got.Pages)
		out.Violation = &violation{"C10.pages-are-of-reported-position", w.sigFor("page-set"), detail}
		return out
	}
	if sum := got.Checksum(lock); sum != wantSum || chk != wantSum || chk != ref.chk {
		detail["from_scratch_delivered"] = fmt.Sprintf("%016x", sum)
		detail["from_scratch_reference"] = fmt.Sprintf("%016x", wantSum)
		detail["position_checksum_at_commit"] = fmt.Sprintf("%016x", ref.chk)
		out.Violation = &violation{"C10.checksum-is-of-reported-position", w.sigFor("checksum"), detail}
		return out
	}
	return out
}

// ---------------------------------------------------------------- running a schedule

var (
	curMu     sync.Mutex
	curWorlds = map[*sim.Node]*atomic.Pointer[world]{}
)

// currentWorld returns the per-node slot naming the replay that owns the node's OS hook; the hook
// turns the attempt's own file opens into gates.
func currentWorld(node *sim.Node) *atomic.Pointer[world] {
	curMu.Lock()
	defer curMu.Unlock()
	if p := curWorlds[node]; p != nil {
		return p
	}
	p := &atomic.Pointer[world]{}
	curWorlds[node] = p
	node.OS.Before = func(ev sim.OSEvent) error {
		if ev.Call != "Open" || !(strings.HasPrefix(ev.Label, "WRITESNAPSHOT:") || strings.HasPrefix(ev.Label, "EXPORT:")) {
			return nil
		}
		if w := p.Load(); w != nil {
			if s := w.s; s != nil && !s.finished.Load() && curGID() == s.gid.Load() {
				s.gate("OPEN", "OPEN:"+ev.Label[strings.IndexByte(ev.Label, ':')+1:])
			}
		}
		return nil
	}
	return p
}

type job struct {
	Conc  Conc   `json:"conc"`
	N0    int    `json:"n0"`
	Im    []int  `json:"im"`
	Trace *Trace `json:"trace,omitempty"` // TLC schedule (nil = randomised)
	Seed  int64  `json:"seed,omitempty"`  // randomised schedule
	MaxPg int    `json:"max_pg,omitempty"`
	Src   string `json:"src"`
	Sched []Tok  `json:"sched,omitempty"` // realised schedule of a randomised run (for -replay)
}

type result struct {
	job     job
	out     outcome
	exact   bool
	why     string
	evals   int
	nonconf []string
	anomaly string
	interf  int
	sched   []Tok
	gates   map[string]int
	commits int
	predOK  bool
}

func runJob(node *sim.Node, name string, j job) result {
	w := newWorld(node, name, j.Conc)
	res := result{job: j}
	defer w.close()
	cur := currentWorld(node)
	cur.Store(w)
	defer cur.Store(nil)
	if err := w.setup(j.N0, j.Im); err != nil {
		core.Infra("setup of %s: %v", j.Conc, err)
	}
	switch {
	case j.Trace != nil:
		for _, t := range j.Trace.H[1:] {
			w.exec(t)
			if w.anomaly != "" {
				break
			}
		}
	case j.Sched != nil:
		for _, t := range j.Sched {
			w.exec(t)
		}
	default:
		w.random(j)
	}
	w.finish()
	res.out = w.judge()
	res.exact, res.why, res.evals, res.nonconf, res.anomaly = w.exact, w.inexactAt, w.evals, w.nonconf, w.anomaly
	res.interf, res.sched, res.gates = len(w.interf), w.log, w.gates
	res.commits = int(w.lastTXID - w.baseTXID)
	// the specification's prediction of the outcome (R3)
	if j.Trace != nil && w.exact && w.anomaly == "" {
		r := j.Trace.R
		res.predOK = true
		if (r.Res == "ok") != (res.out.Returned == "ok") {
			res.predOK = false
			res.nonconf = append(res.nonconf, fmt.Sprintf("attempt returned %s (%s), specification %s", res.out.Returned, res.out.Err, r.Res))
		} else if r.Res == "ok" {
			if int(res.out.TXID-w.baseTXID) != r.T {
				res.predOK = false
				res.nonconf = append(res.nonconf, fmt.Sprintf("attempt reports position +%d, specification +%d", res.out.TXID-w.baseTXID, r.T))
			}
			if (res.out.Violation != nil) != r.Bad {
				res.predOK = false
				res.nonconf = append(res.nonconf, fmt.Sprintf("monitor failed=%v, specification predicts bad=%v", res.out.Violation != nil, r.Bad))
			}
		}
	}
	return res
}

// ---------------------------------------------------------------- randomised schedules

func (w *world) random(j job) {
	rnd := rand.New(rand.NewSource(j.Seed))
	maxPg := j.MaxPg
	v := 2
	txLeft := 2 + rnd.Intn(3)
	ckLeft := rnd.Intn(3)
	lLeft := rnd.Intn(3)
	sDelay := rnd.Intn(12) // steps of the others before S starts
	// with some probability S is held at one gate until the others have done a lot
	holdAt := ""
	if rnd.Intn(3) == 0 {
		holdAt = []string{"WRITE-", "CKPT+", "READ0+", "READ4+", "PENDING-", "WRITE+", "OPEN:DB", "PAGE:1"}[rnd.Intn(8)]
	}
	holdFor := 6 + rnd.Intn(14)
	for n := 0; n < 400; n++ {
		if w.anomaly != "" {
			return
		}
		s := w.s
		if s != nil && s.done {
			return
		}
		sCan := n >= sDelay
		if s != nil && s.blocked && w.lockChanges() == s.blockedAt {
			sCan = false // still blocked: nothing changed
		}
		if s != nil && holdAt != "" && s.phase == holdAt && holdFor > 0 {
			holdFor--
			sCan = false
		}
		var cands []Tok
		if sCan {
			for i := 0; i < 3; i++ {
				cands = append(cands, Tok{A: "S", Op: "step"})
			}
		}
		wr := "W"
		if w.conc.Mode == "rb" {
			wr = "J"
		}
		if w.wpc != "idle" {
			cands = append(cands, Tok{A: wr, Op: "next"}, Tok{A: wr, Op: "next"})
		} else if txLeft > 0 {
			cur := len(w.pg.Ref)
			ns := cur
			if cur < maxPg && rnd.Intn(4) == 0 {
				ns = cur + 1
			}
			m := []int{1}
			for q := 2; q <= ns; q++ {
				if q > cur || rnd.Intn(2) == 0 {
					m = append(m, q)
				}
			}
			out := "commit"
			if ns == cur && rnd.Intn(6) == 0 {
				out = "rollback"
			}
			g, _ := json.Marshal(map[string]any{"M": m, "ns": ns, "out": out, "v": v + 1})
			cands = append(cands, Tok{A: wr, Op: "begin", G: g})
		}
		if w.conc.Mode == "wal" {
			if w.cpc != "idle" {
				op := "next"
				if rnd.Intn(8) == 0 {
					op = "end"
				}
				cands = append(cands, Tok{A: "C", Op: op})
			} else if ckLeft > 0 {
				kind := "PASSIVE"
				if rnd.Intn(2) == 0 {
					kind = "TRUNCATE"
				}
				g, _ := json.Marshal(map[string]any{"kind": kind})
				cands = append(cands, Tok{A: "C", Op: "begin", G: g})
			}
			if lLeft > 0 {
				cands = append(cands, Tok{A: "L", Op: "ckpt"})
			}
		}
		if len(cands) == 0 {
			return
		}
		t := cands[rnd.Intn(len(cands))]
		switch {
		case t.A == "L":
			lLeft--
		case t.A == "C" && t.Op == "begin":
			ckLeft--
		case t.Op == "begin":
			txLeft--
			v++
		}
		w.exec(t)
	}
}

// ---------------------------------------------------------------- main

type stage struct {
	name     string
	cfg      string
	subst    [][2]string // substitutions applied to the cfg on disk (documented in the evidence)
	kind     string
	mode     string
	mustHold bool // OnePosition is an invariant of this cfg and must hold
	expectV  bool // lead / relevance cfg: OnePosition is expected to be violated
	keep     int  // schedules kept for replay (0 = none emitted)
	timeout  time.Duration
}

func deriveCfg(name string, subst [][2]string) (string, string) {
	b, err := os.ReadFile(filepath.Join(core.SpecDir(), name))
	if err != nil {
		core.Infra("read cfg: %v", err)
	}
	s := string(b)
	tag := ""
	for _, kv := range subst {
		if !strings.Contains(s, kv[0]) {
			core.Infra("cfg %s has no %q", name, kv[0])
		}
		s = strings.Replace(s, kv[0], kv[1], 1)
		tag += "_" + strings.NewReplacer(" ", "", "=", "", "INVARIANTS", "inv").Replace(kv[1])
	}
	if len(tag) > 60 {
		tag = tag[:60]
	}
	return strings.TrimSuffix(name, ".cfg") + "_x" + tag + ".cfg", s
}

// interferenceClass summarises WHERE the other processes act relative to the attempt after it has
// fixed its view: the set of (last gate of S, process, operation). Schedules are sampled evenly over
// these classes so that rare placements (e.g. a log restart while pages are being read) are replayed
// even when only part of TLC's output is kept.
func interferenceClass(t *Trace) string {
	set := map[string]bool{}
	phase, captured := "", false
	for _, k := range t.H {
		if k.A == "S" {
			if k.Op == "cap" {
				captured = true
				continue
			}
			phase = k.Op
			continue
		}
		if k.A == "I" || !captured {
			continue
		}
		set[phase+"/"+k.A+":"+k.Op] = true
	}
	keys := make([]string, 0, len(set))
	for k := range set {
		keys = append(keys, k)
	}
	sort.Strings(keys)
	c := strings.Join(keys, " ")
	if t.R.Bad {
		c = "BAD " + c
	}
	return c + " -> " + t.R.Res
}

func collect(rep *core.Report, st stage, seed int64) []Trace {
	var mu sync.Mutex
	classes := map[string][]Trace{}
	seenC := map[string]int{}
	seenBad, seenAll := 0, 0
	rnd := rand.New(rand.NewSource(seed))
	// emitting stages run single-threaded so that the printed paths, their order and hence the sample
	// replayed for a given seed are reproducible
	opts := core.TLCOpts{Module: "Snapshot", Cfg: st.cfg, Workers: 4, Timeout: st.timeout}
	if st.keep > 0 {
		opts.Workers = 1
	}
	if len(st.subst) > 0 {
		n, content := deriveCfg(st.cfg, st.subst)
		opts.Cfg = n
		opts.ExtraFiles = map[string]string{n: content}
	}
	const perClass = 40
	opts.OnLine = func(tag string, payload json.RawMessage) {
		if tag != "TRACE" || st.keep == 0 {
			return
		}
		var t Trace
		if err := json.Unmarshal(payload, &t); err != nil {
			core.Infra("bad TRACE line: %v", err)
		}
		c := interferenceClass(&t)
		mu.Lock()
		defer mu.Unlock()
		seenAll++
		if t.R.Bad {
			seenBad++
		}
		seenC[c]++
		if l := classes[c]; len(l) < perClass {
			classes[c] = append(l, t)
		} else if k := rnd.Intn(seenC[c]); k < perClass {
			l[k] = t
		}
	}
	core.Beat("tlc")
	stop := make(chan struct{})
	go func() {
		for {
			select {
			case <-stop:
				return
			case <-time.After(5 * time.Second):
				core.Beat("tlc")
			}
		}
	}()
	res, err := core.RunTLC(opts)
	close(stop)
	core.Beat("harness")
	if err != nil {
		core.Infra("tlc %s: %v", st.name, err)
	}
	switch {
	case st.expectV:
		// R2: a counterexample on the model alone is a lead; it is reported as evidence, the verdict
		// comes from replaying the emitted counterexample schedules on the real code
		if res.Violation != "OnePosition" {
			core.Infra("relevance configuration %s: expected TLC to violate OnePosition, got %s\n%s", st.name, res.Describe(), res.OutputTail)
		}
		l, _ := rep.Extra["relevance_cfgs_violated_as_expected"].([]string)
		rep.Extra["relevance_cfgs_violated_as_expected"] = append(l, st.name)
	case !res.OK():
		core.Infra("model checking stage %s failed (a model problem, not a verdict about the code): %s\n%s\n%s", st.name, res.Describe(), res.ErrorText, res.OutputTail)
	}
	rep.AddTLC(st.name, res)
	var out []Trace
	if st.keep > 0 {
		// round-robin over the classes (sorted for determinism) until `keep` schedules are chosen
		names := make([]string, 0, len(classes))
		for c := range classes {
			names = append(names, c)
		}
		sort.Strings(names)
		rnd.Shuffle(len(names), func(a, b int) { names[a], names[b] = names[b], names[a] })
		for round := 0; len(out) < st.keep; round++ {
			added := false
			for _, c := range names {
				if l := classes[c]; round < len(l) && len(out) < st.keep {
					out = append(out, l[round])
					added = true
				}
			}
			if !added {
				break
			}
		}
		rep.Note("stage %s: TLC emitted %d schedules (%d of them model-level counterexamples) in %d interference classes; %d kept for replay", st.name, seenAll, seenBad, len(classes), len(out))
		l, _ := rep.Extra["model_counterexample_schedules"].(map[string]int)
		if l == nil {
			l = map[string]int{}
		}
		l[st.name] = seenBad
		rep.Extra["model_counterexample_schedules"] = l
	}
	return out
}

var concs = []Conc{
	{Layout: "L0", PageSize: 512, Sector: 512},
	{Layout: "L0", PageSize: 4096, Sector: 4096, BigEndian: true},
	{Layout: "L0", PageSize: 1024, Sector: 512, BigEndian: true},
	{Layout: "L1", PageSize: 512, Sector: 512},
	{Layout: "L0", PageSize: 512, Sector: 512},
	{Layout: "L0", PageSize: 2048, Sector: 512},
}

type tally struct {
	mu        sync.Mutex
	attempts  map[string]int
	okN       map[string]int
	errN      map[string]int
	errKinds  map[string]int
	exact     int
	inexact   map[string]int
	predicted int
	anomalies map[string]int
	interfOK  int
	gates     map[string]int
	known     int
}

func main() {
	args := core.ParseArgs()
	rep := core.NewReport("C10", "model_checking", args)
	rep.Rule = "one case = one (schedule, concretisation) of a real WriteSnapshotTo/Export attempt against the writer and checkpointers, stopped at lock-state changes, file opens, destination writes and failed blocking lock attempts; schedules are the distinct final states of Snapshot.tla as printed by TLC plus randomised gate orders; distinct = (kind, mode, realised gate-level schedule, concretisation); non-trivial = the attempt returned success AND at least one transaction committed or checkpoint ran between its first and last gate"
	rep.Assumptions = []string{
		"SQLite's locking protocol is represented by the writer/checkpointer processes of Snapshot.tla and sim.Pager (client checkpoints: CKPT, READ0 exclusive while copying; log restart/truncation under READ1..4 exclusive)",
		"schedules are driven at gate granularity on the real code; interleavings inside one gate interval are covered by the model only",
		"CRC64 collisions ignored", "READ1..READ4 are one lock in the model"}
	defer core.Cleanup()
	core.Watchdog(150*time.Second, func(label string, since time.Duration) {
		core.Infra("no progress for %s while %s", since, label)
	})

	tl := &tally{attempts: map[string]int{}, okN: map[string]int{}, errN: map[string]int{}, errKinds: map[string]int{}, inexact: map[string]int{}, anomalies: map[string]int{}, gates: map[string]int{}}

	if args.Replay != "" {
		replayFile(rep, tl, args.Replay)
		rep.Finish()
	}

	q := args.Quick()
	sig := [][2]string{{"TrackSig = FALSE", "TrackSig = TRUE"}}
	grow := [][2]string{{"MaxPg = 2", "MaxPg = 3"}}
	var nosig [][2]string
	stages := []stage{
		{name: "wal-snapshot", cfg: "MC_Snapshot_wal_snap.cfg", subst: core.Pick(args, nosig, sig), kind: "snapshot", mode: "wal", mustHold: true, keep: core.Pick(args, 1400, 9000), timeout: 15 * time.Minute},
		{name: "wal-export-lead", cfg: "MC_Snapshot_wal_export_lead.cfg", kind: "export", mode: "wal", expectV: true, timeout: 5 * time.Minute},
		{name: "wal-export", cfg: "MC_Snapshot_wal_export.cfg", subst: core.Pick(args, nosig, sig), kind: "export", mode: "wal", keep: core.Pick(args, 1300, 9000), timeout: 15 * time.Minute},
		{name: "rb-snapshot", cfg: "MC_Snapshot_rb_snap.cfg", kind: "snapshot", mode: "rb", mustHold: true, keep: 400, timeout: 5 * time.Minute},
		{name: "rb-export", cfg: "MC_Snapshot_rb_export.cfg", kind: "export", mode: "rb", mustHold: true, keep: 400, timeout: 5 * time.Minute},
	}
	if !q {
		stages = append(stages,
			stage{name: "wal-snapshot-grow", cfg: "MC_Snapshot_wal_snap.cfg", subst: grow, kind: "snapshot", mode: "wal", mustHold: true, keep: 3000, timeout: 15 * time.Minute},
			stage{name: "wal-export-grow", cfg: "MC_Snapshot_wal_export.cfg", subst: grow, kind: "export", mode: "wal", keep: 3000, timeout: 15 * time.Minute},
			stage{name: "wal-export-repaired", cfg: "MC_Snapshot_wal_export_fix.cfg", kind: "export", mode: "wal", mustHold: true, timeout: 10 * time.Minute},
			stage{name: "rel-repaired-but-live-offsets", cfg: "MC_Snapshot_wal_export_fix.cfg", subst: [][2]string{{"CopyOffsets = TRUE", "CopyOffsets = FALSE"}, {"INVARIANTS TypeOK ViewIsRef", "INVARIANTS TypeOK"}}, expectV: true, timeout: 10 * time.Minute},
			stage{name: "rel-repaired-but-no-read-locks", cfg: "MC_Snapshot_wal_export_fix.cfg", subst: [][2]string{{"TakeRead = TRUE", "TakeRead = FALSE"}}, expectV: true, timeout: 10 * time.Minute},
		)
	}
	var jobs []job
	for si, st := range stages {
		traces := collect(rep, st, args.Seed*7919+int64(si))
		for i := range traces {
			tr := &traces[i]
			var g struct {
				Im []int `json:"im"`
				N  int   `json:"n"`
			}
			if len(tr.H) == 0 || tr.H[0].A != "I" || json.Unmarshal(tr.H[0].G, &g) != nil {
				core.Infra("schedule without init token")
			}
			sort.Ints(g.Im)
			c := concs[(i+int(args.Seed))%len(concs)]
			c.Kind, c.Mode = st.kind, st.mode
			jobs = append(jobs, job{Conc: c, N0: g.N, Im: g.Im, Trace: tr, Src: st.name})
		}
	}
	nTLC := len(jobs)
	// randomised gate orders
	nRand := core.Pick(args, 1500, 30000)
	rnd := rand.New(rand.NewSource(args.Seed))
	for i := 0; i < nRand; i++ {
		c := concs[rnd.Intn(len(concs))]
		c.Kind = []string{"snapshot", "export"}[rnd.Intn(2)]
		c.Mode = []string{"wal", "wal", "wal", "rb"}[rnd.Intn(4)]
		c.Compress = rnd.Intn(3) == 0
		n0 := 2 + rnd.Intn(2)
		var im []int
		if c.Mode == "wal" && rnd.Intn(3) > 0 {
			im = []int{1}
			for p := 2; p <= n0; p++ {
				if rnd.Intn(2) == 0 {
					im = append(im, p)
				}
			}
		}
		jobs = append(jobs, job{Conc: c, N0: n0, Im: im, Seed: rnd.Int63(), MaxPg: n0 + 1 + rnd.Intn(2), Src: "random"})
	}
	rep.Extra["schedules_from_tlc"] = nTLC
	rep.Extra["schedules_randomised"] = nRand

	runAll(rep, tl, jobs)

	rep.Extra["attempts"] = tl.attempts
	rep.Extra["attempts_returned_ok"] = tl.okN
	rep.Extra["attempts_returned_error"] = tl.errN
	rep.Extra["attempt_error_kinds"] = tl.errKinds
	rep.Extra["tlc_schedules_replayed_exactly"] = tl.exact
	rep.Extra["tlc_schedules_outcome_as_predicted"] = tl.predicted
	rep.Extra["tlc_schedules_replayed_inexactly"] = tl.inexact
	rep.Extra["ok_attempts_with_file_changes_after_capture"] = tl.interfOK
	rep.Extra["gates_passed"] = tl.gates
	rep.Extra["known_finding_reproductions"] = tl.known
	if len(tl.anomalies) > 0 {
		rep.Extra["schedules_abandoned_for_anomalies_of_other_properties"] = tl.anomalies
	}
	if tl.okN["snapshot/wal"] == 0 || tl.okN["export/wal"] == 0 || tl.okN["snapshot/rb"] == 0 || tl.okN["export/rb"] == 0 {
		core.Infra("vacuous run: no successful attempt in some kind/mode: %v", tl.okN)
	}
	// failure paths (spec/Faults.tla): every call of the operation through the OS interface fails once
	faults.Run(rep, args, faults.Select{Ops: []string{"import", "halt", "recover"}, Monitors: []string{"export"}})
	rep.Finish()
}

func runAll(rep *core.Report, tl *tally, jobs []job) {
	workers := runtime.NumCPU()
	if workers > 8 {
		workers = 8
	}
	ch := make(chan int)
	var wg sync.WaitGroup
	for wk := 0; wk < workers; wk++ {
		wg.Add(1)
		go func(wk int) {
			defer wg.Done()
			nodes := map[bool]*sim.Node{}
			used := map[bool]int{}
			dirs := map[bool]string{}
			get := func(compress bool) *sim.Node {
				if n := nodes[compress]; n != nil && used[compress] < 250 {
					used[compress]++
					return n
				}
				if n := nodes[compress]; n != nil {
					n.Close()
					_ = os.RemoveAll(dirs[compress])
				}
				dir := core.Scratch("node")
				n, err := sim.OpenNode(sim.NodeOpts{Dir: dir, Primary: true, Compress: compress})
				if err != nil {
					core.Infra("open node: %v", err)
				}
				nodes[compress], used[compress], dirs[compress] = n, 1, dir
				return n
			}
			for i := range ch {
				j := jobs[i]
				node := get(j.Conc.Compress)
				r := runJob(node, fmt.Sprintf("d%06d", i), j)
				record(rep, tl, r)
			}
			for c, n := range nodes {
				n.Close()
				_ = os.RemoveAll(dirs[c])
			}
		}(wk)
	}
	for i := range jobs {
		ch <- i
	}
	close(ch)
	wg.Wait()
}

func errKind(e string) string {
	for _, k := range []string{"snapshot checksum mismatch", "read wal page", "read database page", "open wal file", "open database file", "acquire", "encode"} {
		if strings.Contains(e, k) {
			return k
		}
	}
	if len(e) > 40 {
		e = e[:40]
	}
	return e
}

func schedKey(s []Tok) string {
	var sb strings.Builder
	for _, t := range s {
		sb.WriteString(t.A)
		sb.WriteString(t.Op)
		if t.Op == "begin" {
			sb.Write(t.G)
		}
		sb.WriteByte(' ')
	}
	return sb.String()
}

func record(rep *core.Report, tl *tally, r result) {
	km := r.job.Conc.Kind + "/" + r.job.Conc.Mode
	tl.mu.Lock()
	defer tl.mu.Unlock()
	rep.Eval(r.evals + 1)
	rep.TracesValidated++
	tl.attempts[km]++
	for k, v := range r.gates {
		tl.gates[k] += v
	}
	if r.anomaly != "" {
		tl.anomalies[r.anomaly]++
		return // the reference semantics of this run are in doubt (another property's concern); not judged
	}
	switch r.out.Returned {
	case "ok":
		tl.okN[km]++
		if r.interf > 0 {
			tl.interfOK++
		}
	case "error":
		tl.errN[km]++
		tl.errKinds[km+": "+errKind(r.out.Err)]++
	}
	if r.job.Trace != nil {
		if r.exact {
			tl.exact++
			if r.predOK {
				tl.predicted++
			}
		} else {
			tl.inexact[r.why]++
		}
	}
	for _, nc := range r.nonconf {
		rep.Nonconf("[%s %s] %s", r.job.Src, r.job.Conc, nc)
	}
	nontrivial := r.out.Returned == "ok" && r.commits+r.interf > 0
	rep.Case(km+"|"+r.job.Conc.String()+"|"+schedKey(r.sched), nontrivial)
	if v := r.out.Violation; v != nil {
		rj := r.job
		rj.Trace = nil
		rj.Sched = r.sched
		before := rep.ViolationCount()
		rep.Violate(v.Monitor, v.Sig, v.Detail, map[string]any{"job": rj})
		if rep.ViolationCount() == before {
			tl.known++
		}
	}
	if r.out.Returned == "ok" && r.interf > 0 || r.job.Src == "random" && r.out.Returned == "ok" && r.commits > 1 {
		rep.Sample(map[string]any{"source": r.job.Src, "config": r.job.Conc.String(), "schedule": schedString(r.sched), "returned": r.out.Returned, "reported_txid": r.out.TXID})
	}
}

func schedString(s []Tok) string {
	var parts []string
	for _, t := range s {
		x := t.A + ":" + t.Op
		if t.Op == "begin" {
			x += string(t.G)
		}
		parts = append(parts, x)
	}
	return strings.Join(parts, " ")
}

func replayFile(rep *core.Report, tl *tally, path string) {
	b, err := os.ReadFile(path)
	if err != nil {
		core.Infra("read replay: %v", err)
	}
	var f struct {
		Replay struct {
			Job job `json:"job"`
		} `json:"replay"`
	}
	if err := json.Unmarshal(b, &f); err != nil {
		core.Infra("parse replay: %v", err)
	}
	j := f.Replay.Job
	dir := core.Scratch("node")
	node, err := sim.OpenNode(sim.NodeOpts{Dir: dir, Primary: true, Compress: j.Conc.Compress})
	if err != nil {
		core.Infra("open node: %v", err)
	}
	defer node.Close()
	r := runJob(node, "replay", j)
	fmt.Printf("replayed %s: %s\nreturned=%s err=%q reported_txid=%d interference=%d\n", j.Conc, schedString(r.sched), r.out.Returned, r.out.Err, r.out.TXID, r.interf)
	if r.out.Violation != nil {
		d, _ := json.MarshalIndent(r.out.Violation.Detail, "", " ")
		fmt.Printf("monitor %s sig %s\n%s\n", r.out.Violation.Monitor, r.out.Violation.Sig, d)
	}
	record(rep, tl, r)
}
