package main

import (
	"fmt"
	"os"
	"strings"
	"sync"
	"sync/atomic"
	"syscall"
	"time"

	"github.com/superfly/litefs"
	"github.com/superfly/ltx"

	"github.com/superfly/litefs/verifharness/core"
	"github.com/superfly/litefs/verifharness/sim"
)

func commitJ(pg *sim.Pager, pl sim.Plan) error {
	if err := pg.BeginJ(pl); err != nil {
		return err
	}
	for _, f := range []func() error{pg.JCreate, pg.JSync} {
		if err := f(); err != nil {
			return err
		}
	}
	for _, q := range pl.M {
		if err := pg.JPage(q); err != nil {
			return err
		}
	}
	err := pg.JFinal()
	pg.EndJ()
	return err
}

// snapshotCleanupFails: a former primary A holds a transaction (4F) nobody received; the new primary B has its
// own transaction 4. A is resnapshotted by B while the removal of A's old transaction files fails (disk
// errors on unlink); later A is primary again and a replica R that sat at the branch point (3) reconnects.
// Whatever R applies must be on its primary's history: (4F) is not.
func snapshotCleanupFails(rep *core.Report) {
	key := "snapshot-cleanup-fails"
	core.Beat("real:c06:" + key)
	defer core.Beat("harness")
	dir := core.Scratch("c06cleanup")
	defer os.RemoveAll(dir)
	cl := sim.NewCluster(dir)
	defer func() { _ = core.Try(cl.Close) }()
	must := func(err error, what string) {
		if err != nil {
			core.Infra("%s: %s: %v", key, what, err)
		}
	}
	var faultOn atomic.Bool
	var injected atomic.Int32
	A, err := cl.Start("A", sim.ClusterNodeOpts{Candidate: true, Configure: func(s *litefs.Store) {
		s.OS.(*sim.OSWrap).Before = func(ev sim.OSEvent) error {
			if faultOn.Load() && ev.Call == "Remove" && strings.HasPrefix(ev.Label, "REMOVEFILESEXCEPT") {
				injected.Add(1)
				return &os.PathError{Op: "remove", Path: ev.Path, Err: syscall.ENOSPC}
			}
			return nil
		}
	}})
	must(err, "start A")
	B, err := cl.Start("B", sim.ClusterNodeOpts{Candidate: true})
	must(err, "start B")
	R, err := cl.Start("R", sim.ClusterNodeOpts{})
	must(err, "start R")
	var rmu sync.Mutex
	var rpos []ltx.Pos
	R.Cache.OnPos = func(db *litefs.DB) {
		rmu.Lock()
		rpos = append(rpos, db.Pos())
		rmu.Unlock()
	}
	must(cl.Elect("A", 15*time.Second), "elect A")
	l := sim.L0(4096)
	pgA := sim.NewPager(A.Connect("db", 11), l, sim.PagerOpts{Sector: 512, Busy: 2 * time.Second})
	for v := 1; v <= 3; v++ {
		must(commitJ(pgA, sim.Plan{Kind: "j", Ns: 2, M: []int{1, 2}, Out: "commit", Fin: "DELETE", V: v}), fmt.Sprintf("tx%d on A", v))
	}
	p3 := A.Store.DB("db").Pos()
	must(cl.WaitPos("B", "db", p3, 15*time.Second), "B catches up")
	must(cl.WaitPos("R", "db", p3, 15*time.Second), "R catches up")
	B.Client.Block()
	R.Client.Block()
	must(commitJ(pgA, sim.Plan{Kind: "j", Ns: 2, M: []int{1, 2}, Out: "commit", Fin: "DELETE", V: 40}), "tx4F on A")
	pgA.C.Close()
	// B takes over and writes its own transaction 4
	A.Client.Block()
	must(cl.Elect("B", 20*time.Second), "elect B")
	pgB := sim.NewPager(B.Connect("db", 12), l, sim.PagerOpts{Sector: 512, Busy: 2 * time.Second})
	pgB.Ref = []sim.Content{{V: 3, Sz: 2}, {V: 3}}
	must(commitJ(pgB, sim.Plan{Kind: "j", Ns: 2, M: []int{1, 2}, Out: "commit", Fin: "DELETE", V: 41}), "tx4C on B")
	pgB.C.Close()
	p4c := B.Store.DB("db").Pos()
	// A comes back as a replica of B; unlinking its old files fails for a while
	faultOn.Store(true)
	A.Client.Unblock()
	deadline := time.Now().Add(4 * time.Second)
	for time.Now().Before(deadline) && A.Store.DB("db").Pos() != p4c {
		time.Sleep(5 * time.Millisecond)
	}
	faultOn.Store(false)
	must(cl.WaitPos("A", "db", p4c, 20*time.Second), "A is resnapshotted")
	rep.Case(key, injected.Load() > 0)
	rep.Eval(2)
	chainA := sim.ChainProblems(A.DBDir("db"), uint64(p4c.TXID), uint64(p4c.PostApplyChecksum))
	// A becomes primary again; R, still at the branch point, reconnects
	rmu.Lock()
	rpos = nil
	rmu.Unlock()
	B.Client.Block()
	must(cl.Elect("A", 20*time.Second), "elect A again")
	R.Client.Unblock()
	must(cl.WaitPos("R", "db", A.Store.DB("db").Pos(), 20*time.Second), "R catches up with A")
	time.Sleep(50 * time.Millisecond)
	rmu.Lock()
	seen := append([]ltx.Pos(nil), rpos...)
	rmu.Unlock()
	onHistory := map[ltx.Pos]bool{p3: true, p4c: true, A.Store.DB("db").Pos(): true}
	for _, p := range seen {
		if !onHistory[p] {
			rep.Violate("C06.only-the-primarys-history", "replica-applied-a-transaction-off-the-primarys-history/after-failed-cleanup", map[string]any{
				"what":                 "a replica at the branch point, connected to a primary that had been resnapshotted while the removal of its old transaction files failed, applied a transaction that is not on that primary's history",
				"replica_positions":    fmt.Sprint(seen),
				"primary_history":      fmt.Sprint([]ltx.Pos{p3, p4c}),
				"unlink_failures":      injected.Load(),
				"log_of_the_primary":   chainA,
				"off_history_position": p.String()}, map[string]any{"stage": key})
			return
		}
	}
}
