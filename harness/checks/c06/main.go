// Check C06: divergent or stale replicas are resnapshotted, never patched.
package main

import (
	"os"
	"time"

	"github.com/superfly/litefs/verifharness/core"
	"github.com/superfly/litefs/verifharness/faults"
	"github.com/superfly/litefs/verifharness/repl"
)

func main() {
	args := core.ParseArgs()
	rep := core.NewReport("C06", "model_checking", args)
	rep.Rule = "(1) control scripts of Replication.tla in which a node leaves the primary's history (former primary with unreplicated writes, fork at equal TXID, node ahead, node behind a retention cut, node holding only a snapshot, empty node; all orders of primary change and reconnect within the bounds) executed on a real 3-node cluster; (2) offered files: transaction files with wrong min TXID, wrong pre-checksum, duplicate, truncated or corrupt body fed to a replica through a harness-controlled stream and to a primary's /tx endpoint; a case = (script or offered file, concretisation); non-trivial = a position change was observed on a non-primary node / the file was processed"
	rep.Assumptions = []string{"3 nodes, one database", "CRC64 collisions ignored"}
	defer core.Cleanup()
	if os.Getenv("C06_DIRECTED") == "offered" { // development aid (never commit its evidence)
		repl.OfferedFiles(rep, args)
		rep.Finish()
	}
	if os.Getenv("C06_DIRECTED") == "cleanup" { // development aid (never commit its evidence)
		snapshotCleanupFails(rep)
		rep.Finish()
	}
	repl.Main(rep, args, map[string]bool{"C06": true, "C09": true, "C01": true}, []repl.Stage{
		{Name: "repl-forks-2n-3tx-2faults", Cfg: "MC_Repl_fork2.cfg", Timeout: 10 * time.Minute, MaxKeep: 0, Forks: true},
		{Name: core.Pick(args, "repl-3n-2tx-2faults", "repl-3n-3tx-2faults"), Cfg: core.Pick(args, "MC_Repl_quick.cfg", "MC_Repl_fork.cfg"), Timeout: 15 * time.Minute, MaxKeep: core.Pick(args, 40, 500), Need: "Demote"},
	})
	repl.OfferedFiles(rep, args)
	snapshotCleanupFails(rep)
	faults.Run(rep, args, faults.Select{Ops: []string{"replica_snapshot"}, Monitors: []string{"replica-image"}, Kinds: faults.LocalKinds})
	rep.Finish()
}
