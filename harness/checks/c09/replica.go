package main

import (
	"context"
	"fmt"
	"path/filepath"
	"time"

	"github.com/superfly/litefs"
	"github.com/superfly/litefs/verifharness/core"
	"github.com/superfly/litefs/verifharness/sim"
	"github.com/superfly/ltx"
)

// replicaRetention: "when a backup service is configured, retention never removes a file the service has not
// yet confirmed" on every node that runs retention, not only on the node that is primary at the moment of the
// sweep: replicas learn the confirmed position from the high-water-mark frames of the stream and keep the
// unconfirmed files (they may be the next primary). Two nodes share one file backup service; the primary
// commits, syncs part of its log, commits more; then the retention sweep runs on both nodes.
func replicaRetention(rep *core.Report, seed int64) {
	for _, synced := range []int{1, 2, 3} {
		core.Beat("real:c09:replica-retention")
		dir := core.Scratch("c09r")
		backup := litefs.NewFileBackupClient(filepath.Join(dir, "backup"))
		if err := backup.Open(); err != nil {
			core.Infra("open backup: %v", err)
		}
		cfg := func(s *litefs.Store) {
			s.BackupClient = backup
			s.BackupDelay = 0 // passes are driven with Store.SyncBackup
			s.BackupFullSyncInterval = 0
			s.Retention = time.Hour // (snapshot streaming derives its time-out from it; shortened right before the sweep)
			s.RetentionMonitorInterval = 24 * time.Hour
		}
		cl := sim.NewCluster(filepath.Join(dir, "c"))
		cl.Lease.AllowOnly()
		p, err := cl.Start("p", sim.ClusterNodeOpts{Candidate: true, Configure: cfg})
		if err != nil {
			core.Infra("start p: %v", err)
		}
		if err := cl.Elect("p", 20*time.Second); err != nil {
			core.Infra("elect: %v", err)
		}
		r, err := cl.Start("r", sim.ClusterNodeOpts{Candidate: true, Configure: cfg})
		if err != nil {
			core.Infra("start r: %v", err)
		}
		l := sim.L0(512)
		conn := p.Connect("db", 21)
		pg := sim.NewPager(conn, l, sim.PagerOpts{Sector: 512, Busy: 5 * time.Second})
		commit := func(v int) {
			pl := sim.Plan{Kind: "j", Ns: 3, M: []int{1, 2 + v%2}, Out: "commit", Fin: "DELETE", V: v}
			if v == 1 {
				pl.M = []int{1, 2, 3}
			}
			err := pg.BeginJ(pl)
			for _, f := range []func() error{pg.JCreate, pg.JSync} {
				if err == nil {
					err = f()
				}
			}
			for _, q := range pl.M {
				if err == nil {
					err = pg.JPage(q)
				}
			}
			if err == nil {
				err = pg.JFinal()
			}
			pg.EndJ()
			if err != nil {
				core.Infra("commit %d: %v", v, err)
			}
		}
		total := synced + 3
		for v := 1; v <= synced; v++ {
			commit(v)
		}
		if err := p.Store.SyncBackup(context.Background()); err != nil {
			core.Infra("sync: %v", err)
		}
		for v := synced + 1; v <= total; v++ {
			commit(v)
		}
		pdb := p.Store.DB("db")
		if err := cl.WaitPos("r", "db", pdb.Pos(), 30*time.Second); err != nil {
			core.Infra("replica did not catch up: %v", err)
		}
		rdb := r.Store.DB("db")
		// the replica has heard the confirmed position with the last transaction it received
		for t0 := time.Now(); rdb.HWM() != pdb.HWM() && time.Since(t0) < 10*time.Second; time.Sleep(time.Millisecond) {
		}
		time.Sleep(5 * time.Millisecond) // every file is older than the retention period
		for _, nd := range []struct {
			name string
			n    *sim.CNode
		}{{"primary", p}, {"replica", r}} {
			db := nd.n.Store.DB("db")
			hwm := uint64(db.HWM())
			var serr error
			nd.n.Store.Retention = time.Nanosecond
			pn := core.Try(func() { serr = nd.n.Store.EnforceRetention(context.Background()) })
			rep.Eval(2)
			rep.TracesValidated++
			rep.Case(fmt.Sprintf("replica-retention/%s/synced=%d", nd.name, synced), true)
			detail := map[string]any{"node": nd.name, "synced_up_to": synced, "committed": total, "hwm_on_node": hwm, "service_position": fmt.Sprint(posOfBackup(backup)), "error": fmt.Sprint(serr), "panic": fmt.Sprint(pn)}
			if pn != nil || serr != nil {
				rep.Violate("C09.retention-runs", "replica-retention/error/"+nd.name, detail, nil)
				continue
			}
			files, _ := sim.ListLTX(nd.n.DBDir("db"))
			have := map[uint64]bool{}
			var names []string
			for _, f := range files {
				names = append(names, f.Name)
				for t := f.Min; t <= f.Max; t++ {
					have[t] = true
				}
			}
			detail["files_after_sweep"] = names
			var missing []uint64
			for t := hwm + 1; t <= uint64(db.Pos().TXID); t++ {
				if !have[t] {
					missing = append(missing, t)
				}
			}
			if len(missing) > 0 {
				detail["unconfirmed_transactions_removed"] = missing
				rep.Violate("C09.retention-keeps-unconfirmed", fmt.Sprintf("replica-retention/removed-unconfirmed/%s", nd.name), detail, map[string]any{"replica_retention": synced})
			}
			if probs := sim.ChainProblems(nd.n.DBDir("db"), uint64(db.Pos().TXID), uint64(db.Pos().PostApplyChecksum)); len(probs) > 0 {
				detail["chain_problems"] = probs
				rep.Violate("C09.log-is-one-chain", "replica-retention/chain/"+nd.name, detail, nil)
			}
		}
		conn.Close()
		_ = core.Try(cl.Close)
	}
	core.Beat("harness")
}

func posOfBackup(b *litefs.FileBackupClient) map[string]ltx.Pos {
	m, _ := b.PosMap(context.Background())
	return m
}
