// Check C09: the on-disk transaction log is one contiguous, self-verifying chain.
package main

import (
	"time"

	"github.com/superfly/litefs/verifharness/core"
	"github.com/superfly/litefs/verifharness/dbreplay"
	"github.com/superfly/litefs/verifharness/faults"
	"github.com/superfly/litefs/verifharness/repl"
	"github.com/superfly/litefs/verifharness/t3"
)

func main() {
	t3.MaybeChild()
	args := core.ParseArgs()
	rep := core.NewReport("C09", "model_checking", args)
	rep.Rule = "behaviours of DBFile.tla (local commits in both journal modes, rollbacks, checkpoints) interleaved with retention sweeps of zero-length retention at every idle point; after every step that ends a transaction and after every sweep the ltx directory is listed and decoded: every file verifies, min = previous max + 1, pre = previous post, last file = current position, nothing but transaction files and *.tmp; non-trivial = at least one transaction was captured"
	rep.Assumptions = []string{"replicated applies, snapshots and backup acknowledgements are covered by the cluster checks (C01, C06, C14) with the same chain monitor"}
	defer core.Cleanup()
	if t3.MaybeReplay(rep, args, map[string]bool{"C09": true}) {
		rep.Finish()
	}
	dbreplay.Post = func() {
		replicaRetention(rep, args.Seed)
		// failure paths (spec/Faults.tla): the log stays one chain when a call of a commit / an apply / a snapshot fails
		faults.Run(rep, args, faults.Select{Ops: []string{"rb_commit", "wal_commit", "import", "replica_apply", "replica_snapshot"}, Monitors: []string{"chain", "replica-chain"}, Kinds: faults.LocalKinds})
		t3.Stage(rep, args, map[string]bool{"C09": true})
	}
	// replicated applies, snapshots, restarts and drops: the cluster scripts with this property's monitors
	repl.Main(rep, args, map[string]bool{"C09": true}, []repl.Stage{
		{Name: "repl-3n-2tx-2faults", Cfg: "MC_Repl_quick.cfg", Timeout: 10 * time.Minute, MaxKeep: core.Pick(args, 40, 300)},
	})
	dbreplay.Main(rep, args, "C09", []dbreplay.Stage{
		{Name: "rb-retention-3pg-4ops-exhaustive", Cfg: "MC_DBFile_retain.cfg", Timeout: 10 * time.Minute, MaxKeep: core.Pick(args, 800, 6000)},
		{Name: "wal-3pg-3ops-exhaustive", Cfg: "MC_DBFile_wal_small.cfg", Timeout: 15 * time.Minute, MaxKeep: core.Pick(args, 600, 4000)},
		{Name: "rb-drop-recreate-3pg-4ops-exhaustive", Cfg: "MC_DBFile_drop.cfg", Timeout: 10 * time.Minute, MaxKeep: core.Pick(args, 300, 0)},
		{Name: "deep-simulation-4pg-8ops", Cfg: "MC_DBFile_sim.cfg", Simulate: true, Num: core.Pick(args, 40, 400), Depth: 200, Timeout: 10 * time.Minute, MaxKeep: core.Pick(args, 150, 3000)},
	})
}
