// Check C04: the reported checksum always equals a from-scratch checksum of the database.
package main

import (
	"time"

	"github.com/superfly/litefs/verifharness/core"
	"github.com/superfly/litefs/verifharness/dbreplay"
	"github.com/superfly/litefs/verifharness/faults"
	"github.com/superfly/litefs/verifharness/repl"
	"github.com/superfly/litefs/verifharness/sim"
	"github.com/superfly/litefs/verifharness/t3"
)

func main() {
	t3.MaybeChild()
	args := core.ParseArgs()
	rep := core.NewReport("C04", "model_checking", args)
	rep.Rule = "behaviours of DBFile.tla in both journal modes (local commits, rollbacks, client and LiteFS checkpoints, log restarts, growth and shrink across checksum blocks) replayed on a real node; at every position change and every idle point the reported checksum is compared with CRC64/XOR recomputed by the harness (hash/crc64 only) from the bytes on disk (database file overlaid with the committed frames found by the harness's own WAL walk) and from the bytes read through the handles; non-trivial = at least one transaction was captured"
	rep.Assumptions = []string{"CRC64 collisions ignored", "replicated applies, snapshots, restart recovery, import and drop are covered by the C01/C05/C15/C16 checks with the same monitor"}
	defer core.Cleanup()
	if t3.MaybeReplay(rep, args, map[string]bool{"C04": true}) {
		rep.Finish()
	}
	dbreplay.Post = func() {
		// failure paths (spec/Faults.tla): every call of the operation through the OS interface fails once
		faults.Run(rep, args, faults.Select{Ops: []string{"rb_commit", "wal_commit", "import", "recover", "halt", "replica_apply", "replica_snapshot", "role_change"}, Monitors: []string{"checksum", "replica-checksum", "posfile"}, Kinds: faults.LocalKinds})
		t3.Stage(rep, args, map[string]bool{"C04": true})
	}
	// replicated applies, snapshots, restarts and drops: the cluster scripts with this property's monitors
	repl.Main(rep, args, map[string]bool{"C04": true}, []repl.Stage{
		{Name: "repl-3n-2tx-2faults", Cfg: "MC_Repl_quick.cfg", Timeout: 10 * time.Minute, MaxKeep: core.Pick(args, 40, 300)},
	})
	dbreplay.Main(rep, args, "C04", []dbreplay.Stage{
		{Name: "rb-3pg-3ops-exhaustive", Cfg: "MC_DBFile_rb.cfg", Timeout: 10 * time.Minute, MaxKeep: core.Pick(args, 400, 0)},
		{Name: "wal-3pg-4ops-exhaustive", Cfg: core.Pick(args, "MC_DBFile_wal.cfg", "MC_DBFile_wal_edge.cfg"), Timeout: 15 * time.Minute, MaxKeep: core.Pick(args, 1200, 10000), Always: []string{"LCkpt"}},
		{Name: "rb-beyond-3pg-3ops-exhaustive", Cfg: "MC_DBFile_rb_beyond.cfg", Timeout: 10 * time.Minute, MaxKeep: core.Pick(args, 400, 0)},
		{Name: "rb-drop-recreate-3pg-4ops-exhaustive", Cfg: "MC_DBFile_drop.cfg", Timeout: 10 * time.Minute, MaxKeep: core.Pick(args, 500, 0)},
		{Name: "rb-block-edges-3pg-3ops", Cfg: "MC_DBFile_rb_L3.cfg", Timeout: 10 * time.Minute, MaxKeep: core.Pick(args, 300, 0), Layouts: []sim.Layout{sim.L3(512), sim.L2(512)}},
		{Name: "wal-every-litefs-checkpoint-edge-3pg-4ops", Cfg: "MC_DBFile_wal_edge.cfg", Timeout: 15 * time.Minute, MaxKeep: 0, LastIs: "LCkpt"},
		{Name: "wal-block-edges-with-checkpoint-3pg-4ops", Cfg: "MC_DBFile_wal_L2b.cfg", Timeout: 10 * time.Minute, MaxKeep: 0, Need: "Ckpt", Layouts: []sim.Layout{sim.L2(512), sim.L3(512)}},
		{Name: "wal-block-edges-3pg-3ops", Cfg: "MC_DBFile_wal_L2.cfg", Timeout: 10 * time.Minute, MaxKeep: 0, Layouts: []sim.Layout{sim.L2(512), sim.L3(512)}},
		{Name: "rb-never-written-pages-4pg-3ops", Cfg: "MC_DBFile_holes.cfg", Timeout: 10 * time.Minute, MaxKeep: core.Pick(args, 700, 0), Layouts: []sim.Layout{sim.L0(512), sim.L0(4096)}},
		// a committing transaction whose publication fails (LTX rename refused): SQLite rolls it back
		{Name: "rb-commit-fails-at-publication-3pg-3ops", Cfg: "MC_DBFile_failcommit.cfg", Timeout: 10 * time.Minute, MaxKeep: core.Pick(args, 400, 0), Need: "JFinalFail"},
		{Name: "deep-simulation-4pg-8ops", Cfg: "MC_DBFile_sim.cfg", Simulate: true, Num: core.Pick(args, 40, 400), Depth: 200, Timeout: 10 * time.Minute, MaxKeep: core.Pick(args, 150, 3000)},
	})
}
