// Check C02: rollback-journal commits are captured exactly, once, in order.
package main

import (
	"time"

	"github.com/superfly/litefs/verifharness/core"
	"github.com/superfly/litefs/verifharness/dbreplay"
	"github.com/superfly/litefs/verifharness/faults"
	"github.com/superfly/litefs/verifharness/sim"
	"github.com/superfly/litefs/verifharness/t3"
)

func main() {
	t3.MaybeChild()
	args := core.ParseArgs()
	rep := core.NewReport("C02", "model_checking", args)
	rep.Rule = "behaviours of DBFile.tla (pager programs in rollback-journal mode: any set of modified/appended/freed pages, DELETE/TRUNCATE/PERSIST, synced and no-sync headers, rollback before and after spill, creation from nothing, shrink with late truncate) replayed on a real node; a case is one (behaviour, concretisation); non-trivial = at least one transaction was captured"
	rep.Assumptions = []string{"SQLite's pager is represented by the environment part of DBFile.tla (Appendix A of DESIGN.md)", "CRC64 collisions ignored"}
	defer core.Cleanup()
	if t3.MaybeReplay(rep, args, map[string]bool{"C02": true}) {
		rep.Finish()
	}
	dbreplay.Post = func() {
		// failure paths (spec/Faults.tla): every call of the operation through the OS interface fails once
		faults.Run(rep, args, faults.Select{Ops: []string{"rb_commit"}, Monitors: []string{"image", "effect"}})
		t3.Stage(rep, args, map[string]bool{"C02": true})
	}
	dbreplay.Main(rep, args, "C02", []dbreplay.Stage{
		{Name: "rb-3pg-3ops-exhaustive", Cfg: core.Pick(args, "MC_DBFile_rb.cfg", "MC_DBFile_rb_edge.cfg"), Timeout: 10 * time.Minute, MaxKeep: core.Pick(args, 600, 0)},
		{Name: "rb-beyond-3pg-3ops-exhaustive", Cfg: "MC_DBFile_rb_beyond.cfg", Timeout: 10 * time.Minute, MaxKeep: core.Pick(args, 500, 0)},
		{Name: "rb-drop-recreate-3pg-4ops-exhaustive", Cfg: "MC_DBFile_drop.cfg", Timeout: 10 * time.Minute, MaxKeep: core.Pick(args, 300, 0)},
		{Name: "rb-block-edges-3pg-3ops", Cfg: "MC_DBFile_rb_L3.cfg", Timeout: 10 * time.Minute, MaxKeep: core.Pick(args, 300, 0), Layouts: []sim.Layout{sim.L3(512), sim.L2(512)}},
		{Name: "leaving-wal-mode-2pg-4ops", Cfg: "MC_DBFile_modeswitch4.cfg", Timeout: 10 * time.Minute, MaxKeep: 0, Need: "JRmWal", AllCfgs: true},
		{Name: "leaving-wal-mode-twice-2pg-5ops", Cfg: "MC_DBFile_modeswitch.cfg", Timeout: 10 * time.Minute, MaxKeep: 0, Needs: []string{"JRmWal*2", "WEnd"}, AllCfgs: true},
		{Name: "journal-mode-switches-2pg-5ops", Cfg: "MC_DBFile_modeswitch.cfg", Timeout: 10 * time.Minute, MaxKeep: core.Pick(args, 500, 6000)},
		{Name: "rb-free-page-reuse-3pg-3ops", Cfg: "MC_DBFile_rb_free.cfg", Timeout: 10 * time.Minute, MaxKeep: core.Pick(args, 400, 0)},
		{Name: "lock-page-layout-4pg", Cfg: "MC_DBFile_lock_rb.cfg", Timeout: 10 * time.Minute, MaxKeep: core.Pick(args, 3, 48), Layouts: []sim.Layout{sim.L4()}, Workers: 2, MinNs: 4},
		{Name: "rb-never-written-pages-4pg-3ops", Cfg: "MC_DBFile_holes.cfg", Timeout: 10 * time.Minute, MaxKeep: core.Pick(args, 700, 0), Layouts: []sim.Layout{sim.L0(512), sim.L0(4096)}},
		// a committing transaction whose publication fails (LTX rename refused): SQLite rolls it back
		{Name: "rb-commit-fails-at-publication-3pg-3ops", Cfg: "MC_DBFile_failcommit.cfg", Timeout: 10 * time.Minute, MaxKeep: core.Pick(args, 400, 0), Need: "JFinalFail"},
		{Name: "deep-simulation-4pg-8ops", Cfg: "MC_DBFile_sim.cfg", Simulate: true, Num: core.Pick(args, 40, 400), Depth: 200, Timeout: 10 * time.Minute, MaxKeep: core.Pick(args, 150, 3000)},
	})
}
