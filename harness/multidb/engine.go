// Package multidb executes the control scripts generated from MultiDB.tla on a real three-node
// cluster: n1 primary, n2 replica with Store.DatabaseFilter set, n3 replica without a filter; several
// databases, each with its own byte-level pager on the primary. It evaluates the C01 monitors on what
// the real nodes hold (positions from DB.Pos() at LiteFS's own linearisation point, bytes from the
// data directories) and reports differences between the model's prediction and the real outcome as
// non-conformance, never as a verdict.
package multidb

import (
	"context"
	"fmt"
	"io"
	"os"
	"path/filepath"
	"sort"
	"strings"
	"sync"
	"sync/atomic"
	"time"

	"github.com/superfly/litefs"
	"github.com/superfly/litefs/internal/chunk"
	"github.com/superfly/litefs/verifharness/core"
	"github.com/superfly/litefs/verifharness/repl"
	"github.com/superfly/litefs/verifharness/sim"
	"github.com/superfly/ltx"
)

// Step is one control action of a script.
type Step struct {
	A string `json:"a"`
	G struct {
		N  string `json:"n,omitempty"`
		DB string `json:"db,omitempty"`
		K  int    `json:"k,omitempty"`
		V  int    `json:"v,omitempty"`
	} `json:"g"`
}

// PredDB is what the model predicts for one database of the primary.
type PredDB struct {
	Ex    bool `json:"ex"`
	T     int  `json:"t"`
	Empty bool `json:"empty"`
}

// PredRep is what the model predicts for one database of a converged replica.
type PredRep struct {
	Held bool   `json:"held"`
	T    int    `json:"t"`
	Src  string `json:"src"`
}

// Script is the control part of one behaviour of MultiDB.tla plus the model's prediction of the
// converged state.
type Script struct {
	H      []Step   `json:"h"`
	Filter []string `json:"filter"`
	Pred   struct {
		P map[string]PredDB             `json:"p"`
		R map[string]map[string]PredRep `json:"r"`
	} `json:"pred"`
}

// Key identifies the control script.
func (s Script) Key() string {
	var sb strings.Builder
	fmt.Fprintf(&sb, "F%s:", strings.Join(s.Filter, ","))
	for _, st := range s.H {
		switch st.A {
		case "Orphan":
			fmt.Fprintf(&sb, "Orphan(%s,%s,%d);", st.G.N, st.G.DB, st.G.K)
		case "Commit", "Drop", "Sweep":
			fmt.Fprintf(&sb, "%s(%s);", st.A, st.G.DB)
		default:
			fmt.Fprintf(&sb, "%s(%s);", st.A, st.G.N)
		}
	}
	return sb.String()
}

// Config holds the concretisation parameters (they do not enlarge the model's state space).
type Config struct {
	repl.Config
	// Pace: 0 = the script runs as fast as the harness can issue it (replicas catch up at the end, the
	// initial-dirty-set path), 1 = after Unblock / Restart the script waits until the node streams
	// again, 2 = after every step the script waits (bounded, not judged) until the connected replicas
	// have caught up (the change-notification path).
	Pace int
}

func (c Config) String() string { return fmt.Sprintf("%s/pace%d", c.Config.String(), c.Pace) }

// Fail is one monitor failure.
type Fail struct {
	Prop    string `json:"prop"`
	Monitor string `json:"monitor"`
	Sig     string `json:"sig"`
	Step    int    `json:"step"`
	Detail  any    `json:"detail"`
}

// Result of one script.
type Result struct {
	Fails      []Fail
	Nonconf    []string
	Evals      int64
	Applies    int64 // position changes observed on replicas
	Snapshots  int64 // LTX frames carrying a snapshot seen on replica streams
	Files      int64 // LTX frames carrying an incremental file
	DropFrames int64 // DropDB frames seen on replica streams
	Streams    int64 // stream requests made by replicas
	Nontrivial bool
	Infra      string
}

type refKey struct {
	db   string
	txid uint64
	chk  uint64
}

const emptyChk = uint64(1) << 63

type dbState struct {
	pager *sim.Pager
	conn  *sim.Conn
	owner uint64
	wal   bool
	// image the transaction in progress will commit (read inside the primary's position change)
	pending *sim.Image
}

type nodeState struct {
	name   string
	cn     *sim.CNode
	filter []string
	// a node with a database filter cannot be a candidate (cmd/litefs refuses the configuration): n2 is a
	// candidate without a filter only while it creates a database of its own in the seed phase, and is
	// restarted as a non-candidate with the filter afterwards
	candidate bool
	useFilter bool
	blocked   bool
	seeding   atomic.Bool // the node acts as primary to create an orphan database
	streams   atomic.Int64
	mark      int64               // value of streams after the previous step
	dbs       map[string]*dbState // pagers (on whichever node commits)
}

func (ns *nodeState) passes(db string) bool {
	if len(ns.filter) == 0 {
		return true
	}
	for _, f := range ns.filter {
		if f == db {
			return true
		}
	}
	return false
}

type engine struct {
	cfg     Config
	sc      Script
	cl      *sim.Cluster
	nodes   map[string]*nodeState
	names   []string // database names of the script's universe
	res     *Result
	fmu     sync.Mutex
	refs    sync.Map                      // refKey -> sim.Image: what n1 committed, per database
	foreign map[string]map[string]ltx.Pos // node -> database -> position of the orphan it brought along
	forImg  map[string]map[string]sim.Image
	step    atomic.Int64
	cmu     sync.Mutex // serialises commits with restarts of the committing node
}

func (e *engine) fail(monitor, sig string, detail any) {
	e.fmu.Lock()
	defer e.fmu.Unlock()
	if len(e.res.Fails) < 30 {
		e.res.Fails = append(e.res.Fails, Fail{Prop: "C01", Monitor: monitor, Sig: sig, Step: int(e.step.Load()), Detail: detail})
	}
}

func (e *engine) failed() bool {
	e.fmu.Lock()
	defer e.fmu.Unlock()
	return len(e.res.Fails) > 0
}

func (e *engine) nonconf(format string, a ...any) {
	e.fmu.Lock()
	defer e.fmu.Unlock()
	if len(e.res.Nonconf) < 10 {
		e.res.Nonconf = append(e.res.Nonconf, fmt.Sprintf(format, a...))
	}
}

func (e *engine) eval(n int) { atomic.AddInt64(&e.res.Evals, int64(n)) }

func keyOf(db string, p ltx.Pos) refKey {
	return refKey{db, uint64(p.TXID), uint64(p.PostApplyChecksum)}
}

// Run executes one script.
func Run(sc Script, cfg Config, dir string) (res Result) {
	if cfg.Pager.Busy == 0 {
		cfg.Pager.Busy = 10 * time.Second
	}
	e := &engine{cfg: cfg, sc: sc, res: &res, nodes: map[string]*nodeState{},
		foreign: map[string]map[string]ltx.Pos{}, forImg: map[string]map[string]sim.Image{}}
	seen := map[string]bool{}
	for _, f := range sc.Filter {
		seen[f] = true
	}
	for _, st := range sc.H {
		if st.G.DB != "" {
			seen[st.G.DB] = true
		}
	}
	for d := range sc.Pred.P {
		seen[d] = true
	}
	for d := range seen {
		e.names = append(e.names, d)
	}
	sort.Strings(e.names)

	e.cl = sim.NewCluster(dir)
	e.cl.Lease.AllowOnly()
	defer func() { _ = core.Try(e.cl.Close) }()
	for _, n := range []string{"n1", "n2", "n3"} {
		ns := &nodeState{name: n, dbs: map[string]*dbState{}, candidate: true, useFilter: true}
		if n == "n2" {
			ns.filter = append([]string(nil), sc.Filter...)
			ns.candidate, ns.useFilter = false, true
			for _, st := range sc.H {
				if st.A == "Orphan" && st.G.N == "n2" {
					ns.candidate, ns.useFilter = true, false
				}
			}
		}
		e.nodes[n] = ns
		e.foreign[n] = map[string]ltx.Pos{}
		e.forImg[n] = map[string]sim.Image{}
		if err := e.startNode(ns); err != nil {
			res.Infra = "start node: " + err.Error()
			return res
		}
	}
	i := 0
	// seed phase: orphan databases, created while the replica-to-be is the only primary
	for ; i < len(sc.H) && sc.H[i].A == "Orphan"; i++ {
		e.step.Store(int64(i))
		st := sc.H[i]
		core.Beat("real:multidb:Orphan")
		if p := core.Try(func() { e.orphan(st) }); p != nil {
			e.fail("C01.no-panic", "panic/Orphan", map[string]any{"panic": p.Value, "stack": p.Stack})
		}
		if res.Infra != "" || e.failed() {
			break
		}
	}
	if n2 := e.nodes["n2"]; res.Infra == "" && !e.failed() && n2.candidate {
		// the seed phase is over: n2 comes back the way a filtered node is configured
		n2.candidate, n2.useFilter = false, true
		e.cl.Stop("n2")
		if err := e.startNode(n2); err != nil {
			res.Infra = "restart n2 with its filter: " + err.Error()
		}
	}
	if res.Infra == "" && !e.failed() {
		e.cl.Lease.AllowOnly(e.nodes["n1"].cn.URL)
		if err := e.cl.WaitPrimary("n1", 20*time.Second); err != nil {
			res.Infra = err.Error()
		}
		if cfg.Pace > 0 {
			// paced scripts start with both replicas streaming (free-running ones start at once)
			for _, n := range []string{"n2", "n3"} {
				e.awaitStream(e.nodes[n], 0)
			}
		}
	}
	for ; res.Infra == "" && !e.failed() && i < len(sc.H); i++ {
		e.step.Store(int64(i))
		st := sc.H[i]
		core.Beat("real:multidb:" + st.A)
		if p := core.Try(func() { e.doStep(st) }); p != nil {
			e.fail("C01.no-panic", "panic/"+st.A, map[string]any{"panic": p.Value, "stack": p.Stack})
			break
		}
		e.checkFilterSet("step")
		e.pace(st)
	}
	if res.Infra == "" && !e.failed() {
		e.step.Store(int64(len(sc.H)))
		core.Beat("real:multidb:settle")
		if p := core.Try(e.settle); p != nil {
			e.fail("C01.no-panic", "panic/settle", map[string]any{"panic": p.Value, "stack": p.Stack})
		}
	}
	core.Beat("harness")
	for _, ns := range e.nodes {
		if ns.cn == nil {
			continue
		}
		if ex := ns.cn.Exits(); len(ex) > 0 {
			e.fail("C01.no-exit", "exit/"+ns.name, map[string]any{"codes": ex})
		}
		atomic.AddInt64(&res.Streams, ns.streams.Load())
	}
	res.Nontrivial = res.Applies > 0
	return res
}

func (e *engine) startNode(ns *nodeState) error {
	cn, err := e.cl.Start(ns.name, sim.ClusterNodeOpts{Candidate: ns.candidate, Compress: e.cfg.Compress, Configure: func(s *litefs.Store) {
		if ns.useFilter {
			s.DatabaseFilter = append([]string(nil), ns.filter...)
		}
		s.Client = &tapClient{Client: s.Client, e: e, ns: ns}
	}})
	if err != nil {
		return err
	}
	ns.cn = cn
	for _, ds := range ns.dbs {
		ds.pager, ds.conn = nil, nil
	}
	if ns.blocked {
		cn.Client.Block()
	}
	cn.Cache.OnPos = func(db *litefs.DB) { e.onPos(ns, db) }
	return nil
}

// lookup finds a position in what n1 committed for a database. The reference is stored inside n1's own
// position change (before any replica can have the transaction); the short wait only covers a
// reference that is stored by the committing goroutine right after the call returned.
func (e *engine) lookup(k refKey) (sim.Image, bool) {
	for i := 0; ; i++ {
		if v, ok := e.refs.Load(k); ok {
			return v.(sim.Image), true
		}
		if i >= 100 {
			return sim.Image{}, false
		}
		time.Sleep(10 * time.Millisecond)
	}
}

// onPos runs inside DB.setPos: LiteFS's own linearisation point of a position change.
func (e *engine) onPos(ns *nodeState, db *litefs.DB) {
	name, pos := db.Name(), db.Pos()
	if ns.name == "n1" || ns.seeding.Load() {
		// the committing node: record the committed history of this database
		if ds := ns.dbs[name]; ds != nil && ds.pending != nil && ns.name == "n1" {
			e.refs.Store(keyOf(name, pos), *ds.pending)
		}
		return
	}
	atomic.AddInt64(&e.res.Applies, 1)
	e.eval(3)
	// filter: a replica with a filter never creates or advances a database outside it
	if !ns.passes(name) {
		e.fail("C01.filter-respected", "filtered-out-db-advanced/"+ns.name, map[string]any{"db": name, "pos": pos.String(), "filter": ns.filter})
		return
	}
	if pos.TXID == 0 {
		return
	}
	// the position is one the primary committed FOR THIS DATABASE ...
	ref, ok := e.lookup(keyOf(name, pos))
	if !ok {
		other := ""
		e.refs.Range(func(k, _ any) bool {
			if rk := k.(refKey); rk.txid == uint64(pos.TXID) && rk.chk == uint64(pos.PostApplyChecksum) {
				other = rk.db
			}
			return true
		})
		sig := "replica-position-not-committed/" + ns.name
		if other != "" {
			sig = "replica-position-of-another-db/" + ns.name
		}
		e.fail("C01.position-on-history", sig, map[string]any{"db": name, "pos": pos.String(), "committed_for": other})
		return
	}
	// ... and the bytes on the replica's disk are the image the primary had there
	im, err := sim.DiskImage(ns.cn.DBDir(name), e.cfg.Layout.PageSize)
	if err != nil {
		return
	}
	if ok, why := im.Equal(ref, e.cfg.Layout.LockPgno()); !ok {
		model, bad := e.cfg.Layout.ModelOf(im)
		e.fail("C01.replica-image-is-primary-image", "replica-image-differs-at-position-change/"+ns.name,
			map[string]any{"db": name, "pos": pos.String(), "why": why, "seen_model": model, "undecodable": bad})
	}
}

// checkFilterSet: a filtered-out database never appears in the store's map or the data directory of a
// node with a filter (except a database the node itself brought along).
func (e *engine) checkFilterSet(when string) {
	for _, ns := range e.nodes {
		if len(ns.filter) == 0 || ns.cn == nil {
			continue
		}
		e.eval(2)
		for _, db := range ns.cn.Store.DBs() {
			if _, own := e.foreign[ns.name][db.Name()]; !ns.passes(db.Name()) && !own {
				e.fail("C01.filter-respected", "filtered-out-db-in-store/"+ns.name, map[string]any{"db": db.Name(), "pos": db.Pos().String(), "when": when})
			}
		}
		ents, _ := os.ReadDir(filepath.Join(ns.cn.Dir, "dbs"))
		for _, en := range ents {
			if _, own := e.foreign[ns.name][en.Name()]; !ns.passes(en.Name()) && !own {
				e.fail("C01.filter-respected", "filtered-out-db-on-disk/"+ns.name, map[string]any{"db": en.Name(), "when": when})
			}
		}
	}
}

func (e *engine) isWAL(db string) bool {
	i := sort.SearchStrings(e.names, db)
	return e.cfg.WAL != (i%2 == 1)
}

func (e *engine) dbOf(ns *nodeState, db string) *dbState {
	ds := ns.dbs[db]
	if ds == nil {
		ds = &dbState{owner: uint64(301 + 10*len(ns.dbs)), wal: e.isWAL(db)}
		ns.dbs[db] = ds
	}
	if ds.pager == nil {
		ds.conn = ns.cn.Connect(db, ds.owner)
		ds.pager = sim.NewPager(ds.conn, e.cfg.Layout, e.cfg.Pager)
		im, err := sim.DiskImage(ns.cn.DBDir(db), e.cfg.Layout.PageSize)
		if err == nil && im.N > 0 {
			model, _ := e.cfg.Layout.ModelOf(im)
			ds.pager.Ref = model
			ds.pager.SetCommittedSize(im.N)
		}
	}
	return ds
}

// commit writes one transaction to database db on node ns through the byte-level pager (creating the
// database if it does not exist). v makes the page contents unique over all databases.
func (e *engine) commit(ns *nodeState, db string, v int) (ltx.Pos, bool) {
	e.cmu.Lock()
	defer e.cmu.Unlock()
	if !ns.cn.Store.IsPrimary() {
		e.res.Infra = "script commits on a node that is not primary: " + ns.name
		return ltx.Pos{}, false
	}
	ds := e.dbOf(ns, db)
	pg := ds.pager
	var before ltx.Pos
	if d0 := ns.cn.Store.DB(db); d0 != nil {
		before = d0.Pos()
	}
	// shape of the transaction: derived from v only (a concretisation parameter)
	size := 1 + v%2
	w := []int{1}
	for q := len(pg.Ref) + 1; q <= size; q++ {
		w = append(w, q)
	}
	if size >= 2 && v%3 != 1 && len(pg.Ref) >= 2 {
		w = append(w, 2)
	}
	sort.Ints(w)
	pl := sim.Plan{Ns: size, M: w, Out: "commit", Fin: "DELETE", V: v}
	var err error
	if pg.WalMode() {
		pl.Kind, pl.Wal = "w", true
		err = pg.BeginW(pl)
		if err == nil {
			im := e.cfg.Layout.ImageOf(pg.NewImage())
			ds.pending = &im
		}
		if err == nil && !pg.HasHdr() {
			err = pg.WHdr(int(e.step.Load()) + 1 + 10*v)
		}
		if err == nil && v%2 == 0 {
			err = pg.WFrame(pl.M[len(pl.M)-1], true, false) // an early, spilled version of the last page
		}
		for i, q := range pl.M {
			if err == nil {
				err = pg.WFrame(q, false, i == len(pl.M)-1)
			}
		}
		if err == nil {
			err = pg.WEnd()
		}
	} else {
		pl.Kind = "j"
		pl.Wal = ds.wal
		err = pg.BeginJ(pl)
		if err == nil {
			im := e.cfg.Layout.ImageOf(pg.NewImage())
			ds.pending = &im
		}
		if err == nil {
			err = pg.JCreate()
		}
		if err == nil {
			err = pg.JSync()
		}
		for _, q := range pl.M {
			if err == nil {
				err = pg.JPage(q)
			}
		}
		shrink := pl.Ns < len(pg.Ref)
		if err == nil {
			err = pg.JFinal()
		}
		if err == nil && shrink {
			err = pg.JTrunc(pl.Ns)
		}
		pg.EndJ()
	}
	ds.pending = nil
	if err != nil {
		// the pager's own commit is C02/C03 territory: without a commit the script cannot go on
		e.res.Infra = fmt.Sprintf("commit on %s/%s refused: %s (plan %+v)", ns.name, db, sim.ErrString(err), pl)
		return ltx.Pos{}, false
	}
	pos := ns.cn.Store.DB(db).Pos()
	if uint64(pos.TXID) != uint64(before.TXID)+1 {
		e.res.Infra = fmt.Sprintf("commit on %s/%s: position %s after %s", ns.name, db, pos, before)
		return pos, false
	}
	if ns.name == "n1" {
		e.refs.Store(keyOf(db, pos), e.cfg.Layout.ImageOf(pg.Ref))
	}
	return pos, true
}

func (e *engine) drop(ns *nodeState, db string) {
	e.cmu.Lock()
	defer e.cmu.Unlock()
	d0 := ns.cn.Store.DB(db)
	if d0 == nil || d0.PageN() == 0 {
		e.nonconf("script drops %s which the real primary does not hold", db)
		return
	}
	ds := e.dbOf(ns, db)
	before := d0.Pos()
	ds.conn.Close()
	empty := sim.Image{Pages: map[uint32][]byte{}}
	ds.pending = &empty
	c := ns.cn.Connect(db, ds.owner+1)
	err := c.RemoveDB()
	ds.pending = nil
	ds.pager, ds.conn = nil, nil
	if err != nil {
		e.res.Infra = fmt.Sprintf("drop of %s refused: %s", db, sim.ErrString(err))
		return
	}
	pos := ns.cn.Store.DB(db).Pos()
	if uint64(pos.TXID) != uint64(before.TXID)+1 || uint64(pos.PostApplyChecksum) != emptyChk {
		e.res.Infra = fmt.Sprintf("drop of %s: position %s after %s (C15 territory)", db, pos, before)
		return
	}
	e.refs.Store(keyOf(db, pos), empty)
}

// orphan: node r is the only primary for a moment (everybody else cut off) and creates a database
// that n1 never sees; then it steps down.
func (e *engine) orphan(st Step) {
	ns := e.nodes[st.G.N]
	for _, o := range e.nodes {
		if o != ns {
			o.cn.Client.Block()
		}
	}
	ns.seeding.Store(true)
	e.cl.Lease.AllowOnly(ns.cn.URL)
	if err := e.cl.WaitPrimary(ns.name, 20*time.Second); err != nil {
		e.res.Infra = err.Error()
		return
	}
	var pos ltx.Pos
	for i := 0; i < st.G.K; i++ {
		var ok bool
		if pos, ok = e.commit(ns, st.G.DB, st.G.V+50*i); !ok {
			return
		}
	}
	ds := ns.dbs[st.G.DB]
	e.forImg[ns.name][st.G.DB] = e.cfg.Layout.ImageOf(ds.pager.Ref)
	e.foreign[ns.name][st.G.DB] = pos
	ds.conn.Close()
	ds.pager, ds.conn = nil, nil
	e.cl.Lease.AllowOnly()
	ns.cn.Store.Demote()
	deadline := time.Now().Add(20 * time.Second)
	for ns.cn.Store.IsPrimary() {
		if time.Now().After(deadline) {
			e.res.Infra = "orphan seeding: " + ns.name + " still primary after demote"
			return
		}
		time.Sleep(200 * time.Microsecond)
	}
	ns.seeding.Store(false)
	for _, o := range e.nodes {
		if o != ns && !o.blocked {
			o.cn.Client.Unblock()
		}
	}
}

func (e *engine) doStep(st Step) {
	switch st.A {
	case "Commit":
		e.commit(e.nodes["n1"], st.G.DB, st.G.V)
	case "Drop":
		e.drop(e.nodes["n1"], st.G.DB)
	case "Block":
		ns := e.nodes[st.G.N]
		ns.blocked = true
		ns.cn.Client.Block()
	case "Unblock":
		ns := e.nodes[st.G.N]
		ns.blocked = false
		ns.cn.Client.Unblock()
	case "Restart":
		ns := e.nodes[st.G.N]
		e.cmu.Lock()
		for _, ds := range ns.dbs {
			if ds.conn != nil {
				_ = core.Try(ds.conn.Close)
			}
			ds.pager, ds.conn = nil, nil
		}
		if ns.name == "n1" {
			e.cl.Lease.AllowOnly()
		}
		e.cl.Stop(ns.name)
		err := e.startNode(ns)
		e.cmu.Unlock()
		if err != nil {
			e.fail("C01.restart-succeeds", "restart-fails/"+ns.name, map[string]any{"error": err.Error()})
			return
		}
		if ns.name == "n1" {
			e.cl.Lease.AllowOnly(ns.cn.URL)
			if err := e.cl.WaitPrimary("n1", 20*time.Second); err != nil {
				e.res.Infra = err.Error()
			}
		}
	case "Sweep":
		// retention on one database of the primary: every file but the newest is past its time
		if db := e.nodes["n1"].cn.Store.DB(st.G.DB); db != nil {
			time.Sleep(2 * time.Millisecond)
			_ = db.EnforceRetention(sim.Ctx(), time.Now())
		}
	default:
		core.Infra("unknown script action %q", st.A)
	}
}

// want returns what replica ns must hold of database db once it has converged, judged from the REAL
// primary: (position, must it be held, is it the node's own orphan).
func (e *engine) want(ns *nodeState, db string) (pos ltx.Pos, held bool, own bool) {
	if pdb := e.nodes["n1"].cn.Store.DB(db); pdb != nil && pdb.Pos().TXID > 0 && ns.passes(db) {
		return pdb.Pos(), true, false
	}
	if p, ok := e.foreign[ns.name][db]; ok {
		return p, true, true
	}
	return ltx.Pos{}, false, false
}

func (e *engine) caughtUp(ns *nodeState) bool {
	for _, db := range e.names {
		w, held, _ := e.want(ns, db)
		if !held {
			continue
		}
		if d := ns.cn.Store.DB(db); d == nil || d.Pos() != w {
			return false
		}
	}
	return true
}

// awaitStream waits (bounded, never judged) until the node has opened a stream after the `since`-th.
func (e *engine) awaitStream(ns *nodeState, since int64) {
	if ns.blocked {
		return
	}
	for i := 0; i < 600 && ns.streams.Load() <= since; i++ {
		time.Sleep(500 * time.Microsecond)
	}
}

// pace waits (bounded, never judged) so that different scripts exercise different interleavings of the
// model's Connect / Take / Send / Deliver with the control actions.
func (e *engine) pace(st Step) {
	if e.cfg.Pace >= 1 && (st.A == "Unblock" || st.A == "Restart") {
		if st.G.N == "n1" {
			for _, n := range []string{"n2", "n3"} {
				e.awaitStream(e.nodes[n], e.nodes[n].mark)
			}
		} else {
			e.awaitStream(e.nodes[st.G.N], e.nodes[st.G.N].mark)
		}
	}
	for _, ns := range e.nodes {
		ns.mark = ns.streams.Load()
	}
	switch e.cfg.Pace {
	case 2:
		for i := 0; i < 600; i++ {
			done := true
			for _, ns := range e.nodes {
				if ns.name != "n1" && !ns.blocked && !e.caughtUp(ns) {
					done = false
				}
			}
			if done {
				return
			}
			time.Sleep(500 * time.Microsecond)
		}
	}
}

// settle: faults stop, n1 stays primary, everything unblocked: every replica must reach n1's position
// of every database that passes its filter (incl. dropped and re-created ones), hold exactly the
// expected set of databases, and be byte-identical.
func (e *engine) settle() {
	p := e.nodes["n1"]
	if !p.cn.Store.IsPrimary() {
		e.cl.Lease.AllowOnly(p.cn.URL)
		if err := e.cl.WaitPrimary("n1", 20*time.Second); err != nil {
			e.res.Infra = err.Error()
			return
		}
	}
	for _, ns := range e.nodes {
		ns.blocked = false
		ns.cn.Client.Unblock()
	}
	replicas := []*nodeState{e.nodes["n2"], e.nodes["n3"]}
	deadline := time.Now().Add(30 * time.Second)
	for _, ns := range replicas {
		for _, db := range e.names {
			w, held, own := e.want(ns, db)
			if !held || own {
				continue
			}
			e.eval(1)
			for {
				if d := ns.cn.Store.DB(db); d != nil && d.Pos() == w {
					break
				}
				if time.Now().After(deadline) {
					got := "absent"
					if d := ns.cn.Store.DB(db); d != nil {
						got = d.Pos().String()
					}
					class := "live"
					if uint64(w.PostApplyChecksum) == emptyChk {
						class = "dropped"
					}
					if _, o := e.foreign[ns.name][db]; o {
						class += "+replica-had-own-db-of-that-name"
					}
					e.fail("C01.converges", "no-convergence/"+ns.name+"/"+class, map[string]any{"db": db, "got": got, "want": w.String()})
					return
				}
				core.Beat("real:multidb:settle")
				time.Sleep(300 * time.Microsecond)
			}
		}
	}
	// the streams are idle now or will be within a heartbeat; give stray frames (which the model says
	// cannot exist) a moment to arrive before the sets are compared
	time.Sleep(time.Duration(5+10*e.cfg.Pace) * time.Millisecond)
	e.checkFilterSet("quiescence")
	for _, ns := range replicas {
		wantSet := map[string]bool{}
		for _, db := range e.names {
			w, held, own := e.want(ns, db)
			if !held {
				continue
			}
			wantSet[db] = true
			e.eval(3)
			d := ns.cn.Store.DB(db)
			if d == nil || d.Pos() != w {
				got := "absent"
				if d != nil {
					got = d.Pos().String()
				}
				sig := "position-at-quiescence/" + ns.name
				if own {
					sig = "own-db-outside-replication-changed/" + ns.name
				}
				e.fail("C01.converges", sig, map[string]any{"db": db, "got": got, "want": w.String()})
				continue
			}
			im, err := sim.DiskImage(ns.cn.DBDir(db), e.cfg.Layout.PageSize)
			if err != nil {
				core.Infra("disk image: %v", err)
			}
			var ref sim.Image
			var ok bool
			if own {
				ref, ok = e.forImg[ns.name][db], true
			} else if v, found := e.refs.Load(keyOf(db, w)); found {
				ref, ok = v.(sim.Image), true
			}
			if ok {
				if same, why := im.Equal(ref, e.cfg.Layout.LockPgno()); !same {
					e.fail("C01.byte-identical-after-convergence", "image-differs-at-quiescence/"+ns.name, map[string]any{"db": db, "why": why, "pos": w.String(), "own": own})
				}
			}
			if !own {
				// and against the bytes the primary holds right now
				pim, err := sim.DiskImage(p.cn.DBDir(db), e.cfg.Layout.PageSize)
				if err == nil {
					if same, why := im.Equal(pim, e.cfg.Layout.LockPgno()); !same {
						e.fail("C01.byte-identical-after-convergence", "image-differs-from-primary-disk/"+ns.name, map[string]any{"db": db, "why": why, "pos": w.String()})
					}
				}
				if uint64(w.PostApplyChecksum) == emptyChk {
					for _, f := range []string{"database", "journal", "wal", "shm"} {
						if _, err := os.Stat(filepath.Join(ns.cn.DBDir(db), f)); err == nil {
							e.fail("C01.byte-identical-after-convergence", "dropped-db-file-left/"+f+"/"+ns.name, map[string]any{"db": db})
						}
					}
				}
			}
		}
		// exactly the expected set of databases, in the store's map and in the data directory
		e.eval(2)
		got := map[string]bool{}
		for _, d := range ns.cn.Store.DBs() {
			got[d.Name()] = true
		}
		ents, _ := os.ReadDir(filepath.Join(ns.cn.Dir, "dbs"))
		for _, en := range ents {
			got[en.Name()] = true
		}
		for d := range got {
			if !wantSet[d] {
				if ns.passes(d) {
					e.fail("C01.converges", "unexpected-db-at-quiescence/"+ns.name, map[string]any{"db": d})
				} // outside the filter: reported by checkFilterSet
			}
		}
	}
	e.conformance()
}

// conformance compares the model's prediction of the converged state with the real outcome (R3:
// evidence only).
func (e *engine) conformance() {
	if e.failed() {
		return
	}
	p := e.nodes["n1"]
	for db, pr := range e.sc.Pred.P {
		d := p.cn.Store.DB(db)
		if (d != nil) != pr.Ex {
			e.nonconf("MultiDB primary db=%s: model ex=%v real present=%v", db, pr.Ex, d != nil)
			continue
		}
		if d != nil && (int(d.Pos().TXID) != pr.T || (uint64(d.Pos().PostApplyChecksum) == emptyChk) != pr.Empty) {
			e.nonconf("MultiDB primary db=%s: model t=%d empty=%v real %s", db, pr.T, pr.Empty, d.Pos())
		}
	}
	for n, m := range e.sc.Pred.R {
		ns := e.nodes[n]
		for db, pr := range m {
			d := ns.cn.Store.DB(db)
			if (d != nil) != pr.Held {
				e.nonconf("MultiDB replica %s db=%s: model held=%v real present=%v", n, db, pr.Held, d != nil)
				continue
			}
			if d != nil && int(d.Pos().TXID) != pr.T {
				e.nonconf("MultiDB replica %s db=%s: model t=%d (%s) real %s", n, db, pr.T, pr.Src, d.Pos())
			}
		}
	}
}

// ---------------------------------------------------------------- stream tap

// tapClient wraps the node's client: it sees every stream request the replica makes and every frame
// the replica reads (the same bytes, teed into a decoder).
type tapClient struct {
	litefs.Client
	e  *engine
	ns *nodeState
}

func (c *tapClient) Stream(ctx context.Context, primaryURL string, nodeID uint64, posMap map[string]ltx.Pos, filter []string) (litefs.Stream, error) {
	st, err := c.Client.Stream(ctx, primaryURL, nodeID, posMap, filter)
	if err != nil {
		return nil, err
	}
	c.ns.streams.Add(1)
	own := map[string]bool{}
	for d := range c.e.foreign[c.ns.name] {
		own[d] = true
	}
	pr, pw := io.Pipe()
	ts := &tapStream{Stream: st, pw: pw}
	go c.decode(pr, own)
	return ts, nil
}

type tapStream struct {
	litefs.Stream
	pw   *io.PipeWriter
	once sync.Once
}

func (s *tapStream) Read(p []byte) (int, error) {
	n, err := s.Stream.Read(p)
	if n > 0 {
		_, _ = s.pw.Write(p[:n])
	}
	if err != nil {
		s.once.Do(func() { _ = s.pw.Close() })
	}
	return n, err
}

func (s *tapStream) Close() error {
	s.once.Do(func() { _ = s.pw.Close() })
	return s.Stream.Close()
}

func (c *tapClient) decode(pr *io.PipeReader, own map[string]bool) {
	defer func() { _, _ = io.Copy(io.Discard, pr) }()
	e, ns := c.e, c.ns
	_ = core.Try(func() {
		for {
			f, err := litefs.ReadStreamFrame(pr)
			if err != nil {
				return
			}
			switch f := f.(type) {
			case *litefs.LTXStreamFrame:
				snap, err := skipLTX(pr)
				if err != nil {
					return
				}
				if snap {
					atomic.AddInt64(&e.res.Snapshots, 1)
				} else {
					atomic.AddInt64(&e.res.Files, 1)
				}
				if !ns.passes(f.Name) {
					e.nonconf("MultiDB NoFrameOutsideFilter: LTX frame for %q on the stream of %s (filter %v)", f.Name, ns.name, ns.filter)
				}
			case *litefs.DropDBStreamFrame:
				atomic.AddInt64(&e.res.DropFrames, 1)
				if !ns.passes(f.Name) {
					e.nonconf("MultiDB NoFrameOutsideFilter: DropDB frame for %q on the stream of %s (filter %v)", f.Name, ns.name, ns.filter)
				} else if !own[f.Name] {
					e.nonconf("MultiDB Send: DropDB frame for %q on the stream of %s, which never had a database of its own under that name", f.Name, ns.name)
				}
			}
		}
	})
}

// skipLTX consumes the chunked body of an LTX frame and reports whether it carried a snapshot.
func skipLTX(r io.Reader) (snapshot bool, err error) {
	cr := chunk.NewReader(r)
	hdr, _, err := ltx.DecodeHeader(cr)
	if err != nil {
		return false, err
	}
	if _, err := io.Copy(io.Discard, cr); err != nil {
		return false, err
	}
	return hdr.IsSnapshot(), nil
}
