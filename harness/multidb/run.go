package multidb

import (
	"encoding/json"
	"math/rand"
	"os"
	"sort"
	"strings"
	"sync"
	"time"

	"github.com/superfly/litefs/verifharness/core"
	"github.com/superfly/litefs/verifharness/repl"
)

// tlcStage is one TLC run over MultiDB.tla.
type tlcStage struct {
	Name     string
	Cfg      string
	Emit     bool   // the configuration prints SCRIPT lines
	Expect   string // relevance configuration: the violation TLC must report ("" = none)
	Coverage bool
	Timeout  time.Duration
}

// actions of the specification; with -coverage every one of them must have been taken
var specActions = []string{"Orphan", "Start", "Commit", "Drop", "Block", "Unblock", "Restart", "Sweep", "Connect", "Send", "Take", "Deliver"}

func runTLC(rep *core.Report, st tlcStage, seed int64, sink func(Script)) *core.TLCResult {
	core.Beat("tlc")
	stop := make(chan struct{})
	go func() {
		for {
			select {
			case <-stop:
				return
			case <-time.After(5 * time.Second):
				core.Beat("tlc")
			}
		}
	}()
	defer close(stop)
	if st.Timeout == 0 {
		st.Timeout = 15 * time.Minute
	}
	res, err := core.RunTLC(core.TLCOpts{Module: "MultiDB", Cfg: st.Cfg, Timeout: st.Timeout, Seed: seed, Coverage: st.Coverage,
		OnLine: func(tag string, payload json.RawMessage) {
			if tag != "SCRIPT" || sink == nil {
				return
			}
			var s Script
			if err := json.Unmarshal(payload, &s); err != nil {
				core.Infra("bad SCRIPT line of %s: %v", st.Cfg, err)
			}
			sink(s)
		}})
	if err != nil {
		core.Infra("tlc %s: %v", st.Name, err)
	}
	if st.Expect != "" {
		ok := res.Violation == st.Expect
		if st.Expect == "temporal" && strings.Contains(res.ErrorText, "Error: Temporal propert") {
			ok = true // TLC words it "Temporal property X was violated" for a named property
			res.Violation = "temporal"
		}
		l, _ := rep.Extra["multidb_relevance_runs"].([]any)
		rep.Extra["multidb_relevance_runs"] = append(l, map[string]any{"cfg": st.Cfg, "expected_violation": st.Expect, "found": res.Violation, "as_expected": ok, "distinct": res.Distinct})
		if !ok {
			core.Infra("relevance configuration %s: expected TLC to report %s, got %q (%s)\n%s", st.Cfg, st.Expect, res.Violation, res.Describe(), res.OutputTail)
		}
		return res
	}
	if !res.OK() {
		core.Infra("model checking stage %s failed (a model problem, not a verdict about the code): %s\n%s\n%s", st.Name, res.Describe(), res.ErrorText, res.OutputTail)
	}
	if st.Coverage {
		zero := map[string]bool{}
		for _, a := range res.ZeroCov {
			zero[a] = true
		}
		var never []string
		for _, a := range specActions {
			if zero[a] {
				never = append(never, a)
			}
		}
		l, _ := rep.Extra["multidb_action_coverage"].([]any)
		rep.Extra["multidb_action_coverage"] = append(l, map[string]any{"cfg": st.Cfg, "actions": len(specActions), "never_taken": never})
		if len(never) > 0 {
			core.Infra("stage %s: actions never taken according to TLC's coverage: %v", st.Name, never)
		}
	}
	rep.AddTLC(st.Name, res)
	return res
}

// category of a control script: which part of the stream handler it aims at (used to stratify the sample)
func categories(s Script) []string {
	filter := map[string]bool{}
	for _, f := range s.Filter {
		filter[f] = true
	}
	var out []string
	orphan := map[string]string{} // db -> node
	blocked := map[string]bool{}
	committed := map[string]bool{}
	dropped := map[string]bool{}
	add := func(c string) {
		for _, o := range out {
			if o == c {
				return
			}
		}
		out = append(out, c)
	}
	for _, st := range s.H {
		switch st.A {
		case "Orphan":
			orphan[st.G.DB] = st.G.N
			switch {
			case st.G.N == "n2" && !filter[st.G.DB]:
				add("orphan-outside-filter")
			case st.G.N == "n2":
				add("orphan-inside-filter")
			default:
				add("orphan-unfiltered")
			}
		case "Commit":
			if n, ok := orphan[st.G.DB]; ok {
				add("primary-creates-name-of-orphan/" + n)
			}
			if dropped[st.G.DB] {
				add("recreate-after-drop")
			}
			if len(blocked) > 0 {
				add("commit-while-replica-away")
			}
			if !filter[st.G.DB] {
				add("commit-outside-filter")
			}
			if len(committed) > 0 && !committed[st.G.DB] {
				add("second-database")
			}
			committed[st.G.DB] = true
			dropped[st.G.DB] = false
		case "Drop":
			dropped[st.G.DB] = true
			if len(blocked) > 0 {
				add("drop-while-replica-away")
			}
			if !filter[st.G.DB] {
				add("drop-outside-filter")
			}
		case "Block":
			blocked[st.G.N] = true
		case "Unblock":
			delete(blocked, st.G.N)
		case "Restart":
			add("restart-" + st.G.N)
		case "Sweep":
			add("sweep")
		}
	}
	if len(out) == 0 {
		out = []string{"plain"}
	}
	return out
}

// sample picks about `keep` scripts so that every category is represented; the seed decides which.
func sample(all map[string]Script, keep int, seed int64) []Script {
	keys := make([]string, 0, len(all))
	for k := range all {
		keys = append(keys, k)
	}
	sort.Strings(keys)
	rnd := rand.New(rand.NewSource(seed))
	rnd.Shuffle(len(keys), func(i, j int) { keys[i], keys[j] = keys[j], keys[i] })
	if keep <= 0 || len(keys) <= keep {
		out := make([]Script, 0, len(keys))
		for _, k := range keys {
			out = append(out, all[k])
		}
		return out
	}
	byCat := map[string][]string{}
	var cats []string
	for _, k := range keys {
		for _, c := range categories(all[k]) {
			if _, ok := byCat[c]; !ok {
				cats = append(cats, c)
			}
			byCat[c] = append(byCat[c], k)
		}
	}
	sort.Strings(cats)
	chosen := map[string]bool{}
	var out []Script
	for round := 0; len(out) < keep; round++ {
		progress := false
		for _, c := range cats {
			if round < len(byCat[c]) && len(out) < keep {
				progress = true
				if k := byCat[c][round]; !chosen[k] {
					chosen[k] = true
					out = append(out, all[k])
				}
			}
		}
		if !progress {
			break
		}
	}
	return out
}

type totals struct {
	applies, snaps, files, drops, streams int64
	cats                                  map[string]int
}

// runAll executes the scripts (a few clusters at a time).
func runAll(rep *core.Report, scripts []Script, seed int64, thorough bool, parallel int) {
	base := repl.StdConfigs(thorough)
	type job struct {
		i  int
		sc Script
	}
	jobs := make(chan job)
	var wg sync.WaitGroup
	var mu sync.Mutex
	tot := totals{cats: map[string]int{}}
	const maxViolations = 8
	skipped := 0
	for w := 0; w < parallel; w++ {
		wg.Add(1)
		go func() {
			defer wg.Done()
			for j := range jobs {
				if rep.ViolationCount() >= maxViolations {
					mu.Lock()
					skipped++
					mu.Unlock()
					continue // enough failing scripts to report; each further one may cost a 30 s wait
				}
				cfg := Config{Config: base[(j.i+int(seed))%len(base)], Pace: (j.i/len(base) + int(seed)) % 3}
				r := runOne(rep, j.sc, cfg)
				mu.Lock()
				tot.applies += r.Applies
				tot.snaps += r.Snapshots
				tot.files += r.Files
				tot.drops += r.DropFrames
				tot.streams += r.Streams
				for _, c := range categories(j.sc) {
					tot.cats[c]++
				}
				mu.Unlock()
			}
		}()
	}
	for i, sc := range scripts {
		jobs <- job{i, sc}
	}
	close(jobs)
	wg.Wait()
	add := func(k string, v int64) {
		old, _ := rep.Extra[k].(int64)
		rep.Extra[k] = old + v
	}
	add("multidb_replica_position_changes_observed", tot.applies)
	add("multidb_snapshot_frames_seen", tot.snaps)
	add("multidb_file_frames_seen", tot.files)
	add("multidb_dropdb_frames_seen", tot.drops)
	add("multidb_stream_requests", tot.streams)
	rep.Extra["multidb_scripts_by_category"] = tot.cats
	if skipped > 0 {
		rep.Note("multidb stage: %d scripts not executed after %d violations had been recorded", skipped, maxViolations)
	}
	if len(scripts) > 0 {
		rep.Sample(map[string]any{"multidb_script": scripts[len(scripts)/2].Key()})
	}
}

func runOne(rep *core.Report, sc Script, cfg Config) Result {
	dir := core.Scratch("mcluster")
	r := Run(sc, cfg, dir)
	_ = os.RemoveAll(dir)
	if r.Infra != "" {
		core.Infra("multidb script %s [%s]: %s", sc.Key(), cfg, r.Infra)
	}
	// R5: the convergence monitor is the only one that depends on time (30 s against a typical 0.1 s);
	// its verdict stands only if the same script fails the same way on an immediate second execution
	timing := false
	for _, f := range r.Fails {
		if f.Monitor == "C01.converges" && strings.HasPrefix(f.Sig, "no-convergence/") {
			timing = true
		}
	}
	if timing {
		dir := core.Scratch("mcluster")
		r2 := Run(sc, cfg, dir)
		_ = os.RemoveAll(dir)
		again := false
		for _, f := range r2.Fails {
			if f.Monitor == "C01.converges" {
				again = true
			}
		}
		if r2.Infra == "" && !again {
			rep.Note("multidb script %s [%s]: no convergence within 30 s on the first execution, converged on the immediate second one: not a verdict (R5)", sc.Key(), cfg)
			r = r2
		}
	}
	rep.Eval(int(r.Evals))
	rep.TracesValidated++
	rep.Case("multidb|"+sc.Key()+"|"+cfg.String(), r.Nontrivial)
	for _, f := range r.Fails {
		rep.Violate(f.Monitor, f.Sig, map[string]any{"step": f.Step, "detail": f.Detail, "config": cfg.String(), "script": sc.Key()},
			map[string]any{"mscript": sc, "config": cfg})
	}
	for _, n := range r.Nonconf {
		rep.Nonconf("%s [script %s, %s]", n, sc.Key(), cfg)
	}
	return r
}

// replayFile re-executes the script stored in a replay file of this stage.
func replayFile(rep *core.Report, path string) bool {
	b, err := os.ReadFile(path)
	if err != nil {
		core.Infra("read replay: %v", err)
	}
	var f struct {
		Replay struct {
			Script *Script `json:"mscript"`
			Config Config  `json:"config"`
		} `json:"replay"`
	}
	if err := json.Unmarshal(b, &f); err != nil || f.Replay.Script == nil || len(f.Replay.Script.H) == 0 {
		return false
	}
	// the cluster's goroutines run free: a replay is repeated a few times until a monitor fails
	for i := 0; i < 5 && rep.ViolationCount() == 0; i++ {
		runOne(rep, *f.Replay.Script, f.Replay.Config)
	}
	return true
}

// Stage model-checks MultiDB.tla and executes its control scripts on real clusters. In replay mode it
// re-executes a replay file of its own and finishes the report; other replay files are left alone.
func Stage(rep *core.Report, args *core.Args) {
	if args.Replay != "" {
		if replayFile(rep, args.Replay) {
			rep.Finish()
		}
		return
	}
	t0 := time.Now()
	thorough := !args.Quick()
	rep.Assumptions = append(rep.Assumptions, "multi-database stage: 3 database names, n2 filters on 2 of them, n3 has no filter; the primary never changes after the seed phase (orphan databases are created by a replica-to-be while it alone is primary)")
	all := map[string]Script{}
	var mu sync.Mutex
	sink := func(s Script) {
		k := s.Key()
		mu.Lock()
		if _, ok := all[k]; !ok {
			all[k] = s
		}
		mu.Unlock()
	}
	stages := []tlcStage{
		// -coverage costs about 40% of TLC's time: thorough tier only (the quick tier checks instead that
		// every control action occurs in the emitted scripts)
		{Name: "multidb-n2-filter-3db-3tx-2faults-1orphan", Cfg: "MC_MultiDB_q_n2.cfg", Emit: true, Coverage: thorough},
		{Name: "multidb-n3-nofilter-2db-3tx-2faults-1orphan", Cfg: "MC_MultiDB_q_n3.cfg", Emit: true, Coverage: thorough},
	}
	if thorough {
		stages = append(stages,
			tlcStage{Name: "multidb-n3-nofilter-3db-3tx-2faults-1orphan", Cfg: "MC_MultiDB_t_n3s.cfg", Emit: true},
			tlcStage{Name: "multidb-pair-3db-2tx-2faults-1orphan", Cfg: "MC_MultiDB_t_pair.cfg", Emit: true},
			tlcStage{Name: "multidb-n2-orphan-ahead-3db-2tx-1fault", Cfg: "MC_MultiDB_t_o2_n2.cfg", Emit: true},
			tlcStage{Name: "multidb-n3-orphan-ahead-3db-2tx-1fault", Cfg: "MC_MultiDB_t_o2_n3.cfg", Emit: true},
			tlcStage{Name: "multidb-pair-3db-3tx-1fault", Cfg: "MC_MultiDB_t_both.cfg"},
			tlcStage{Name: "multidb-n2-filter-3db-4tx-2faults-1orphan", Cfg: "MC_MultiDB_t_n2.cfg"},
			tlcStage{Name: "multidb-n3-nofilter-3db-4tx-2faults-1orphan", Cfg: "MC_MultiDB_t_n3.cfg"},
			tlcStage{Name: "multidb-liveness-n2", Cfg: "MC_MultiDB_live_n2.cfg"},
			tlcStage{Name: "multidb-liveness-n3", Cfg: "MC_MultiDB_live_n3.cfg"},
			tlcStage{Name: "multidb-alt-replica-applies-dropdb", Cfg: "MC_MultiDB_alt_applydrop.cfg"},
			// relevance: one guard of the stream handler removed in the model; TLC must report the property
			tlcStage{Name: "multidb-mut-filter-first-round-only", Cfg: "MC_MultiDB_mut_round.cfg", Expect: "FilterRespected"},
			tlcStage{Name: "multidb-mut-dropdb-frame-unfiltered", Cfg: "MC_MultiDB_mut_dropf.cfg", Expect: "NoFrameOutsideFilter"},
			tlcStage{Name: "multidb-mut-dropdb-frame-unfiltered-applied", Cfg: "MC_MultiDB_mut_dropf_apply.cfg", Expect: "FilterRespected"},
			tlcStage{Name: "multidb-mut-foreign-posmap-entry", Cfg: "MC_MultiDB_mut_entry.cfg", Expect: "temporal"},
			tlcStage{Name: "multidb-mut-equal-txid-checksum-ignored", Cfg: "MC_MultiDB_mut_chk.cfg", Expect: "QuiescentConverged"},
		)
	}
	// the two script-emitting configurations are independent: run them side by side
	var wg sync.WaitGroup
	for _, st := range stages[:2] {
		st := st
		wg.Add(1)
		go func() { defer wg.Done(); runTLC(rep, st, args.Seed, sink) }()
	}
	wg.Wait()
	for _, st := range stages[2:] {
		var s func(Script)
		if st.Emit {
			s = sink
		}
		runTLC(rep, st, args.Seed, s)
	}
	kinds := map[string]int{}
	for _, sc := range all {
		for _, st := range sc.H {
			k := st.A
			if st.A == "Restart" && st.G.N == "n1" {
				k = "Restart(primary)"
			}
			kinds[k]++
		}
	}
	for _, k := range []string{"Orphan", "Commit", "Drop", "Block", "Unblock", "Restart", "Restart(primary)", "Sweep"} {
		if kinds[k] == 0 {
			core.Infra("multidb stage: control action %s occurs in no emitted script", k)
		}
	}
	rep.Extra["multidb_control_actions_in_emitted_scripts"] = kinds
	scripts := sample(all, core.Pick(args, 160, 2500), args.Seed)
	rep.Note("multidb stage: %d distinct control scripts emitted by TLC, %d kept for execution (stratified by category, seed %d)", len(all), len(scripts), args.Seed)
	runAll(rep, scripts, args.Seed, thorough, 6)
	rep.Note("multidb stage took %.1fs", time.Since(t0).Seconds())
}
