// Development aid: runs the two-writers schedules on the real code and prints what each observed
// (go run -tags verif ./twowriters/probe [-v]); no report, no verdict.
package main

import (
	"fmt"
	"os"
	"time"

	"github.com/superfly/litefs/verifharness/core"
	"github.com/superfly/litefs/verifharness/twowriters"
)

func main() {
	defer core.Cleanup()
	verbose := len(os.Args) > 1 && os.Args[1] == "-v"
	t0 := time.Now()
	for _, cb := range twowriters.Combos(4096) {
		twowriters.RunCombo(cb, func(r twowriters.Result) { show(r, verbose) })
	}
	fmt.Println("wall", time.Since(t0))
}

func show(r twowriters.Result, verbose bool) {
	{
		c := r.Case
		fmt.Printf("%-60s fired=%v granted=%v (%s) commits=%d txid %d->%d order=%v files=%v fails=%d nonconf=%d infra=%q\n",
			c, r.Fired, r.Granted, r.BErr, r.Commits, r.TXID0, r.TXID, r.Order, r.FileWriters, len(r.Fails), len(r.Nonconf), r.Infra)
		if verbose || len(r.Fails) > 0 || len(r.Nonconf) > 0 {
			fmt.Printf("   ops %v\n", r.HookSeen)
			for _, f := range r.Files {
				fmt.Println("   " + f)
			}
			for _, f := range r.Fails {
				fmt.Printf("   FAIL %s %s\n", f.Monitor, f.Sig)
			}
			for _, n := range r.Nonconf {
				fmt.Println("   NONCONF " + n)
			}
		}
	}
}
