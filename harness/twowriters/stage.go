// Package twowriters is a stage shared by the checks C03 and C11: two SQLite connections write ONE
// WAL-mode database of one real node, and the second connection asks for WAL_WRITE_LOCK at every
// labelled file operation the real DB.CommitWAL makes while the first connection's unlock of
// WAL_WRITE_LOCK is being handled (the capture of its just-committed transaction).
//
// spec -> impl: spec/WalRelease.tla. With CaptureUnderLock = TRUE (what the code does: DB.Unlock runs
// CommitWAL before it unlocks the guards) TLC proves PosCountsReleases, ChainExact, NoRewrite,
// PosMonotone and NoGrantDuringCapture for every interleaving; with CaptureUnderLock = FALSE
// (MC_WalRelease_asseeded*.cfg) it finds the first two violated. The one step that distinguishes the
// two - Begin(B) while Release(A) is capturing - is executed here on the real code from inside the
// store's OS interface (sim.OSWrap.Before, first/second/... operation labelled COMMITWAL*) through the
// real FUSE handler. As coded it is refused (EAGAIN): the modelled behaviour. If it is granted, B
// appends a committed one-page transaction and releases right there, then A's capture continues. The
// verdict comes from real observations only, the model's invariants evaluated as monitors: the
// position advanced by the number of committed transactions, the LTX directory is one verifying chain
// ending at the position, the LTX files replayed over the empty image give the image SQLite sees, no
// fatal exit. The final outcome (order of commits, TXID, files) is compared with the FINAL states TLC
// emits (conformance).
package twowriters

import (
	"encoding/json"
	"errors"
	"fmt"
	"os"
	"sort"
	"strings"
	"sync"
	"syscall"
	"time"

	"bazil.org/fuse"
	"github.com/superfly/litefs"
	"github.com/superfly/litefs/verifharness/core"
	"github.com/superfly/litefs/verifharness/sim"
)

const dbName = "db"

// Case is one deterministic schedule.
type Case struct {
	APages   []int  `json:"a_pages"`    // model pages of A's transaction
	BPage    int    `json:"b_page"`     // model page of B's transaction
	Ckpt     bool   `json:"checkpoint"` // a client checkpoint (and log restart with new salts) precedes A's transaction
	HookAt   int    `json:"hook_at"`    // B asks for WRITE at the HookAt-th COMMITWAL-labelled operation of A's capture
	PageSize uint32 `json:"page_size"`
	SplitHdr bool   `json:"split_hdr"`
}

func (c Case) String() string {
	return fmt.Sprintf("A=%v B=%d ckpt=%v hook=%d ps=%d split=%v", c.APages, c.BPage, c.Ckpt, c.HookAt, c.PageSize, c.SplitHdr)
}

// shape is the part of a case that classifies a failing input (page size and split writes do not).
func (c Case) shape() string {
	same := "other-page"
	for _, p := range c.APages {
		if p == c.BPage {
			same = "same-page"
		}
	}
	ck := "log-continues"
	if c.Ckpt {
		ck = "log-restarted"
	}
	return fmt.Sprintf("a%dpg/%s/%s/hook%d", len(c.APages), same, ck, c.HookAt)
}

// maxHookPoints bounds the hook positions tried per combination (the real capture makes 5 labelled operations).
const maxHookPoints = 12

// Combos enumerates the schedules up to the hook position: A's transaction of 1..2 pages, B's of one
// page (a page of A's / a different one), with and without a preceding checkpoint.
func Combos(pageSize uint32) []Case {
	var out []Case
	for _, ap := range [][]int{{2}, {2, 3}} {
		for _, bp := range []int{2, 4} {
			for _, ck := range []bool{false, true} {
				out = append(out, Case{APages: ap, BPage: bp, Ckpt: ck, PageSize: pageSize})
			}
		}
	}
	return out
}

// RunCombo runs one combination with the hook at the first, second, ... labelled operation of A's capture,
// each a case of its own on a fresh node, until a hook position lies beyond the capture's last operation
// (that last case is the plain sequence "A commits, then B commits").
func RunCombo(c Case, each func(Result)) {
	for k := 1; k <= maxHookPoints; k++ {
		c.HookAt = k
		c.SplitHdr = (k+len(c.APages))%2 == 0
		r := RunCase(c)
		each(r)
		if !r.Fired || r.Infra != "" {
			return
		}
	}
}

// Fail is one failed monitor of a case.
type Fail struct {
	Monitor string // suffix of the monitor id (without the property prefix)
	Sig     string
	Detail  any
}

// Result is what one case observed.
type Result struct {
	Case        Case
	HookSeen    []string // labelled operations seen during A's unlock, in order
	Fired       bool     // the HookAt-th operation happened
	Granted     bool     // B obtained WRITE during A's capture
	BErr        string   // error of B's attempt during the capture (EAGAIN expected)
	Commits     int      // committed transactions whose unlock call returned
	Order       []string // order in which the commits were appended to the log
	TXID0, TXID uint64
	Files       []string
	FileWriters []string // per transaction file written by the case, in TXID order: "A" / "B" (whose page versions it holds), "?" otherwise
	Fails       []Fail
	Nonconf     []string
	Infra       string
}

const nsPages = 4

type env struct {
	c    Case
	node *sim.Node
	db   *litefs.DB
	l    sim.Layout
	a, b *sim.Conn
	pa   *sim.Pager
	pb   *sim.Pager
	ver  int
	verA int // version stamp of the pages of A's transaction
	verB int
	res  *Result
}

func (e *env) commitJ(pg *sim.Pager, pages []int, toWal bool) error {
	e.ver++
	pl := sim.Plan{Kind: "j", Ns: nsPages, M: pages, Out: "commit", Fin: "DELETE", V: e.ver, Wal: toWal}
	for _, f := range []func() error{func() error { return pg.BeginJ(pl) }, pg.JCreate, pg.JSync} {
		if err := f(); err != nil {
			return err
		}
	}
	for _, q := range pl.M {
		if err := pg.JPage(q); err != nil {
			return err
		}
	}
	if err := pg.JFinal(); err != nil {
		return err
	}
	pg.EndJ()
	return nil
}

// writeW begins a WAL transaction and writes its frames (the caller ends it).
func (e *env) writeW(pg *sim.Pager, pages []int, newHdr bool) error {
	e.ver++
	pl := sim.Plan{Kind: "w", Ns: nsPages, M: pages, Out: "commit", V: e.ver, Wal: true}
	if err := pg.BeginW(pl); err != nil {
		return err
	}
	if newHdr {
		if err := pg.WHdr(e.ver); err != nil {
			return err
		}
	}
	for i, q := range pl.M {
		if err := pg.WFrame(q, false, i == len(pl.M)-1); err != nil {
			return err
		}
	}
	return nil
}

// RunCase executes one schedule on a fresh node.
func RunCase(c Case) (res Result) {
	res.Case = c
	dir := core.Scratch("twowriters")
	defer os.RemoveAll(dir)
	n, err := sim.OpenNode(sim.NodeOpts{Dir: dir, Primary: true})
	if err != nil {
		res.Infra = fmt.Sprintf("open node: %v", err)
		return
	}
	defer func() { _ = core.Try(n.Close) }()
	e := &env{c: c, node: n, l: sim.L0(c.PageSize), res: &res}
	e.a, e.b = n.Connect(dbName, 201), n.Connect(dbName, 202)
	defer func() { _ = core.Try(func() { e.a.Close(); e.b.Close() }) }()
	opts := sim.PagerOpts{SplitHdr: c.SplitHdr}
	e.pa, e.pb = sim.NewPager(e.a, e.l, opts), sim.NewPager(e.b, e.l, opts)

	// ---- set-up through connection A: a 4-page database, switched to WAL mode, one WAL transaction ----
	setup := func() error {
		if err := e.a.OpenDB(true); err != nil {
			return err
		}
		if err := e.commitJ(e.pa, []int{1, 2, 3, 4}, false); err != nil {
			return fmt.Errorf("first transaction: %w", err)
		}
		if err := e.commitJ(e.pa, []int{1}, true); err != nil {
			return fmt.Errorf("switch to WAL: %w", err)
		}
		if err := e.writeW(e.pa, []int{1, 3}, true); err != nil {
			return fmt.Errorf("first WAL transaction: %w", err)
		}
		if err := e.pa.WEnd(); err != nil {
			return fmt.Errorf("first WAL transaction: %w", err)
		}
		if c.Ckpt {
			if err := e.pa.Ckpt("PASSIVE"); err != nil {
				return fmt.Errorf("checkpoint: %w", err)
			}
		}
		return nil
	}
	var serr error
	if p := core.Try(func() { serr = setup() }); p != nil {
		res.Infra = fmt.Sprintf("set-up panicked: %v", p.Value)
		return
	}
	if serr != nil {
		res.Infra = "set-up: " + serr.Error()
		return
	}
	e.db = n.Store.DB(dbName)
	if e.db == nil || e.db.Mode() != litefs.DBModeWAL || len(n.Exits()) > 0 {
		res.Infra = fmt.Sprintf("set-up did not produce a WAL-mode database (exits %v)", n.Exits())
		return
	}
	// B is an open, idle WAL connection
	for _, f := range []func() error{func() error { return e.b.OpenDB(false) }, e.b.OpenSHM,
		func() error { return e.b.LockSHM(fuse.LockRead, 128, 128) }, e.b.OpenWAL} {
		if err := f(); err != nil {
			res.Infra = fmt.Sprintf("open connection B: %v", err)
			return
		}
	}
	res.TXID0 = uint64(e.db.Pos().TXID)

	// ---- A's transaction; the hook fires inside the handling of A's unlock of WAL_WRITE_LOCK ----
	if err := e.writeW(e.pa, c.APages, c.Ckpt); err != nil {
		res.Infra = fmt.Sprintf("A's transaction: %v", err)
		return
	}
	e.verA = e.ver
	var mu sync.Mutex
	inHook := false
	hookDone := false
	n.OS.Before = func(ev sim.OSEvent) error {
		if !strings.HasPrefix(ev.Label, "COMMITWAL") {
			return nil
		}
		mu.Lock()
		if inHook || hookDone {
			mu.Unlock()
			return nil
		}
		res.HookSeen = append(res.HookSeen, ev.Call+":"+ev.Label)
		fire := len(res.HookSeen) == c.HookAt
		if fire {
			inHook = true
		}
		mu.Unlock()
		if !fire {
			return nil
		}
		res.Fired = true
		// B's request is issued from its own goroutine (its own FUSE request); A's capture waits for it
		done := make(chan struct{})
		go func() {
			defer close(done)
			if p := core.Try(func() { e.bDuringCapture() }); p != nil {
				res.Fails = append(res.Fails, Fail{"no-panic", "panic/second-writer-during-capture/" + c.shape(), map[string]any{"panic": fmt.Sprint(p.Value), "stack": p.Stack}})
			}
		}()
		core.Beat("real:twowriters:second-writer-during-capture")
		select {
		case <-done:
		case <-time.After(30 * time.Second):
			res.Fails = append(res.Fails, Fail{"no-hang", "hang/second-writer-during-capture/" + c.shape(), map[string]any{"waited": "30s"}})
		}
		mu.Lock()
		inHook, hookDone = false, true
		mu.Unlock()
		return nil
	}
	core.Beat("real:twowriters:A-unlock")
	var aerr error
	pn := core.Try(func() { aerr = e.pa.WEnd() })
	n.OS.Before = nil
	core.Beat("harness")
	if pn != nil {
		res.Fails = append(res.Fails, Fail{"no-panic", "panic/unlock-write/" + c.shape(), map[string]any{"panic": fmt.Sprint(pn.Value), "stack": pn.Stack}})
		return
	}
	if aerr != nil {
		res.Nonconf = append(res.Nonconf, fmt.Sprintf("A's unlock of WAL_WRITE_LOCK returned %v", aerr))
	} else {
		res.Commits++
	}
	if res.Granted {
		res.Order = []string{"A", "B"}
	} else {
		res.Order = []string{"A"}
		// C03, per release: one committed transaction, one release, the position advanced by exactly one
		if got := uint64(e.db.Pos().TXID); aerr == nil && got != res.TXID0+1 {
			res.Fails = append(res.Fails, Fail{"position-advances-per-commit", "release-moved-position-by-" + fmt.Sprint(int64(got)-int64(res.TXID0)) + "/single-writer/" + c.shape(),
				map[string]any{"txid_before": res.TXID0, "txid_after": got}})
		}
		// B was refused during the capture (or the hook point does not exist): it retries now, like a busy handler
		var berr error
		if p := core.Try(func() { berr = e.bTransaction() }); p != nil {
			res.Fails = append(res.Fails, Fail{"no-panic", "panic/second-writer-after-release/" + c.shape(), map[string]any{"panic": fmt.Sprint(p.Value), "stack": p.Stack}})
			return
		}
		if berr != nil {
			res.Nonconf = append(res.Nonconf, fmt.Sprintf("B's transaction after A's release failed: %v", berr))
		} else {
			res.Commits++
			res.Order = append(res.Order, "B")
		}
	}
	e.monitors()
	return
}

// bDuringCapture: B asks for WAL_WRITE_LOCK (non-blocking, through the real handler) while A's unlock
// is capturing; if granted it commits a one-page transaction and releases.
func (e *env) bDuringCapture() {
	e.pb.AdoptFrom(e.pa) // SQLite's wal-index as A leaves it: A's transaction is complete in the log
	err := e.writeW(e.pb, []int{e.c.BPage}, false)
	e.verB = e.ver
	if err != nil {
		e.res.BErr = err.Error()
		if isEAGAIN(err) {
			e.res.BErr += " (EAGAIN)"
		}
		// BeginW leaves the read mark behind when WRITE is refused
		_ = e.b.LockSHM(fuse.LockUnlock, 124, 124)
		if !isEAGAIN(err) || e.pb.OpenFrames() > 0 {
			e.res.Nonconf = append(e.res.Nonconf, fmt.Sprintf("B's attempt during the capture failed with %s after %d frames (EAGAIN on the lock request expected)", sim.ErrString(err), e.pb.OpenFrames()))
			_ = e.b.LockSHM(fuse.LockUnlock, 120, 120)
		}
		return
	}
	e.res.Granted = true
	if err := e.pb.WEnd(); err != nil {
		e.res.Nonconf = append(e.res.Nonconf, fmt.Sprintf("B's unlock of WAL_WRITE_LOCK (during A's capture) returned %v", err))
		return
	}
	e.res.Commits++
}

// isEAGAIN looks through the pager's error wrapping for the errno the kernel would return.
func isEAGAIN(err error) bool {
	for ; err != nil; err = errors.Unwrap(err) {
		if sim.Errno(err) == syscall.EAGAIN {
			return true
		}
	}
	return false
}

// bTransaction: B's transaction after A's unlock call returned.
func (e *env) bTransaction() error {
	e.pb.AdoptFrom(e.pa)
	err := e.writeW(e.pb, []int{e.c.BPage}, false)
	e.verB = e.ver
	if err != nil {
		_ = e.b.LockSHM(fuse.LockUnlock, 120, 127)
		return err
	}
	return e.pb.WEnd()
}

// monitors evaluates the invariants of WalRelease.tla on what the real node shows now (both unlock
// calls have returned: no capture is pending).
func (e *env) monitors() {
	res, c := e.res, e.c
	dbDir := e.node.DBDir(dbName)
	pos := e.db.Pos()
	res.TXID = uint64(pos.TXID)
	files, _ := sim.ListLTX(dbDir)
	for _, f := range files {
		var pg []int
		for p := range f.Pages {
			pg = append(pg, int(p))
		}
		sort.Ints(pg)
		res.Files = append(res.Files, fmt.Sprintf("%s pages=%v commit=%d pre=%016x post=%016x %s", f.Name, pg, f.Commit, f.Pre, f.Post, f.Err))
		if f.Min > res.TXID0 {
			who := ""
			for p, b := range f.Pages {
				w := "?"
				if ct, ok := e.l.DecodePage(p, b); ok && ct.V == e.verA {
					w = "A"
				} else if ok && ct.V == e.verB {
					w = "B"
				}
				if who == "" {
					who = w
				} else if who != w {
					who = "?"
				}
			}
			res.FileWriters = append(res.FileWriters, who)
		}
	}
	during := "after-release"
	if res.Granted {
		during = "during-capture"
	}
	detail := func(extra map[string]any) map[string]any {
		d := map[string]any{"case": c.String(), "second_writer_granted_during_capture": res.Granted, "capture_operations_seen": res.HookSeen,
			"commits": res.Commits, "commit_order": res.Order, "txid_before": res.TXID0, "position": pos.String(), "ltx_files": res.Files}
		for k, v := range extra {
			d[k] = v
		}
		return d
	}
	// no fatal exit
	if ex := e.node.Exits(); len(ex) > 0 {
		res.Fails = append(res.Fails, Fail{"no-exit", "exit/two-writers/" + during + "/" + c.shape(), detail(map[string]any{"codes": ex})})
	}
	// PosCountsReleases: every release followed one committed transaction
	if adv := int64(res.TXID) - int64(res.TXID0); adv != int64(res.Commits) {
		res.Fails = append(res.Fails, Fail{"position-advances-per-commit", fmt.Sprintf("position-advanced-%d-for-%d-commits/second-writer-%s/%s", adv, res.Commits, during, c.shape()), detail(nil)})
	}
	// ChainExact, part 1: one verifying chain that ends at the position
	if pr := sim.ChainProblems(dbDir, uint64(pos.TXID), uint64(pos.PostApplyChecksum)); len(pr) > 0 {
		res.Fails = append(res.Fails, Fail{"ltx-chain", "ltx-chain-broken/second-writer-" + during + "/" + c.shape(), detail(map[string]any{"problems": pr})})
	}
	// ChainExact, part 2: the files applied one after the other give the image SQLite sees
	view, ok, err := sim.SQLiteView(dbDir, c.PageSize)
	src := "wal-index"
	if !ok || err != nil {
		view, err = sim.DiskImage(dbDir, c.PageSize)
		src = "database file + own walk of the log"
	}
	if err != nil {
		res.Infra = fmt.Sprintf("read the database image: %v", err)
		return
	}
	im := sim.Image{Pages: map[uint32][]byte{}}
	for _, f := range files {
		if f.Err == "" {
			im = f.Apply(im)
		}
	}
	if same, why := im.Equal(view, e.l.LockPgno()); !same {
		model, _ := e.l.ModelOf(view)
		replayed, _ := e.l.ModelOf(im)
		res.Fails = append(res.Fails, Fail{"ltx-replay-equals-sqlite-image", "ltx-replay-differs/second-writer-" + during + "/" + c.shape(),
			detail(map[string]any{"difference": why, "image_source": src, "sqlite_sees": fmt.Sprint(model), "ltx_replay_gives": fmt.Sprint(replayed)})})
	} else if got := im.Checksum(e.l.LockPgno()); uint64(pos.PostApplyChecksum) != got {
		res.Fails = append(res.Fails, Fail{"ltx-replay-equals-sqlite-image", "position-checksum-differs/second-writer-" + during + "/" + c.shape(),
			detail(map[string]any{"from_scratch": fmt.Sprintf("%016x", got)})})
	}
	// the harness's own reference: SQLite (the two pagers) believes both transactions are committed
	if want := e.l.ImageOf(e.pb.Ref); res.Commits == 2 {
		if same, why := want.Equal(view, e.l.LockPgno()); !same {
			res.Nonconf = append(res.Nonconf, fmt.Sprintf("the image read from disk differs from the two connections' reference image: %s", why))
		}
	}
}

// ---- stage ----

type finalRec struct {
	Order []string `json:"order"`
	TXID  int      `json:"txid"`
	Files []int    `json:"files"`
}

func runTLC(rep *core.Report, name, cfg string, onLine func(string, json.RawMessage)) *core.TLCResult {
	core.Beat("tlc:" + name)
	stop := make(chan struct{})
	go func() {
		for {
			select {
			case <-stop:
				return
			case <-time.After(3 * time.Second):
				core.Beat("tlc:" + name)
			}
		}
	}()
	defer func() { close(stop); core.Beat("harness") }()
	res, err := core.RunTLC(core.TLCOpts{Module: "WalRelease", Cfg: cfg, Workers: 2, Timeout: 5 * time.Minute, OnLine: onLine})
	if err != nil {
		core.Infra("tlc %s: %v", cfg, err)
	}
	return res
}

// Stage model-checks WalRelease.tla and runs every schedule on the real code. prop is the property
// of the calling check: under C03 a failed monitor is a violation of C03's clauses (position advances
// by one per captured commit; the transaction files applied in order give the image SQLite sees; no
// fatal exit). C11's statement is about LiteFS changing a database FILE on its own; the capture writes
// a transaction file and the position, so under C11 the stage contributes conformance only: a WRITE
// grant during the capture, and any failed monitor, are recorded as non-conformance with WalRelease.tla.
func Stage(rep *core.Report, args *core.Args, prop string) {
	t0 := time.Now()
	// ---- model ----
	finals := map[string]bool{}
	var fmu sync.Mutex
	res := runTLC(rep, "walrelease", "MC_WalRelease.cfg", func(tag string, payload json.RawMessage) {
		if tag != "FINAL" {
			return
		}
		var f finalRec
		if err := json.Unmarshal(payload, &f); err != nil {
			core.Infra("bad FINAL line: %v: %s", err, payload)
		}
		// projection compared with the real outcome: the writers of the last two transactions and the
		// writers of the transactions held by the last two files
		if n, m := len(f.Order), len(f.Files); n >= 2 && m >= 2 && f.Files[m-2] >= 1 && f.Files[m-2] <= n && f.Files[m-1] >= 1 && f.Files[m-1] <= n {
			fmu.Lock()
			finals[fmt.Sprint(f.Order[n-2:], []string{f.Order[f.Files[m-2]-1], f.Order[f.Files[m-1]-1]})] = true
			fmu.Unlock()
		}
	})
	if !res.OK() {
		core.Infra("model checking of MC_WalRelease.cfg failed (a model problem, not a verdict about the code): %s\n%s", res.Describe(), res.OutputTail)
	}
	rep.AddTLC("walrelease", res)
	if len(finals) == 0 {
		core.Infra("MC_WalRelease.cfg emitted no FINAL state")
	}
	if !args.Quick() {
		for _, rc := range [][2]string{{"MC_WalRelease_asseeded.cfg", "PosCountsReleases"}, {"MC_WalRelease_asseeded_chain.cfg", "ChainExact"}} {
			r := runTLC(rep, "walrelease-asseeded", rc[0], nil)
			if r.TimedOut || r.Violation != rc[1] {
				core.Infra("relevance configuration %s: expected TLC to report a violation of %s, got %s\n%s", rc[0], rc[1], r.Describe(), r.OutputTail)
			}
			l, _ := rep.Extra["relevance"].([]any)
			rep.Extra["relevance"] = append(l, map[string]any{"cfg": rc[0], "violated_as_expected": rc[1], "states_until_found": r.Distinct})
		}
	}
	// ---- real code ----
	sizes := []uint32{4096, 512, 1024}
	ps := sizes[int(args.Seed)%len(sizes)]
	combos := Combos(ps)
	if !args.Quick() {
		for _, sz := range sizes {
			if sz != ps {
				combos = append(combos, Combos(sz)...)
			}
		}
	}
	stats := map[string]int{}
	maxOps, cases := 0, 0
	for _, cb := range combos {
		RunCombo(cb, func(r Result) {
			cases++
			report(rep, prop, r, finals)
			switch {
			case r.Infra != "":
				core.Infra("two-writers stage, case %s: %s", r.Case, r.Infra)
			case !r.Fired:
				stats["no second writer during the capture (hook position beyond its last operation)"]++
			case r.Granted:
				stats["second writer granted during capture"]++
			default:
				stats["second writer refused during capture"]++
			}
			if len(r.HookSeen) > maxOps {
				maxOps = len(r.HookSeen)
			}
		})
	}
	if maxOps >= maxHookPoints {
		rep.Note("two-writers stage: the capture made at least %d labelled operations, only the first %d were used as hook points", maxOps, maxHookPoints)
	}
	rep.Extra["two_writers"] = map[string]any{"cases": cases, "outcomes": stats, "labelled_operations_of_one_capture": maxOps, "wall_s": time.Since(t0).Seconds()}
}

// report turns the observations of one case into evidence for the calling check.
func report(rep *core.Report, prop string, r Result, finals map[string]bool) {
	c := r.Case
	if r.Infra != "" {
		return
	}
	rep.Eval(5)
	rep.Case("twowriters/"+c.String(), r.Commits > 0)
	rep.TracesValidated++
	replay := map[string]any{"kind": "twowriters", "twowriters_case": c}
	for _, nc := range r.Nonconf {
		rep.Nonconf("two writers (%s): %s", c, nc)
	}
	if r.Granted {
		// NoGrantDuringCapture of the model; not a clause of either property by itself (a design with a
		// capture mutex of its own could be correct): conformance only
		rep.Nonconf("two writers (%s): connection B was granted WAL_WRITE_LOCK at %s while the unlock of connection A was still capturing A's transaction (WalRelease.tla, as coded: refused)",
			c, r.HookSeen[len(r.HookSeen)-1])
	}
	for _, f := range r.Fails {
		if prop == "C03" || f.Monitor == "no-panic" || f.Monitor == "no-hang" || f.Monitor == "no-exit" {
			rep.Violate(prop+"."+f.Monitor, f.Sig, f.Detail, replay)
		} else {
			rep.Nonconf("two writers (%s): monitor %s failed (%s); not a clause of %s, see C03", c, f.Monitor, f.Sig, prop)
		}
	}
	if len(r.Fails) == 0 && r.Commits == 2 {
		// conformance of the outcome with the model's quiescent final states
		if !finals[fmt.Sprint(r.Order, r.FileWriters)] {
			rep.Nonconf("two writers (%s): outcome (commit order %v, transaction files hold the pages of %v) is not a final state of WalRelease.tla", c, r.Order, r.FileWriters)
		}
	}
	if len(r.Fails) > 0 {
		rep.Sample(map[string]any{"two_writers_case": c.String(), "files": r.Files})
	}
}

// MaybeReplay handles a -replay file written by this stage; false = the file is not one of ours.
func MaybeReplay(rep *core.Report, args *core.Args, prop string) bool {
	if args.Replay == "" {
		return false
	}
	b, err := os.ReadFile(args.Replay)
	if err != nil {
		return false
	}
	return ReplayFile(rep, prop, b)
}

// ReplayFile re-executes the case stored in a replay file.
func ReplayFile(rep *core.Report, prop string, b []byte) bool {
	var f struct {
		Replay struct {
			Kind string `json:"kind"`
			Case *Case  `json:"twowriters_case"`
		} `json:"replay"`
	}
	if json.Unmarshal(b, &f) != nil || f.Replay.Case == nil {
		return false
	}
	r := RunCase(*f.Replay.Case)
	if r.Infra != "" {
		core.Infra("two-writers replay: %s", r.Infra)
	}
	fmt.Printf("case %s\n  capture operations: %v\n  second writer granted during capture: %v (%s)\n  commits %d, TXID %d -> %d\n", r.Case, r.HookSeen, r.Granted, r.BErr, r.Commits, r.TXID0, r.TXID)
	for _, l := range r.Files {
		fmt.Println("  " + l)
	}
	report(rep, prop, r, map[string]bool{fmt.Sprint(r.Order, r.Order): true})
	return true
}
