package core

import (
	"flag"
	"fmt"
	"os"
	"path/filepath"
	"strconv"
	"strings"
	"sync"
	"sync/atomic"
	"syscall"
	"time"
)

// VerifRoot is the root of the verification tree (default /verif, override with VERIF_ROOT).
func VerifRoot() string {
	if v := os.Getenv("VERIF_ROOT"); v != "" {
		return v
	}
	return "/verif"
}

// SpecDir holds the TLA+ modules and configs.
func SpecDir() string { return filepath.Join(VerifRoot(), "spec") }

var (
	scratchMu   sync.Mutex
	scratchRoot string
	scratchSeq  atomic.Int64
)

// ScratchRoot returns the per-process scratch directory (under /dev/shm, else /var/tmp).
func ScratchRoot() string {
	scratchMu.Lock()
	defer scratchMu.Unlock()
	if scratchRoot != "" {
		return scratchRoot
	}
	base := "/dev/shm"
	if fi, err := os.Stat(base); err != nil || !fi.IsDir() {
		base = "/var/tmp"
	}
	if v := os.Getenv("VERIF_SCRATCH"); v != "" {
		base = v
	}
	sweepStaleScratch(base)
	d, err := os.MkdirTemp(base, fmt.Sprintf("verif-%d-", os.Getpid()))
	if err != nil {
		panic(err)
	}
	scratchRoot = d
	return d
}

// sweepStaleScratch removes scratch roots left by check processes that were killed (out of memory, a hard
// time limit) before they could clean up: verif-<pid>-* whose process is gone. /dev/shm is RAM.
func sweepStaleScratch(base string) {
	ents, err := os.ReadDir(base)
	if err != nil {
		return
	}
	for _, e := range ents {
		var pid int
		var rest string
		if n, _ := fmt.Sscanf(strings.Replace(e.Name(), "-", " ", 2), "verif %d %s", &pid, &rest); n != 2 || pid <= 1 || !e.IsDir() {
			continue
		}
		if err := syscall.Kill(pid, 0); err == nil || err == syscall.EPERM {
			continue // still running
		}
		if fi, err := e.Info(); err != nil || time.Since(fi.ModTime()) < 2*time.Minute {
			continue
		}
		_ = os.RemoveAll(filepath.Join(base, e.Name()))
	}
}

// Scratch returns a fresh directory under the per-process scratch root.
func Scratch(name string) string {
	d := filepath.Join(ScratchRoot(), fmt.Sprintf("%s-%d", name, scratchSeq.Add(1)))
	if err := os.MkdirAll(d, 0o777); err != nil {
		panic(err)
	}
	return d
}

// Cleanup removes the per-process scratch root.
func Cleanup() {
	scratchMu.Lock()
	defer scratchMu.Unlock()
	if scratchRoot != "" {
		_ = os.RemoveAll(scratchRoot)
		scratchRoot = ""
	}
}

// Args are the common command-line / environment parameters of every check.
type Args struct {
	Tier   string // quick | thorough
	Seed   int64
	Replay string // path of a replay file, or ""
	Start  time.Time
	Extra  map[string]string
}

// ParseArgs reads -tier/-seed/-replay and VERIF_SEED / VERIF_TIER.
func ParseArgs() *Args {
	raiseDescriptorLimit()
	a := &Args{Start: time.Now(), Extra: map[string]string{}}
	tier := flag.String("tier", "", "quick|thorough")
	seed := flag.Int64("seed", -1, "random seed (default VERIF_SEED or 1)")
	replay := flag.String("replay", "", "replay file")
	flag.Parse()
	a.Tier = *tier
	if a.Tier == "" {
		a.Tier = os.Getenv("VERIF_TIER")
	}
	if a.Tier == "" {
		a.Tier = "quick"
	}
	if a.Tier != "quick" && a.Tier != "thorough" {
		fmt.Fprintf(os.Stderr, "invalid tier %q\n", a.Tier)
		os.Exit(2)
	}
	a.Seed = *seed
	if a.Seed < 0 {
		if v := os.Getenv("VERIF_SEED"); v != "" {
			if n, err := strconv.ParseInt(v, 10, 64); err == nil {
				a.Seed = n
			}
		}
	}
	if a.Seed < 0 {
		a.Seed = 1
	}
	a.Replay = *replay
	return a
}

// Quick reports whether this is the quick tier.
func (a *Args) Quick() bool { return a.Tier == "quick" }

// Pick returns q in the quick tier and t in the thorough tier.
func Pick[T any](a *Args, q, t T) T {
	if a.Quick() {
		return q
	}
	return t
}

// raiseDescriptorLimit lifts the soft limit of open files to the hard limit: the cluster stages keep many
// sockets and files open at once (best effort; a failure is ignored).
func raiseDescriptorLimit() {
	var l syscall.Rlimit
	if err := syscall.Getrlimit(syscall.RLIMIT_NOFILE, &l); err == nil && l.Cur < l.Max {
		l.Cur = l.Max
		_ = syscall.Setrlimit(syscall.RLIMIT_NOFILE, &l)
	}
}
