// Package core holds the shared machinery of the litefs verification harness.
package core
