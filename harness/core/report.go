package core

import (
	"bufio"
	"encoding/json"
	"fmt"
	"os"
	"path/filepath"
	"sort"
	"strings"
	"sync"
	"sync/atomic"
	"time"
)

// Finding is one line of /verif/known_findings.jsonl.
type Finding struct {
	Status   string `json:"status"` // "known" | "fixed"
	Property string `json:"property"`
	ID       string `json:"id"`
	Sig      string `json:"sig"` // signature produced by the check's classifier for the failing input class
	What     string `json:"what"`
	Commit   string `json:"commit,omitempty"`
}

// LoadFindings reads the committed known-findings file. It is never written at run time.
func LoadFindings() ([]Finding, error) {
	var out []Finding
	paths := []string{filepath.Join(VerifRoot(), "known_findings.jsonl")}
	more, _ := filepath.Glob(filepath.Join(VerifRoot(), "known_findings.d", "*.jsonl"))
	sort.Strings(more)
	for _, p := range append(paths, more...) {
		fs, err := loadFindingsFile(p)
		if err != nil {
			return nil, err
		}
		out = append(out, fs...)
	}
	return out, nil
}

func loadFindingsFile(path string) ([]Finding, error) {
	f, err := os.Open(path)
	if os.IsNotExist(err) {
		return nil, nil
	} else if err != nil {
		return nil, err
	}
	defer f.Close()
	var out []Finding
	sc := bufio.NewScanner(f)
	sc.Buffer(make([]byte, 1<<20), 1<<20)
	for sc.Scan() {
		line := strings.TrimSpace(sc.Text())
		if line == "" || strings.HasPrefix(line, "#") || strings.HasPrefix(line, "fixed:") {
			continue
		}
		var fd Finding
		if err := json.Unmarshal([]byte(line), &fd); err != nil {
			return nil, fmt.Errorf("%s: %w", path, err)
		}
		out = append(out, fd)
	}
	return out, sc.Err()
}

// Violation is a monitor failure observed on the real code.
type Violation struct {
	Monitor string `json:"monitor"`
	Sig     string `json:"sig"`
	Detail  any    `json:"detail"`
	Replay  any    `json:"replay,omitempty"`
	Known   string `json:"known_finding,omitempty"`
	Path    string `json:"replay_path,omitempty"`
}

// Report accumulates what a check run covered and decides the exit status.
type Report struct {
	Property string
	Args     *Args
	Level    string
	Rule     string

	mu              sync.Mutex
	evaluations     int64
	distinct        map[string]struct{}
	samples         []any
	States          int64
	Transitions     int64
	TracesValidated int64
	nonconf         []string
	violations      []Violation
	knownHit        map[string]int
	Assumptions     []string
	Extra           map[string]any
	findings        []Finding
	Exhaustive      bool
	notes           []string
}

// NewReport creates the report and loads the known findings (exit 2 if unreadable).
func NewReport(property, level string, args *Args) *Report {
	fds, err := LoadFindings()
	if err != nil {
		Infra("cannot read known findings: %v", err)
	}
	r := &Report{Property: property, Args: args, Level: level, distinct: map[string]struct{}{}, knownHit: map[string]int{}, Extra: map[string]any{}, findings: fds}
	activeReport.Store(r)
	return r
}

// Eval counts n monitor evaluations.
func (r *Report) Eval(n int) {
	r.mu.Lock()
	r.evaluations += int64(n)
	r.mu.Unlock()
}

// Case records one explored case; key identifies it for distinctness; nontrivial says whether
// it counts by the check's stated rule.
func (r *Report) Case(key string, nontrivial bool) {
	if !nontrivial {
		return
	}
	r.mu.Lock()
	r.distinct[key] = struct{}{}
	r.mu.Unlock()
}

// Sample keeps up to max samples.
func (r *Report) Sample(v any) {
	r.mu.Lock()
	if len(r.samples) < 4 {
		r.samples = append(r.samples, v)
	}
	r.mu.Unlock()
}

// Note adds a free-text line to the evidence.
func (r *Report) Note(format string, a ...any) {
	r.mu.Lock()
	r.notes = append(r.notes, fmt.Sprintf(format, a...))
	r.mu.Unlock()
}

// Nonconf records a step of the real code that is not a step of the specification although no
// monitor failed (R3: weakens the evidence, never fails the check).
func (r *Report) Nonconf(format string, a ...any) {
	r.mu.Lock()
	if len(r.nonconf) < 50 {
		r.nonconf = append(r.nonconf, fmt.Sprintf(format, a...))
	} else if len(r.nonconf) == 50 {
		r.nonconf = append(r.nonconf, "...")
	}
	r.mu.Unlock()
}

// NonconfCount returns the number recorded so far.
func (r *Report) NonconfCount() int {
	r.mu.Lock()
	defer r.mu.Unlock()
	return len(r.nonconf)
}

// AddTLC accumulates model-checking statistics.
func (r *Report) AddTLC(name string, res *TLCResult) {
	r.mu.Lock()
	r.States += res.Distinct
	r.Transitions += res.Generated
	l, _ := r.Extra["tlc_runs"].([]any)
	r.Extra["tlc_runs"] = append(l, map[string]any{"name": name, "distinct": res.Distinct, "generated": res.Generated, "depth": res.Depth, "wall_s": res.Wall, "zero_coverage": res.ZeroCov})
	r.mu.Unlock()
}

// Violate records a monitor failure. sig classifies the failing input for known-finding matching.
func (r *Report) Violate(monitor, sig string, detail, replay any) {
	r.mu.Lock()
	defer r.mu.Unlock()
	v := Violation{Monitor: monitor, Sig: sig, Detail: detail, Replay: replay}
	for _, f := range r.findings {
		if f.Status == "known" && f.Property == r.Property && f.Sig == sig {
			v.Known = f.ID
			r.knownHit[f.ID]++
			break
		}
	}
	if v.Known != "" {
		// keep only the first instance of a known finding
		if r.knownHit[v.Known] > 1 {
			return
		}
	} else {
		n := 0
		for _, o := range r.violations {
			if o.Known == "" {
				n++
			}
		}
		if n >= 60 {
			return
		}
	}
	r.violations = append(r.violations, v)
}

// Violations returns the number of violations that are not known findings.
func (r *Report) ViolationCount() int {
	r.mu.Lock()
	defer r.mu.Unlock()
	n := 0
	for _, v := range r.violations {
		if v.Known == "" {
			n++
		}
	}
	return n
}

var (
	activeReport atomic.Pointer[Report]
	inInfra      atomic.Bool
)

// Infra reports an infrastructure problem and exits 2 (never a violation). Violations that monitors
// recorded on real observations BEFORE the trouble stand on their own: they are reported (exit 1) - a
// broken lock or a wedged store often first fails a monitor and then hangs the driver.
func Infra(format string, a ...any) {
	fmt.Fprintf(os.Stderr, "INFRA: "+format+"\n", a...)
	if r := activeReport.Load(); r != nil && !inInfra.Swap(true) {
		n := -1
		if r.mu.TryLock() {
			n = 0
			for _, v := range r.violations {
				if v.Known == "" {
					n++
				}
			}
			r.mu.Unlock()
		}
		if n > 0 {
			fmt.Fprintf(os.Stderr, "INFRA: %d violation(s) had been recorded before this; reporting them\n", n)
			r.Finish()
		}
	}
	Cleanup()
	os.Exit(2)
}

// Finish writes the evidence file, prints the verdict lines and exits.
func (r *Report) Finish() {
	r.mu.Lock()
	defer r.mu.Unlock()
	root := VerifRoot()
	cov := map[string]any{
		"evaluations":         r.evaluations,
		"distinct_nontrivial": len(r.distinct),
		"rule":                r.Rule,
		"samples":             r.samples,
		"exhaustive":          r.Exhaustive,
		"nonconformance":      append([]string{}, r.nonconf...),
		"known_findings_hit":  r.knownHit,
	}
	if len(r.samples) == 0 {
		cov["samples"] = []any{"(none)"}
	}
	if r.Level == "model_checking" {
		cov["states"] = r.States
		cov["transitions"] = r.Transitions
		cov["traces_validated_against_impl"] = r.TracesValidated
	} else if r.States > 0 {
		cov["states"] = r.States
		cov["transitions"] = r.Transitions
		cov["traces_validated_against_impl"] = r.TracesValidated
	}
	for k, v := range r.Extra {
		cov[k] = v
	}
	if len(r.notes) > 0 {
		cov["notes"] = r.notes
	}
	unknown := 0
	var lines []string
	replayDir := filepath.Join(root, "replays", r.Property)
	for i := range r.violations {
		v := &r.violations[i]
		if v.Known != "" {
			what := v.Known
			for _, f := range r.findings {
				if f.ID == v.Known {
					what = f.ID + " " + f.What
				}
			}
			lines = append(lines, fmt.Sprintf("KNOWN-FINDING: property=%s %s", r.Property, what))
			continue
		}
		unknown++
		_ = os.MkdirAll(replayDir, 0o777)
		p := filepath.Join(replayDir, fmt.Sprintf("%s-%d-%d.json", r.Args.Tier, r.Args.Seed, i))
		b, _ := json.MarshalIndent(map[string]any{"property": r.Property, "tier": r.Args.Tier, "seed": r.Args.Seed, "monitor": v.Monitor, "sig": v.Sig, "detail": v.Detail, "replay": v.Replay}, "", " ")
		_ = os.WriteFile(p, b, 0o644)
		v.Path = p
		lines = append(lines, fmt.Sprintf("VIOLATION property=%s replay=%s", r.Property, p))
		fmt.Fprintf(os.Stderr, "violation: monitor=%s sig=%s detail=%s\n", v.Monitor, v.Sig, compact(v.Detail))
	}
	if len(r.violations) > 0 {
		vs := make([]any, 0, len(r.violations))
		for _, v := range r.violations {
			vs = append(vs, map[string]any{"monitor": v.Monitor, "sig": v.Sig, "known_finding": v.Known, "detail": v.Detail, "replay_path": v.Path})
		}
		cov["violation_details"] = vs
	}
	ev := map[string]any{
		"property_id": r.Property,
		"tier":        r.Args.Tier,
		"seed":        r.Args.Seed,
		"level":       r.Level,
		"coverage":    cov,
		"assumptions": r.Assumptions,
		"wall_s":      time.Since(r.Args.Start).Seconds(),
		"violations":  unknown,
	}
	if r.Assumptions == nil {
		ev["assumptions"] = []string{}
	}
	b, err := json.MarshalIndent(ev, "", " ")
	if err != nil {
		Infra("marshal evidence: %v", err)
	}
	_ = os.MkdirAll(filepath.Join(root, "evidence"), 0o777)
	if err := os.WriteFile(filepath.Join(root, "evidence", r.Property+".json"), append(b, '\n'), 0o644); err != nil {
		Infra("write evidence: %v", err)
	}
	sort.Strings(lines)
	for _, l := range lines {
		fmt.Println(l)
	}
	fmt.Printf("%s %s seed=%d: evaluations=%d distinct_nontrivial=%d states=%d traces=%d nonconformance=%d violations=%d wall=%.1fs\n",
		r.Property, r.Args.Tier, r.Args.Seed, r.evaluations, len(r.distinct), r.States, r.TracesValidated, len(r.nonconf), unknown, time.Since(r.Args.Start).Seconds())
	Cleanup()
	if unknown > 0 {
		os.Exit(1)
	}
	os.Exit(0)
}

func compact(v any) string {
	b, _ := json.Marshal(v)
	if len(b) > 600 {
		return string(b[:600]) + "..."
	}
	return string(b)
}
