package core

import (
	"fmt"
	"runtime/debug"
)

// Panic describes a panic that escaped from the code under test.
type Panic struct {
	Value string `json:"value"`
	Stack string `json:"stack"`
}

// Try runs f and captures a panic escaping from it (a panic in litefs while the harness performs
// a legal operation is an observation about the code, not an infrastructure failure).
func Try(f func()) (p *Panic) {
	defer func() {
		if r := recover(); r != nil {
			st := string(debug.Stack())
			if len(st) > 3000 {
				st = st[:3000]
			}
			p = &Panic{Value: fmt.Sprint(r), Stack: st}
		}
	}()
	f()
	return nil
}
