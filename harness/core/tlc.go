package core

import (
	"bufio"
	"context"
	"encoding/json"
	"fmt"
	"io"
	"os"
	"os/exec"
	"path/filepath"
	"regexp"
	"strconv"
	"strings"
	"time"
)

// TLCOpts describes one TLC run. The spec directory is copied to scratch
// space first so that TLC's litter (states/, *.tlacache) never lands in /verif.
type TLCOpts struct {
	Module   string            // module name without .tla (file lives in SpecDir())
	Cfg      string            // config file name (in SpecDir())
	Workers  int               // 0 = all cores ("auto")
	Simulate bool              // -simulate
	SimNum   int               // behaviours per worker (simulate)
	Depth    int               // -depth
	Seed     int64             // -seed
	Timeout  time.Duration     // hard wall-clock limit (default 10 min)
	Env      map[string]string // extra environment (IOEnv for trace files etc.)
	DFS      bool              // depth-first state queue (trace validation with silent steps)
	Coverage bool              // -coverage 1
	Extra    []string          // extra TLC args
	// OnLine is called for every tagged line `"<TAG> <json>"` printed with PrintT.
	OnLine func(tag string, payload json.RawMessage)
	// ExtraFiles are written into the scratch spec dir before the run (name -> content).
	ExtraFiles map[string]string
}

// TLCResult is what was parsed from TLC's output.
type TLCResult struct {
	Generated  int64
	Distinct   int64
	Depth      int
	Violation  string // "" if none; otherwise the violated invariant/property or "deadlock"/"postcondition"
	ErrorText  string // first lines of an error trace or error message
	TimedOut   bool
	ExitCode   int
	Wall       float64
	Cmd        string
	ZeroCov    []string // actions with zero coverage (when Coverage)
	Tagged     int      // number of tagged lines seen
	OutputTail string
}

var (
	reStates   = regexp.MustCompile(`^(\d+) states generated, (\d+) distinct states found`)
	reDepth    = regexp.MustCompile(`^The depth of the complete state graph search is (\d+)`)
	reInvViol  = regexp.MustCompile(`^Error: Invariant (\S+) is violated`)
	reActViol  = regexp.MustCompile(`^Error: Action property (\S+) is violated`)
	reTempViol = regexp.MustCompile(`^Error: Temporal properties were violated`)
	reTagged   = regexp.MustCompile(`^"([A-Z][A-Z0-9_]*) (.*)"$`)
	reProgress = regexp.MustCompile(`^Progress\(\d+\)`)
	reCovZero  = regexp.MustCompile(`^<(\w+) line (\d+), col (\d+) to line (\d+), col (\d+) of module (\w+)>: 0:0`)
	reSimStat  = regexp.MustCompile(`^The number of states generated: (\d+)`)
)

// RunTLC runs TLC once and parses its output.
func RunTLC(o TLCOpts) (*TLCResult, error) {
	if o.Timeout == 0 {
		o.Timeout = 10 * time.Minute
	}
	scratch := Scratch("tlc")
	defer os.RemoveAll(scratch)
	// copy specs
	ents, err := os.ReadDir(SpecDir())
	if err != nil {
		return nil, err
	}
	for _, e := range ents {
		if e.IsDir() {
			continue
		}
		if strings.HasSuffix(e.Name(), ".tla") || strings.HasSuffix(e.Name(), ".cfg") {
			b, err := os.ReadFile(filepath.Join(SpecDir(), e.Name()))
			if err != nil {
				return nil, err
			}
			if err := os.WriteFile(filepath.Join(scratch, e.Name()), b, 0o644); err != nil {
				return nil, err
			}
		}
	}
	for name, content := range o.ExtraFiles {
		if err := os.WriteFile(filepath.Join(scratch, name), []byte(content), 0o644); err != nil {
			return nil, err
		}
	}

	args := []string{"-XX:+UseParallelGC", "-Djava.io.tmpdir=" + scratch} // TLC leaves tlc-* directories in java.io.tmpdir
	if o.DFS {
		args = append(args, "-Dtlc2.tool.queue.IStateQueue=StateDeque")
	}
	args = append(args, "-Xss64m", "-cp", "/opt/veriftools/tla/tla2tools.jar:/opt/veriftools/tla/CommunityModules-deps.jar", "tlc2.TLC")
	workers := "auto"
	if o.Workers > 0 {
		workers = strconv.Itoa(o.Workers)
	}
	args = append(args, "-workers", workers, "-metadir", filepath.Join(scratch, "meta"), "-noGenerateSpecTE")
	if o.Simulate {
		sim := "-simulate"
		args = append(args, sim)
		if o.SimNum > 0 {
			args = append(args, fmt.Sprintf("num=%d", o.SimNum))
		}
	}
	if o.Depth > 0 {
		args = append(args, "-depth", strconv.Itoa(o.Depth))
	}
	if o.Seed != 0 {
		args = append(args, "-seed", strconv.FormatInt(o.Seed, 10))
	}
	if o.Coverage {
		args = append(args, "-coverage", "1")
	}
	args = append(args, o.Extra...)
	args = append(args, "-config", o.Cfg, o.Module+".tla")

	ctx, cancel := context.WithTimeout(context.Background(), o.Timeout)
	defer cancel()
	cmd := exec.CommandContext(ctx, "java", args...)
	cmd.Dir = scratch
	cmd.Env = os.Environ()
	for k, v := range o.Env {
		cmd.Env = append(cmd.Env, k+"="+v)
	}
	cmd.WaitDelay = 5 * time.Second
	stdout, err := cmd.StdoutPipe()
	if err != nil {
		return nil, err
	}
	cmd.Stderr = cmd.Stdout
	res := &TLCResult{Cmd: "java " + strings.Join(args, " ")}
	start := time.Now()
	if err := cmd.Start(); err != nil {
		return nil, err
	}
	var tail []string
	rd := bufio.NewReaderSize(stdout, 1<<20)
	inErr := false
	errLines := 0
	for {
		line, err := readLongLine(rd)
		if line != "" || err == nil {
			if m := reTagged.FindStringSubmatch(line); m != nil {
				res.Tagged++
				if o.OnLine != nil {
					if s, uerr := tlaUnquote(m[2]); uerr == nil {
						o.OnLine(m[1], json.RawMessage(s))
					}
				}
			} else {
				if !reProgress.MatchString(line) {
					tail = append(tail, line)
					if len(tail) > 60 {
						tail = tail[1:]
					}
				}
				switch {
				case reStates.MatchString(line):
					m := reStates.FindStringSubmatch(line)
					res.Generated, _ = strconv.ParseInt(m[1], 10, 64)
					res.Distinct, _ = strconv.ParseInt(m[2], 10, 64)
				case reSimStat.MatchString(line):
					m := reSimStat.FindStringSubmatch(line)
					res.Generated, _ = strconv.ParseInt(m[1], 10, 64)
				case reDepth.MatchString(line):
					m := reDepth.FindStringSubmatch(line)
					res.Depth, _ = strconv.Atoi(m[1])
				case reInvViol.MatchString(line):
					res.Violation = reInvViol.FindStringSubmatch(line)[1]
					inErr = true
				case reActViol.MatchString(line):
					res.Violation = reActViol.FindStringSubmatch(line)[1]
					inErr = true
				case reTempViol.MatchString(line):
					res.Violation = "temporal"
					inErr = true
				case strings.HasPrefix(line, "Error: Deadlock reached"):
					res.Violation = "deadlock"
					inErr = true
				case strings.Contains(line, "The postcondition") && strings.Contains(line, "violated"),
					strings.Contains(line, "Error: Evaluating postcondition"), strings.Contains(line, "postcondition is false"):
					res.Violation = "postcondition"
					inErr = true
				case strings.HasPrefix(line, "Error:"):
					if res.ErrorText == "" {
						inErr = true
					}
				}
				if inErr && errLines < 400 {
					res.ErrorText += line + "\n"
					errLines++
				}
				if o.Coverage {
					if m := reCovZero.FindStringSubmatch(line); m != nil {
						res.ZeroCov = append(res.ZeroCov, m[1])
					}
				}
			}
		}
		if err != nil {
			break
		}
	}
	werr := cmd.Wait()
	res.Wall = time.Since(start).Seconds()
	res.OutputTail = strings.Join(tail, "\n")
	if ctx.Err() == context.DeadlineExceeded {
		res.TimedOut = true
	}
	if ee, ok := werr.(*exec.ExitError); ok {
		res.ExitCode = ee.ExitCode()
	} else if werr != nil && !res.TimedOut {
		return res, werr
	}
	return res, nil
}

func readLongLine(rd *bufio.Reader) (string, error) {
	var sb strings.Builder
	for {
		chunk, isPrefix, err := rd.ReadLine()
		sb.Write(chunk)
		if err != nil {
			if err == io.EOF && sb.Len() > 0 {
				return sb.String(), err
			}
			return sb.String(), err
		}
		if !isPrefix {
			return sb.String(), nil
		}
	}
}

// tlaUnquote undoes TLC's string printing (backslash escapes for " and \ plus \n, \t ...).
func tlaUnquote(s string) (string, error) {
	if !strings.Contains(s, `\`) {
		return s, nil
	}
	var sb strings.Builder
	for i := 0; i < len(s); i++ {
		c := s[i]
		if c != '\\' || i+1 >= len(s) {
			sb.WriteByte(c)
			continue
		}
		i++
		switch s[i] {
		case 'n':
			sb.WriteByte('\n')
		case 't':
			sb.WriteByte('\t')
		case 'r':
			sb.WriteByte('\r')
		case 'f':
			sb.WriteByte('\f')
		default:
			sb.WriteByte(s[i])
		}
	}
	return sb.String(), nil
}

// OK reports whether the run finished without violation, timeout or tool error.
func (r *TLCResult) OK() bool {
	return r != nil && r.Violation == "" && !r.TimedOut && r.ExitCode == 0
}

// Describe gives a one-line summary for logs and evidence.
func (r *TLCResult) Describe() string {
	return fmt.Sprintf("generated=%d distinct=%d depth=%d violation=%q timeout=%v exit=%d wall=%.1fs", r.Generated, r.Distinct, r.Depth, r.Violation, r.TimedOut, r.ExitCode, r.Wall)
}
