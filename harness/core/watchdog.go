package core

import (
	"sync/atomic"
	"time"
)

type beat struct {
	at    time.Time
	label string
}

var lastBeat atomic.Pointer[beat]

// Beat tells the watchdog that the harness made progress; label names what is being driven.
func Beat(label string) { lastBeat.Store(&beat{at: time.Now(), label: label}) }

// Watchdog turns a hang of the code under test into a verdict instead of a stuck process: when no
// Beat arrives for `idle`, onHang is called with the label of the last beat (it normally records a
// violation of the property's no-hang clause and finishes the report). The limit must be far above
// anything the unchanged tree needs (>= 50x, rule R5).
func Watchdog(idle time.Duration, onHang func(label string, since time.Duration)) {
	Beat("start")
	go func() {
		for {
			time.Sleep(idle / 10)
			b := lastBeat.Load()
			if d := time.Since(b.at); d > idle {
				onHang(b.label, d)
				return
			}
		}
	}()
}
