---- MODULE Authority ----
(***************************************************************************)
(* Write authority (C07).  One database on one node.  A SQLite connection  *)
(* walks through the rollback-journal or WAL protocol while the node is    *)
(* writable; at any protocol state the node may lose its authority         *)
(* (demotion / lease loss; or it was a replica from the start).  From then *)
(* on every kind of file operation an application can issue is attempted;  *)
(* LiteFS's reaction is the guard table transcribed from db.go and         *)
(* fuse/*.go.  The abstract state is just enough to say whether the        *)
(* logical image, the position or the log changed.                         *)
(***************************************************************************)
EXTENDS Integers, Sequences, FiniteSets, TLC, Json

CONSTANTS Modes,        \* subset of {"rb", "wal"}
          GuardWALTrunc,\* TRUE = truncate/unlink of a WAL holding committed frames is refused without authority (repaired behaviour)
          Emit

PStates == [rb  |-> <<"idle", "j_created", "j_synced", "page_written">>,
            wal |-> <<"idle", "w_locked", "frame_partial", "frame_commit">>]

Ops == {"DBWrite", "DBWriteCkpt", "DBTruncate", "DBShrink", "DBRemove", "DBRemoveRace", "JCreate", "JWrite", "JZeroHeader", "JTruncate", "JRemove",
        "WCreate", "WHeader", "WFrame", "WTruncate", "WRemove", "WUnlockWrite", "Import", "ImportRace"}

VARIABLES mode,      \* journal mode of the database
          ps,        \* pager protocol state of the application's connection
          walc,      \* the WAL holds committed, captured frames that are not checkpointed yet
          role,      \* "primary" | "demoted" | "replica" | "holder" (replica holding the halt lock) | "exholder" | "exholder_rl" | "exholder_af"
                     \* | "destroying": a demoted node at the very moment the lease service sees its lease go
                     \*   away (from then on another node may be primary): the node has stopped acting as primary
                     \*   BEFORE it gives the lease up, so this is a state without authority like "demoted"
          img, pos, logn,   \* logical image version, position, number of LTX files
          exited,    \* LiteFS stopped itself (Store.Exit)
          last, hist
vars == <<mode, ps, walc, role, img, pos, logn, exited, last, hist>>
view == <<mode, ps, walc, role, img, pos, logn, exited>>

Writable == role \in {"primary", "holder"}

Init == /\ mode \in Modes /\ ps = "idle" /\ walc \in {FALSE}
        /\ role \in {"primary", "replica"}
        /\ img = 1 /\ pos = 1 /\ logn = 1 /\ exited = FALSE
        /\ last = [op |-> "init", res |-> "none"]
        /\ hist = <<>>

H(a) == hist' = Append(hist, a)

(* ---- the writable phase: the connection advances through the protocol ---- *)
Advance ==
  /\ role = "primary" /\ ~exited        \* (the holder's own transactions are C13's subject)
  /\ LET seq == PStates[mode]
         i == CHOOSE k \in 1..Len(seq) : seq[k] = ps
     IN IF i < Len(seq)
        THEN /\ ps' = seq[i + 1]
             /\ UNCHANGED <<mode, walc, role, img, pos, logn, exited>>
             /\ last' = [op |-> "advance", res |-> seq[i + 1]]
             /\ H("advance")
        ELSE \* finalisation: the transaction is captured
             /\ ps' = "idle" /\ img' = img + 1 /\ pos' = pos + 1 /\ logn' = logn + 1
             /\ walc' = (mode = "wal")
             /\ UNCHANGED <<mode, role, exited>>
             /\ last' = [op |-> "commit", res |-> "captured"]
             /\ H("commit")
  /\ pos < 3

LoseAuthority ==
  /\ role = "primary" /\ ~exited
  /\ role' \in {"demoted", "destroying"}
  /\ UNCHANGED <<mode, ps, walc, img, pos, logn, exited>>
  /\ last' = [op |-> "demote", res |-> "none"]
  /\ H("demote")

\* a replica is granted the database's halt lock: it is writable like the primary ...
AcquireHalt ==
  /\ role = "replica" /\ ~exited /\ ps = "idle"
  /\ role' = "holder"
  /\ UNCHANGED <<mode, ps, walc, img, pos, logn, exited>>
  /\ last' = [op |-> "acquire", res |-> "none"]
  /\ H("acquire")

\* ... until the lock ends on the primary (released for it, expired) and the next transaction of the
\* primary arrives on the stream: processLTXStreamFrame clears DB.remoteHaltLock.  The frame needs the
\* local write lock, so this happens between the holder's transactions only.
LoseHalt ==
  /\ role = "holder" /\ ~exited /\ ps = "idle"
  /\ role' = "exholder" /\ img' = img + 1 /\ pos' = pos + 1 /\ logn' = logn + 1    \* the primary's transaction, applied
  /\ UNCHANGED <<mode, ps, walc, exited>>
  /\ last' = [op |-> "losehalt", res |-> "none"]
  /\ H("losehalt")

\* ... or until the holder gives the lock back and the answer to its release is lost (timeout, connection
\* reset): the primary has ended the lock, the holder was told nothing. ReleaseRemoteHaltLock clears the
\* holder's own record of the lock before it talks to the primary, so the node is a plain replica again
\* whatever becomes of the request.
ReleaseLost ==
  /\ role = "holder" /\ ~exited /\ ps = "idle"
  /\ role' = "exholder_rl"   \* (a value of its own so that the state, and with it every edge out of it, is explored in its own right)
  /\ UNCHANGED <<mode, ps, walc, img, pos, logn, exited>>
  /\ last' = [op |-> "releaselost", res |-> "none"]
  /\ H("releaselost")

\* A replica asks for the halt lock, the primary grants it, but the replica does not reach the lock's position
\* within its time limit (it lags): the acquisition fails, the replica gives the lock back. It never was the
\* holder as far as its applications are concerned, and it is not one now.
AcquireFails ==
  /\ role = "replica" /\ ~exited /\ ps = "idle"
  /\ role' = "exholder_af"
  /\ UNCHANGED <<mode, ps, walc, img, pos, logn, exited>>
  /\ last' = [op |-> "acquirefailed", res |-> "none"]
  /\ H("acquirefailed")

(* ---- LiteFS's reaction to an operation on a node without authority (guard table) ---- *)
\* "eacces": refused with the read-only permission error; "refused": refused with another error;
\* "harmless": accepted, changes neither image nor position nor log; "exit": refused by stopping the node;
\* "reverts": accepted and the logical image changes (the defect TLC is meant to expose)
React(op) ==
  CASE op = "DBWrite"      -> "eacces"        \* WriteDatabaseAt: !Writeable
    [] op = "DBWriteCkpt"  -> "eacces"        \* the same by a connection that holds the WAL checkpoint lock (a SQLite checkpointer's
                                              \* page write): the -shm locks give no authority over the database file
    [] op = "DBTruncate"   -> "harmless"      \* TruncateDatabase: only to the committed size (or refused)
    [] op = "DBShrink"     -> "refused"       \* ftruncate / open(O_TRUNC) of the database below its committed size (to one page less, to nothing)
    [] op = "DBRemove"     -> "eacces"        \* RootNode.Remove: !IsPrimary
    [] op = "DBRemoveRace" -> "refused"       \* DB.Drop that began with authority and lost it before its final step: rolled back
    [] op = "JCreate"      -> "eacces"        \* CreateJournal: !Writeable
    [] op = "JWrite"       -> "eacces"        \* WriteJournalAt: !Writeable
    [] op = "JZeroHeader"  -> "eacces"        \* WriteJournalAt (PERSIST commit)
    [] op = "JTruncate"    -> "refused"       \* CommitJournal: !Writeable
    [] op = "JRemove"      -> "refused"       \* CommitJournal: !Writeable
    [] op = "WCreate"      -> "harmless"      \* CreateWAL: an empty file
    [] op = "WHeader"      -> "eacces"        \* WriteWALAt: !Writeable
    [] op = "WFrame"       -> "eacces"
    [] op = "WTruncate"    -> IF walc /\ ~GuardWALTrunc THEN "reverts" ELSE IF walc THEN "refused" ELSE "harmless"
    [] op = "WRemove"      -> IF walc /\ ~GuardWALTrunc THEN "reverts" ELSE IF walc THEN "refused" ELSE "harmless"
    [] op = "WUnlockWrite" -> IF ps = "frame_commit" THEN "exit" ELSE "harmless"   \* CommitWAL: lost write access => fatal
    [] op = "Import"       -> "refused"       \* DB.Import: !IsPrimary
    [] op = "ImportRace"   -> "refused"       \* POST /import that was waiting for the write lock (open transaction) when authority went

Applicable(op) ==
  CASE op \in {"JWrite", "JZeroHeader", "JTruncate", "JRemove"} -> mode = "rb" /\ ps # "idle"
    [] op = "JCreate" -> mode = "rb"
    [] op = "DBRemoveRace" -> role = "demoted" /\ ps = "idle"
    [] op = "ImportRace" -> role = "demoted" /\ ps # "idle"
    [] op \in {"WHeader", "WFrame", "WTruncate", "WRemove", "WCreate", "DBWriteCkpt"} -> mode = "wal"
    [] op = "WUnlockWrite" -> mode = "wal" /\ ps # "idle"
    [] OTHER -> TRUE

Attempt(op) ==
  /\ ~Writable /\ ~exited /\ Applicable(op)
  /\ LET r == React(op) IN
     /\ last' = [op |-> op, res |-> r]
     /\ img' = IF r = "reverts" THEN img - 1 ELSE img
     /\ exited' = (r = "exit")
     /\ walc' = IF r = "reverts" THEN FALSE ELSE walc
     /\ UNCHANGED <<mode, ps, role, pos, logn>>
     /\ H(op)

Next == \/ Advance \/ LoseAuthority \/ AcquireHalt \/ LoseHalt \/ ReleaseLost \/ AcquireFails
        \/ \E op \in Ops : /\ Attempt(op)
                            /\ (Emit => PrintT("EDGE " \o ToJson([mode |-> mode, ps |-> ps, walc |-> walc, role |-> role,
                                                                  path |-> hist, op |-> op, res |-> last'.res])))
Spec == Init /\ [][Next]_vars

(* ---- properties ---- *)
\* without authority no operation changes image, position or log
NoChangeWithoutAuthority ==
  [][ ~Writable => (img' = img /\ pos' = pos /\ logn' = logn) ]_vars
\* page, journal and WAL writes are refused with the read-only permission error
WritesAreEACCES ==
  [][ (~Writable /\ last'.op \in {"DBWrite", "DBWriteCkpt", "JWrite", "JZeroHeader", "WHeader", "WFrame"}) => last'.res = "eacces" ]_vars

====
