---- MODULE ConsulLease ----
(***************************************************************************)
(* The Consul side of the lease, as /repo/consul/consul.go uses it.         *)
(*                                                                          *)
(* SERVER: sessions (created with a TTL, a lock-delay and behaviour         *)
(* "delete"; renewed; destroyed; invalidated by the server at any time =    *)
(* TTL expiry), one KV key for the primary lock (value = who advertises     *)
(* itself as primary, lock holder = a session) and one KV key for the       *)
(* cluster ID.  The semantics are those of Consul's state store:            *)
(*   PUT kv?acquire=S  false while a lock-delay is in force; HTTP 500 if S  *)
(*                     does not exist; false if another session holds the   *)
(*                     key; else true (value replaced, also when S already  *)
(*                     holds it)                                            *)
(*   PUT kv?release=S  true iff S holds the key; the entry stays, its value *)
(*                     is replaced by the (empty) body                      *)
(*   session destroy / expiry  the key S holds is DELETED and a lock-delay  *)
(*                     starts; destroy answers true also for unknown ids    *)
(*   PUT session/renew 404 for an unknown id                                *)
(*   PUT kv?cas=0      true iff the key does not exist                      *)
(*                                                                          *)
(* CLIENT: one action per HTTP request consul.Leaser makes (a request is    *)
(* atomic on the server); a leaser-level call is the sequence of its        *)
(* requests, the last one carries the value the call returns (`ret`).       *)
(* Every request is answered "ok" (the server's answer), "err" (HTTP 500,   *)
(* not applied), "lost" (applied, but the client sees a 500) or, for a      *)
(* read of the primary key, "stale" (the previous version of the key).      *)
(* Between any two requests the ENVIRONMENT may expire a session, let the   *)
(* lock-delay elapse, let a competing node "x" take the free key, set the   *)
(* cluster ID, or hand its session to one of the nodes.                     *)
(*                                                                          *)
(* Time is not modelled: expiry is a free action of the server, so every    *)
(* timing (TTL, 2 x TTL grace, lock-delay) is covered.                      *)
(***************************************************************************)
EXTENDS Integers, Sequences, FiniteSets, TLC, Json

CONSTANTS
  Nodes,     \* the real leasers: {"n1"} or {"n1", "n2"}
  MaxSess,   \* sessions the server creates in one behaviour (ids 1..MaxSess in creation order)
  Ops,       \* leaser-level calls explored: subset of {"acquire","acqx","renew","close","info","cid","setcid","handoff"}
  Faults,    \* answers other than "ok": subset of {"err", "lost", "stale"}
  EnvActs,   \* subset of {"expire", "delay", "xacq", "xcid", "xhand"}
  UseCAS,    \* FALSE = SetClusterID as written (get, then plain put); TRUE = candidate repair (put with cas=0)
  Mut,       \* "none", or one guard of consul.go dropped (relevance configurations)
  Emit       \* "none" | "edge": one TRACE line per explored edge (script = shortest path + the edge)

VARIABLES s, hist
vars == <<s, hist>>
view == s

Sids == 1..MaxSess
CidOf(n) == IF n = "n1" THEN "A" ELSE "C"     \* the id node n would give the cluster; the competitor uses "B"

Init0 == [live |-> {}, nsess |-> 0, owner |-> <<>>,
          kval |-> "none",       \* primary key: "none" absent | "" empty value | who advertises ("n1","n2","x")
          kh |-> 0,              \* session holding the primary key (0 none)
          old |-> "none",        \* previous version of the key's value (what a stale read returns)
          delay |-> FALSE,       \* lock-delay in force on the primary key
          cid |-> "",            \* cluster-ID key ("" absent)
          pc |-> [n \in Nodes |-> "idle"],
          sid |-> [n \in Nodes |-> 0],      \* session the call in progress works on
          ret |-> [n \in Nodes |-> ""],     \* what the failing Acquire will return after its clean-up
          lease |-> [n \in Nodes |-> 0],    \* session id of the Lease object node n holds (0 none)
          handed |-> [n \in Nodes |-> 0],   \* lease id delivered to n by a handoff (AcquireExisting pending)
          hoLog |-> {},                     \* <<target, id>> of every handoff made
          flags |-> {}]
Init == s = Init0 /\ hist = <<>>

Proj(t) == [live |-> [i \in Sids |-> i \in t.live], kval |-> t.kval, kh |-> t.kh, delay |-> t.delay, cid |-> t.cid,
            lease |-> t.lease, handed |-> t.handed]

\* one history entry: node ("env" for the environment), call, request, session id, value, answer class,
\* what the client is sent, what the call returns ("" = the call goes on)
E(n, op, q, p, v, ans, r, ret) == [n |-> n, op |-> op, q |-> q, p |-> p, v |-> v, ans |-> ans, r |-> r, ret |-> ret]

\* Emit = "edge": one TRACE line per explored edge. The script carries the predicted answer of every
\* request and the value every call returns; the predicted server state is given for the last step
\* (every prefix of a script is the script of an earlier edge).
Step(t, e) ==
  /\ s' = t
  /\ hist' = Append(hist, e)
  /\ (Emit = "edge" => PrintT("TRACE " \o ToJson([h |-> hist', st |-> Proj(s')])))

(* ------------------------------ the server ------------------------------ *)
SetKey(t, v, h) == [t EXCEPT !.old = t.kval, !.kval = v, !.kh = h]
Create(t, who)  == [t EXCEPT !.nsess = @ + 1, !.live = @ \cup {t.nsess + 1}, !.owner = Append(@, who)]
Invalidate(t, x) ==
  LET u == [t EXCEPT !.live = @ \ {x}] IN
  IF x # 0 /\ t.kh = x THEN [SetKey(u, "none", 0) EXCEPT !.delay = TRUE] ELSE u
AcqRes(t, x) == IF t.delay THEN "false" ELSE IF x \notin t.live THEN "500" ELSE IF t.kh \notin {0, x} THEN "false" ELSE "true"
AcqApply(t, x, v) == IF AcqRes(t, x) = "true" THEN SetKey(t, v, x) ELSE t
RelRes(t, x) == IF t.kval # "none" /\ x # 0 /\ t.kh = x THEN "true" ELSE "false"
RelApply(t, x) == IF RelRes(t, x) = "true" THEN SetKey(t, "", 0) ELSE t

WAns == {"ok"} \cup (Faults \cap {"err", "lost"})     \* answers to a request that changes the server
RAns == {"ok"} \cup (Faults \cap {"err"})             \* answers to a request that changes nothing
Applied(ans) == ans \in {"ok", "lost"}
Seen(ans, r) == IF ans = "ok" THEN r ELSE "err"

(* ------------------------------ Acquire --------------------------------- *)
\* consul.go:145 Session().CreateNoChecks
AcqCreate(n, ans) ==
  /\ "acquire" \in Ops /\ s.pc[n] = "idle" /\ s.lease[n] = 0 /\ s.nsess < MaxSess /\ ans \in WAns
  /\ LET x == s.nsess + 1
         made == Create(s, n) IN
     CASE ans = "ok"   -> Step([made EXCEPT !.pc[n] = "acq_kv", !.sid[n] = x], E(n, "acquire", "session.create", x, "", ans, "id", ""))
       [] ans = "lost" -> Step(made, E(n, "acquire", "session.create", x, "", ans, "err", "err"))
       [] ans = "err"  -> Step(s, E(n, "acquire", "session.create", 0, "", ans, "err", "err"))

\* consul.go:172 KV().Acquire with the new session; on failure the deferred lease.Close()
AcqKV(n, ans) ==
  /\ s.pc[n] = "acq_kv" /\ ans \in WAns
  /\ LET x == s.sid[n]
         t == IF Applied(ans) THEN AcqApply(s, x, n) ELSE s
         seen == Seen(ans, AcqRes(s, x))
         good == seen = "true" \/ (Mut = "acquireIgnoresFalse" /\ seen = "false") IN
     IF good
     THEN Step([t EXCEPT !.pc[n] = "idle", !.sid[n] = 0, !.lease[n] = x,
                         !.flags = @ \cup (IF t.kh # x THEN {"lease-without-key"} ELSE {})],
               E(n, "acquire", "kv.acquire", x, n, ans, seen, "ok"))
     ELSE Step([t EXCEPT !.pc[n] = "fail_rel", !.ret[n] = IF seen = "false" THEN "exists" ELSE "err"],
               E(n, "acquire", "kv.acquire", x, n, ans, seen, ""))

FailRel(n, ans) ==
  /\ s.pc[n] = "fail_rel" /\ ans \in WAns
  /\ LET x == s.sid[n]
         t == IF Applied(ans) THEN RelApply(s, x) ELSE s IN
     Step([t EXCEPT !.pc[n] = "fail_des"], E(n, "acquire", "kv.release", x, "", ans, Seen(ans, RelRes(s, x)), ""))

FailDes(n, ans) ==
  /\ s.pc[n] = "fail_des" /\ ans \in WAns
  /\ LET x == s.sid[n]
         t == IF Applied(ans) THEN Invalidate(s, x) ELSE s IN
     Step([t EXCEPT !.pc[n] = "idle", !.sid[n] = 0, !.ret[n] = ""],
          E(n, "acquire", "session.destroy", x, "", ans, Seen(ans, "true"), s.ret[n]))

(* --------------------------- AcquireExisting ---------------------------- *)
\* consul.go:190 lease.Renew with the id taken from the handoff frame (tried once)
AcqXRenew(n, ans) ==
  /\ "acqx" \in Ops /\ s.pc[n] = "idle" /\ s.lease[n] = 0 /\ s.handed[n] # 0 /\ ans \in RAns
  /\ LET x == s.handed[n]
         r == Seen(ans, IF x \in s.live THEN "200" ELSE "404")
         u == [s EXCEPT !.handed[n] = 0] IN
     IF r = "200" \/ (Mut = "renewIgnores404" /\ r = "404")
     THEN Step([u EXCEPT !.pc[n] = "acqx_kv", !.sid[n] = x], E(n, "acqx", "session.renew", x, "", ans, r, ""))
     ELSE Step(u, E(n, "acqx", "session.renew", x, "", ans, r, IF r = "404" THEN "expired" ELSE "err"))

\* consul.go:202 KV().Acquire with the existing session (no clean-up on failure)
AcqXKV(n, ans) ==
  /\ s.pc[n] = "acqx_kv" /\ ans \in WAns
  /\ LET x == s.sid[n]
         t == IF Applied(ans) THEN AcqApply(s, x, n) ELSE s
         seen == Seen(ans, AcqRes(s, x))
         good == seen = "true" \/ (Mut = "acqxIgnoresFalse" /\ seen = "false")
         u == [t EXCEPT !.pc[n] = "idle", !.sid[n] = 0] IN
     IF good
     THEN Step([u EXCEPT !.lease[n] = x,
                         !.flags = @ \cup (IF t.kh # x THEN {"lease-without-key"} ELSE {})
                                     \cup (IF <<n, x>> \notin s.hoLog THEN {"acqx-not-handed"} ELSE {})],
               E(n, "acqx", "kv.acquire", x, n, ans, seen, "ok"))
     ELSE Step(u, E(n, "acqx", "kv.acquire", x, n, ans, seen, IF seen = "false" THEN "exists" ELSE "err"))

(* ------------------------------- Renew ---------------------------------- *)
\* consul.go:301 Session().Renew: nil entry (404) = ErrLeaseExpired
Renew(n, ans) ==
  /\ "renew" \in Ops /\ s.pc[n] = "idle" /\ s.lease[n] # 0 /\ ans \in RAns
  /\ LET x == s.lease[n]
         r == Seen(ans, IF x \in s.live THEN "200" ELSE "404")
         ret == IF r = "200" THEN "ok" ELSE IF r = "err" THEN "err" ELSE IF Mut = "renewIgnores404" THEN "ok" ELSE "expired" IN
     Step([s EXCEPT !.flags = @ \cup (IF ret = "ok" /\ (x \notin s.live \/ s.kh # x) THEN {"renewed-without-key"} ELSE {})],
          E(n, "renew", "session.renew", x, "", ans, r, ret))

(* ------------------------------- Close ---------------------------------- *)
\* consul.go:333 KV().Release (its outcome is only logged), then Session().Destroy
CloseRel(n, ans) ==
  /\ "close" \in Ops /\ s.pc[n] = "idle" /\ s.lease[n] # 0 /\ ans \in WAns
  /\ LET x == s.lease[n]
         t == IF Applied(ans) THEN RelApply(s, x) ELSE s IN
     IF Mut = "closeNoDestroy"
     THEN Step([t EXCEPT !.lease[n] = 0, !.flags = @ \cup (IF x \in t.live \/ t.kh = x THEN {"close-ok-but-alive"} ELSE {})],
               E(n, "close", "kv.release", x, "", ans, Seen(ans, RelRes(s, x)), "ok"))
     ELSE Step([t EXCEPT !.pc[n] = "close_des", !.sid[n] = x, !.lease[n] = 0],
               E(n, "close", "kv.release", x, "", ans, Seen(ans, RelRes(s, x)), ""))

CloseDes(n, ans) ==
  /\ s.pc[n] = "close_des" /\ ans \in WAns
  /\ LET x == s.sid[n]
         t == IF Applied(ans) THEN Invalidate(s, x) ELSE s
         ret == IF ans = "ok" THEN "ok" ELSE "err" IN
     Step([t EXCEPT !.pc[n] = "idle", !.sid[n] = 0,
                    !.flags = @ \cup (IF ret = "ok" /\ (x \in t.live \/ t.kh = x) THEN {"close-ok-but-alive"} ELSE {})],
          E(n, "close", "session.destroy", x, "", ans, Seen(ans, "true"), ret))

(* --------------------- PrimaryInfo / ClusterID --------------------------- *)
\* consul.go:217 KV().Get of the primary key: absent or empty value = ErrNoPrimary
Info(n, ans) ==
  /\ "info" \in Ops /\ s.pc[n] = "idle" /\ ans \in {"ok"} \cup (Faults \cap {"err", "stale"})
  /\ (ans = "stale" => s.old # s.kval)
  /\ LET v == IF ans = "stale" THEN s.old ELSE s.kval
         ret == IF ans = "err" THEN "err" ELSE IF v \in {"none", ""} THEN "none" ELSE "info:" \o v IN
     Step(s, E(n, "info", "kv.get", 0, "", ans, IF ans = "err" THEN "err" ELSE "val:" \o v, ret))

\* consul.go:238 KV().Get of the cluster-ID key
CID(n, ans) ==
  /\ "cid" \in Ops /\ s.pc[n] = "idle" /\ ans \in RAns
  /\ Step(s, E(n, "cid", "cid.get", 0, "", ans, IF ans = "err" THEN "err" ELSE "val:" \o s.cid,
               IF ans = "err" THEN "err" ELSE "cid:" \o s.cid))

(* ----------------------------- SetClusterID ------------------------------ *)
\* consul.go:256 read the key first ...
SetGet(n, ans) ==
  /\ "setcid" \in Ops /\ s.pc[n] = "idle" /\ ans \in RAns
  /\ LET r == IF ans = "err" THEN "err" ELSE "val:" \o s.cid IN
     IF ans = "err" THEN Step(s, E(n, "setcid", "cid.get", 0, "", ans, r, "err"))
     ELSE IF s.cid # "" /\ Mut # "setNoCheck" THEN Step(s, E(n, "setcid", "cid.get", 0, "", ans, r, "already"))
     ELSE Step([s EXCEPT !.pc[n] = "set_put"], E(n, "setcid", "cid.get", 0, "", ans, r, ""))

\* consul.go:263 ... then KV().Put (as written: unconditional; repair: cas=0)
SetPutV(n, ans, v) ==
  /\ s.pc[n] = "set_put" /\ ans \in WAns
  /\ LET r == IF UseCAS /\ s.cid # "" THEN "false" ELSE "true"
         t == IF Applied(ans) /\ r = "true"
              THEN [s EXCEPT !.cid = v, !.flags = @ \cup (IF s.cid \notin {"", v} THEN {"cid-overwritten"} ELSE {})]
              ELSE s
         seen == Seen(ans, r) IN
     Step([t EXCEPT !.pc[n] = "idle"],
          E(n, "setcid", IF UseCAS THEN "cid.cas" ELSE "cid.put", 0, v, ans, seen,
            IF seen = "true" THEN "ok" ELSE IF seen = "false" THEN "already" ELSE "err"))
SetPut(n, ans) == SetPutV(n, ans, CidOf(n))

(* ------------------------------- Handoff --------------------------------- *)
\* consul.go:314 Lease.Handoff(ctx, nodeID) -> HandoffCh(); the store then sends Lease.ID() to that
\* node's stream and leaves the tenure WITHOUT closing the lease
Handoff(n, m) ==
  /\ "handoff" \in Ops /\ n # m /\ s.pc[n] = "idle" /\ s.lease[n] # 0 /\ s.handed[m] = 0 /\ s.lease[m] = 0 /\ s.pc[m] = "idle"
  /\ LET x == s.lease[n] IN
     Step([s EXCEPT !.lease[n] = 0, !.handed[m] = x, !.hoLog = @ \cup {<<m, x>>}],
          E(n, "handoff", "", x, m, "ok", "", "ok"))

(* ----------------------------- environment ------------------------------- *)
Env(t, op, p, v) == Step(t, E("env", op, "", p, v, "ok", "", ""))

Expire(x) == "expire" \in EnvActs /\ x \in s.live /\ Env(Invalidate(s, x), "expire", x, "")
DelayElapse == "delay" \in EnvActs /\ s.delay /\ Env([s EXCEPT !.delay = FALSE], "delay", 0, "")
\* a competing node creates a session and takes the free key
XAcq == /\ "xacq" \in EnvActs /\ s.nsess < MaxSess /\ s.kh = 0 /\ ~s.delay
        /\ Env(SetKey(Create(s, "x"), "x", s.nsess + 1), "xacq", s.nsess + 1, "x")
\* a competing primary initialises the cluster ID (correctly: only if unset)
XCid == "xcid" \in EnvActs /\ s.cid = "" /\ Env([s EXCEPT !.cid = "B"], "xcid", 0, "B")
\* an operator rewrites or deletes the cluster-ID key (only in trace validation: the store-level scripts
\* of Lease.tla let the lease service report arbitrary ids)
CidAny(v) == "cidany" \in EnvActs /\ Env([s EXCEPT !.cid = v], "cidany", 0, v)
\* the competing primary hands its lease to node m
XHand(m) == /\ "xhand" \in EnvActs /\ s.kh # 0 /\ s.owner[s.kh] = "x" /\ s.handed[m] = 0 /\ s.lease[m] = 0 /\ s.pc[m] = "idle"
            /\ \A k \in Nodes : <<k, s.kh>> \notin s.hoLog          \* a lease is handed over once
            /\ Env([s EXCEPT !.handed[m] = s.kh, !.hoLog = @ \cup {<<m, s.kh>>}], "xhand", s.kh, m)

(* ------------------------------------------------------------------------ *)
AnsAll == {"ok", "err", "lost", "stale"}
NodeStep(n, a) ==
  \/ AcqCreate(n, a) \/ AcqKV(n, a) \/ FailRel(n, a) \/ FailDes(n, a)
  \/ AcqXRenew(n, a) \/ AcqXKV(n, a)
  \/ Renew(n, a) \/ CloseRel(n, a) \/ CloseDes(n, a)
  \/ Info(n, a) \/ CID(n, a) \/ SetGet(n, a) \/ SetPut(n, a)

Trans ==
  \/ \E n \in Nodes, a \in AnsAll : NodeStep(n, a)
  \/ \E n \in Nodes, m \in Nodes : Handoff(n, m)
  \/ \E x \in Sids : Expire(x)
  \/ DelayElapse \/ XAcq \/ XCid
  \/ \E m \in Nodes : XHand(m)

Next == Trans
Spec == Init /\ [][Next]_vars

(* ============================== properties ============================== *)
Pcs == {"idle", "acq_kv", "fail_rel", "fail_des", "acqx_kv", "close_des", "set_put"}
TypeOK == /\ \A n \in Nodes : s.pc[n] \in Pcs /\ s.lease[n] \in 0..MaxSess /\ s.handed[n] \in 0..MaxSess
          /\ s.live \subseteq 1..s.nsess /\ s.nsess <= MaxSess /\ Len(s.owner) = s.nsess
          /\ s.kh \in 0..s.nsess /\ s.cid \in {"", "A", "B", "C"}

\* the key is held by at most one session, and only by a live one; a held key exists
OneLiveHolder == s.kh # 0 => (s.kh \in s.live /\ s.kval \notin {"none"})

\* no two Lease objects for one session; a Lease object whose session is alive holds the key
\* ("reports renewed only while its session still holds the key")
LeaseHoldsKey ==
  /\ \A n, m \in Nodes : (s.lease[n] # 0 /\ s.lease[n] = s.lease[m]) => n = m
  /\ \A n \in Nodes : (s.lease[n] # 0 /\ s.lease[n] \in s.live) => s.kh = s.lease[n]
  /\ "renewed-without-key" \notin s.flags

\* Acquire / AcquireExisting return a lease only for the session that holds the key at that moment
LeaseOnlyWithKey == "lease-without-key" \notin s.flags

\* after the server dropped the session a renewal says ErrLeaseExpired, never success
\* (the flag is set by Renew when it returns "ok" for a dead or key-less session)
ExpiredIsReported == "renewed-without-key" \notin s.flags

\* Close() that reports success has released the key and destroyed the session
CloseDestroys == "close-ok-but-alive" \notin s.flags

\* AcquireExisting is made only with an id that a handoff delivered to exactly this node
HandoffExact == /\ "acqx-not-handed" \notin s.flags
                /\ \A n \in Nodes : s.handed[n] # 0 => <<n, s.handed[n]>> \in s.hoLog
                /\ \A n \in Nodes : s.handed[n] # 0 => \A m \in Nodes : s.lease[m] # s.handed[n]

\* the cluster ID, once set, is never replaced by a different value   (FAILS for the code as written)
ClusterIDSetOnce == "cid-overwritten" \notin s.flags
====
