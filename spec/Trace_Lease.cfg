SPECIFICATION TraceSpec
CONSTANTS
  Candidate = TRUE
  LocalInit = "A"
  TTL = 300
  MaxCalls = 1000000
  MaxStim = 1000000
  Stim = {"demote", "ho1", "ho1x", "ho9"}
  StimAnywhere = TRUE
  Focus = "all"
  Mute = "either"
  CheckAfterAcquire = FALSE
  Mut = "none"
  Emit = "none"
VIEW traceView
INVARIANTS NotAccepted
CHECK_DEADLOCK FALSE
