SPECIFICATION Spec
CONSTANTS
  Nodes = {"n1","n2","n3"}
  MaxTx = 2
  MaxFaults = 2
  AllowSplit = FALSE
  AllowDrop = TRUE
  SrvCheck = TRUE
  RepCheck = TRUE
  Emit = "final"
VIEW view
INVARIANTS ChkIsImage OnHistory ChainOK DropIsEmpty EmitInv
PROPERTIES NoPatch
CHECK_DEADLOCK FALSE
