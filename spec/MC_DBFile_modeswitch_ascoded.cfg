SPECIFICATION Spec
CONSTANTS
  MaxPg = 2
  MaxOps = 5
  BlockOf <- BlockL1
  LockPg = 0
  AllowWAL = TRUE
  FinModes = {"DELETE", "PERSIST"}
  AllowSpill = FALSE
  AllowBeyond = FALSE
  FixBeyond = TRUE
  AllowNoSync = FALSE
  FixOOB = TRUE
  FixFirstRb = TRUE
  AllowCrash = FALSE
  FixJournalNoPS = TRUE
  FixModeOnOpen = TRUE
  AllowHoles = FALSE
  FixHoles = TRUE
  AllowFailCommit = FALSE
  FixFailedCommit = TRUE
  AllowFreeReuse = FALSE
  AllowFromWal = TRUE
  FixModeSwitch = FALSE
  AllowDropDB = FALSE
  AllowRetain = FALSE
  Emit = "none"
VIEW view
INVARIANTS NoFault C04_Checksum C02_Image C02_Delta C02_Outcome C09_Chain CacheSound EmitInv
PROPERTIES C02_AtMostOne
CHECK_DEADLOCK FALSE
