SPECIFICATION Spec
CONSTANTS
  Nodes = {"n1","n2"}
  MaxTx = 4
  MaxFaults = 3
  AllowSplit = TRUE
  AllowDrop = FALSE
  SrvCheck = TRUE
  RepCheck = TRUE
  Emit = "none"
VIEW view
INVARIANTS ChkIsImage OnHistory ChainOK DropIsEmpty EmitInv
PROPERTIES NoPatch
CHECK_DEADLOCK FALSE
