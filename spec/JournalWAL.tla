---- MODULE JournalWAL ----
(***************************************************************************)
(* C17 - journal rollback and WAL scanning follow SQLite's validity rules. *)
(*                                                                         *)
(* Part "journal".  SQLite's rollback-journal commit protocol as a         *)
(* sequence of FILE STATES (transcribed from SQLite 3.39 pager.c:          *)
(* writeJournalHdr, pager_write/pagerAddPageToRollbackJournal, syncJournal,*)
(* pager_write_pagelist, pager_end_transaction, sqlite3PagerRollback;      *)
(* DESIGN.md Appendix A).  A transaction plan is executed one file         *)
(* operation at a time; EVERY reachable state is a state in which the      *)
(* application may die, so every state is emitted as one implementation    *)
(* test.  From every such state the structural mutations (checksum-bad     *)
(* record i, torn final record, zeroed header, truncated header,           *)
(* header-only journal, sector size 0, record page number beyond the       *)
(* original size, size field of a second header damaged) lead to terminal  *)
(* states that are emitted as well.                                        *)
(*                                                                         *)
(* SQLite's playback rule is the operator JournalPlayback (pager.c:        *)
(* pager_playback, readJournalHdr, pager_playback_one_page).  It is stated *)
(* from SQLite's sources only - nothing in it is taken from LiteFS.        *)
(* TLC checks on the model that playback of every state the protocol can   *)
(* leave restores exactly the pre-transaction image (RollbackRestores).    *)
(*                                                                         *)
(* Part "wal".  A WAL as header + frames; WALValidPrefix / WALCommitted    *)
(* are SQLite's rules (wal.c: walIndexRecover, walDecodeFrame).  TLC       *)
(* enumerates every WAL within the bounds; each is one implementation test.*)
(* The scanning loop of a checkpointer (last committed version of each     *)
(* page) is modelled operationally (ScanOffsets) and TLC checks that it    *)
(* computes WALCommitted (ScanIsCommitted).                                *)
(*                                                                         *)
(* Bounds and simplifications: one transaction; at most two segments (one  *)
(* spill); records in page order; a stale PERSIST tail only under single-  *)
(* segment transactions (so SQLite's clearing of a stale magic at the next *)
(* header position is not needed); the write of a header or of one part of *)
(* a record is atomic (application death, not power loss).                 *)
(*                                                                         *)
(* Page contents are versions: 0 = pre-transaction content, 1 = content    *)
(* written by the transaction, 9 = stale content of an older journal       *)
(* (journal_mode=PERSIST), -1 = a zero page, 10+i = content of WAL frame i.*)
(***************************************************************************)
EXTENDS Integers, Sequences, FiniteSets, TLC, Json

CONSTANTS
  Part,        \* "journal" | "wal": which half this configuration enumerates
  Emit,        \* TRUE: print one JSTATE / WSTATE line per state
  \* ---- journal
  Plans,       \* set of transaction plans (MC module)
  Mutate,      \* TRUE: also enumerate the structural mutations of every state
  Rule,        \* "sqlite" | "notrunc" | "oneseg": playback rule used by the invariants (relevance runs)
  \* ---- wal
  WN0,         \* size of the database file in pages
  WPages,      \* page numbers a frame may carry
  WCommits,    \* values of the commit field (0 = not a commit frame)
  WHdrs,       \* header classes
  MaxFrames,
  MaxBad,      \* at most this many frames with a salt or checksum defect
  Scan         \* "sqlite" | "nosalt" | "nocommit": scanning rule used by the invariants (relevance runs)

VARIABLES
  plan,   \* the transaction plan being executed
  todo,   \* remaining file operations of the current stage
  stage,  \* 1 = journalling, 2 = commit or rollback chosen, 3 = mutated (terminal)
  jr,     \* journal file
  dbf,    \* database file: sequence of page versions
  fin,    \* the journal has been finalised (the transaction is over)
  mut,    \* the mutation applied (terminal states), or [kind |-> "none"]
  wal     \* WAL file

vars == <<plan, todo, stage, jr, dbf, fin, mut, wal>>

Max(a, b) == IF a > b THEN a ELSE b
Min(a, b) == IF a < b THEN a ELSE b

RECURSIVE SortedSeq(_)
SortedSeq(S) == IF S = {} THEN <<>>
                ELSE LET x == CHOOSE x \in S : \A y \in S : x <= y
                     IN <<x>> \o SortedSeq(S \ {x})

RECURSIVE Flatten(_)
Flatten(ss) == IF ss = <<>> THEN <<>> ELSE Head(ss) \o Flatten(Tail(ss))

(***************************************************************************)
(*                          PART 1: ROLLBACK JOURNAL                       *)
(***************************************************************************)

NoMut == [kind |-> "none", seg |-> 0, i |-> 0]

(* A plan: n0 original size, ns new size, m modified pages, sync (FALSE = synchronous=OFF),   *)
(* spill = number of journalled pages after which the cache spills (0 = never),                *)
(* stale = journal_mode=PERSIST with the records of an older, longer transaction still in the  *)
(* file behind a zeroed header.                                                                *)
Journalled(p) == SortedSeq(p.m \cap (1..p.n0))
Written(p)    == SortedSeq(p.m \cap (1..p.ns))

(* A journal segment.  hdr: "full" | "part" (>= 28 bytes, sector incomplete) | "lt28" | "zero" *)
(* (first 28 bytes zeroed); magic present; nrec field (-1 = 0xffffffff); orig = database size  *)
(* field; sect = sector-size field "ok" | "zero"; recs = records [pg, v, ck, len, st] with     *)
(* len "full" | "data" (no checksum yet) | "pgno" (page number only) and st = stale record     *)
(* (checksummed with the older transaction's nonce, hence ck = FALSE for this header).         *)
Seg(hdr, magic, nrec, orig, recs) ==
  [hdr |-> hdr, magic |-> magic, nrec |-> nrec, orig |-> orig, sect |-> "ok", recs |-> recs]

StaleRecs(n) == [i \in 1..n |-> [pg |-> i, v |-> 9, ck |-> FALSE, len |-> "full", st |-> TRUE]]

NoJournal == [exists |-> FALSE, segs |-> <<>>]

InitJournal(p) ==
  IF p.stale
  THEN [exists |-> TRUE, segs |-> <<Seg("zero", FALSE, 0, p.n0, StaleRecs(p.n0))>>]
  ELSE NoJournal

(* ---- the protocol as a list of file operations ------------------------------------------- *)
HdrOps(p, seg) ==
  LET mg == ~p.sync
      nr == IF p.sync THEN 0 ELSE -1
  IN  (IF p.stale THEN <<>> ELSE <<[op |-> "jhdr", seg |-> seg, part |-> "part", magic |-> mg, nrec |-> nr]>>)
      \o <<[op |-> "jhdr", seg |-> seg, part |-> "full", magic |-> mg, nrec |-> nr]>>

RecOps(pgs) ==
  Flatten([i \in 1..Len(pgs) |->
     << [op |-> "jrec", pg |-> pgs[i], part |-> "pgno"],
        [op |-> "jrec", pg |-> pgs[i], part |-> "data"],
        [op |-> "jrec", pg |-> pgs[i], part |-> "ck"] >>])

DbwOps(pgs, v) == [i \in 1..Len(pgs) |-> [op |-> "dbw", pg |-> pgs[i], v |-> v]]

(* stage 1: journal creation, header, records; on a cache spill the first segment is synced,  *)
(* its pages are written to the database and (synchronous mode) a second header is started at *)
(* the next sector boundary.                                                                   *)
Prefix(p) ==
  LET J  == Journalled(p)
      s  == p.spill
      r1 == IF s = 0 THEN J ELSE SubSeq(J, 1, s)
      r2 == IF s = 0 THEN <<>> ELSE SubSeq(J, s + 1, Len(J))
  IN  (IF p.stale THEN <<>> ELSE <<[op |-> "jcreate"]>>)
      \o HdrOps(p, 1) \o RecOps(r1)
      \o (IF s = 0 THEN <<>>
          ELSE (IF p.sync THEN <<[op |-> "jstamp", seg |-> 1, nrec |-> s]>> ELSE <<>>)
               \o DbwOps(r1, 1)
               \o (IF p.sync THEN HdrOps(p, 2) ELSE <<>>)
               \o RecOps(r2))

(* stage 2a: commit = sync the last segment, write the remaining pages in page order,          *)
(* finalise, and only then cut a shrunken file.                                                *)
CommitSuffix(p) ==
  LET J    == Journalled(p)
      s    == p.spill
      done == IF s = 0 THEN {} ELSE {J[i] : i \in 1..s}
      rest == SortedSeq({Written(p)[i] : i \in 1..Len(Written(p))} \ done)
      last == IF s > 0 /\ p.sync THEN 2 ELSE 1
      cnt  == IF s > 0 THEN Len(J) - s ELSE Len(J)
  IN  (IF p.sync THEN <<[op |-> "jstamp", seg |-> last, nrec |-> cnt]>> ELSE <<>>)
      \o DbwOps(rest, 1)
      \o <<[op |-> "jfin"]>>
      \o (IF p.ns < p.n0 THEN <<[op |-> "dbtrunc", n |-> p.ns]>> ELSE <<>>)

(* stage 2b: ROLLBACK by the application: the spilled pages get their original content back   *)
(* (SQLite plays its own, unsynced, journal), then the journal is finalised.                   *)
RollbackSuffix(p) ==
  LET J == Journalled(p)
      s == p.spill
  IN  DbwOps(IF s = 0 THEN <<>> ELSE SubSeq(J, 1, s), 0) \o <<[op |-> "jfin"]>>

(* ---- effect of one file operation --------------------------------------------------------- *)
LastSeg(j) == j.segs[Len(j.segs)]
SetLastSeg(j, sg) == [j EXCEPT !.segs[Len(j.segs)] = sg]

(* number of records of the segment that belong to the current transaction *)
CurN(sg) == Cardinality({i \in 1..Len(sg.recs) : ~sg.recs[i].st})

ApplyJHdr(j, o, n0) ==
  IF o.seg > Len(j.segs)
  THEN [j EXCEPT !.segs = Append(j.segs, Seg(o.part, o.magic, o.nrec, n0, <<>>))]
  ELSE \* completes a partial header, or overwrites the zeroed header of a stale PERSIST journal
       [j EXCEPT !.segs[o.seg] = [@ EXCEPT !.hdr = o.part, !.magic = o.magic, !.nrec = o.nrec, !.orig = n0]]

(* A record is written with three write calls.  Over a stale record the file does not get     *)
(* shorter: the bytes not yet overwritten are the stale record's.                             *)
ApplyJRec(j, o) ==
  LET sg == LastSeg(j)
      k  == CurN(sg)
  IN  CASE o.part = "pgno" ->
             IF k < Len(sg.recs)
             THEN SetLastSeg(j, [sg EXCEPT !.recs[k + 1] = [pg |-> o.pg, v |-> @.v, ck |-> FALSE, len |-> "full", st |-> FALSE]])
             ELSE SetLastSeg(j, [sg EXCEPT !.recs = Append(@, [pg |-> o.pg, v |-> 0, ck |-> FALSE, len |-> "pgno", st |-> FALSE])])
        [] o.part = "data" ->
             SetLastSeg(j, [sg EXCEPT !.recs[k] = [@ EXCEPT !.v = 0, !.len = IF @ = "pgno" THEN "data" ELSE @]])
        [] o.part = "ck" ->
             SetLastSeg(j, [sg EXCEPT !.recs[k] = [@ EXCEPT !.ck = TRUE, !.len = "full"]])

ApplyDbw(d, o) ==
  IF o.pg <= Len(d) THEN [d EXCEPT ![o.pg] = o.v]
  ELSE d \o [i \in 1..(o.pg - Len(d)) |-> IF i = o.pg - Len(d) THEN o.v ELSE -1]

FinModes(p) == IF p.stale THEN {"PERSIST"} ELSE {"DELETE", "TRUNCATE", "PERSIST"}

ApplyFin(j, mode) ==
  CASE mode = "DELETE"   -> NoJournal
    [] mode = "TRUNCATE" -> [exists |-> TRUE, segs |-> <<>>]
    [] mode = "PERSIST"  -> [j EXCEPT !.segs[1] = [@ EXCEPT !.hdr = "zero"]]

Step ==
  /\ Part = "journal" /\ stage \in {1, 2} /\ todo # <<>>
  /\ LET o == Head(todo) IN
       /\ todo' = Tail(todo)
       /\ CASE o.op = "jcreate" -> jr' = [exists |-> TRUE, segs |-> <<>>] /\ UNCHANGED <<dbf, fin>>
            [] o.op = "jhdr"    -> jr' = ApplyJHdr(jr, o, plan.n0) /\ UNCHANGED <<dbf, fin>>
            [] o.op = "jrec"    -> jr' = ApplyJRec(jr, o) /\ UNCHANGED <<dbf, fin>>
            [] o.op = "jstamp"  -> jr' = [jr EXCEPT !.segs[o.seg] = [@ EXCEPT !.magic = TRUE, !.nrec = o.nrec]]
                                   /\ UNCHANGED <<dbf, fin>>
            [] o.op = "dbw"     -> dbf' = ApplyDbw(dbf, o) /\ UNCHANGED <<jr, fin>>
            [] o.op = "dbtrunc" -> dbf' = SubSeq(dbf, 1, o.n) /\ UNCHANGED <<jr, fin>>
            [] o.op = "jfin"    -> /\ \E mode \in FinModes(plan) : jr' = ApplyFin(jr, mode)
                                   /\ fin' = TRUE /\ UNCHANGED dbf
  /\ UNCHANGED <<plan, stage, mut, wal>>

Choose ==
  /\ Part = "journal" /\ stage = 1 /\ todo = <<>>
  /\ stage' = 2
  /\ todo' \in {CommitSuffix(plan), RollbackSuffix(plan)}
  /\ UNCHANGED <<plan, jr, dbf, fin, mut, wal>>

(* ---- structural mutations of the journal file (terminal states) --------------------------- *)
HdrReadable(j) == j.exists /\ j.segs # <<>> /\ j.segs[1].hdr \in {"full", "part"}

Mutations(j) ==
  IF ~HdrReadable(j) THEN {}
  ELSE LET L == Len(j.segs)
           lr == LastSeg(j).recs
       IN  {[kind |-> "ckbad", seg |-> s, i |-> i] : s \in 1..L, i \in 1..3} \cup
           {[kind |-> "pgbig", seg |-> s, i |-> i] : s \in 1..L, i \in 1..3} \cup
           {[kind |-> k, seg |-> L, i |-> Len(lr)] : k \in {"torn-pgno", "torn-data"}} \cup
           {[kind |-> k, seg |-> 1, i |-> 0] : k \in {"zerohdr", "trunc-lt28", "trunc-part", "hdronly", "sector0"}} \cup
           {[kind |-> "orig2", seg |-> 2, i |-> v] : v \in {1, 99}}

CanMutate(j, mu) ==
  LET sg == j.segs[mu.seg] IN
  CASE mu.kind \in {"ckbad", "pgbig"} -> mu.i <= Len(sg.recs) /\ sg.recs[mu.i].len = "full" /\ sg.recs[mu.i].ck
    [] mu.kind \in {"torn-pgno", "torn-data"} -> mu.i >= 1 /\ sg.recs[mu.i].len = "full"
    [] mu.kind = "zerohdr"    -> TRUE
    [] mu.kind = "trunc-lt28" -> TRUE
    [] mu.kind = "trunc-part" -> sg.hdr = "full"
    [] mu.kind = "hdronly"    -> sg.hdr = "full" /\ (sg.recs # <<>> \/ Len(j.segs) > 1)
    [] mu.kind = "sector0"    -> sg.hdr = "full"
    [] mu.kind = "orig2"      -> Len(j.segs) = 2 /\ sg.hdr = "full" /\ sg.orig # mu.i

ApplyMut(j, mu) ==
  CASE mu.kind = "ckbad"      -> [j EXCEPT !.segs[mu.seg].recs[mu.i].ck = FALSE]
    [] mu.kind = "pgbig"      -> [j EXCEPT !.segs[mu.seg].recs[mu.i].pg = 99]
    [] mu.kind = "torn-pgno"  -> [j EXCEPT !.segs[mu.seg].recs = Append(SubSeq(@, 1, mu.i - 1), [@[mu.i] EXCEPT !.len = "pgno", !.ck = FALSE])]
    [] mu.kind = "torn-data"  -> [j EXCEPT !.segs[mu.seg].recs = Append(SubSeq(@, 1, mu.i - 1), [@[mu.i] EXCEPT !.len = "data", !.ck = FALSE])]
    [] mu.kind = "zerohdr"    -> [j EXCEPT !.segs[1].hdr = "zero"]
    [] mu.kind = "trunc-lt28" -> [j EXCEPT !.segs = <<[j.segs[1] EXCEPT !.hdr = "lt28", !.recs = <<>>]>>]
    [] mu.kind = "trunc-part" -> [j EXCEPT !.segs = <<[j.segs[1] EXCEPT !.hdr = "part", !.recs = <<>>]>>]
    [] mu.kind = "hdronly"    -> [j EXCEPT !.segs = <<[j.segs[1] EXCEPT !.recs = <<>>]>>]
    [] mu.kind = "sector0"    -> [j EXCEPT !.segs[1].sect = "zero"]
    [] mu.kind = "orig2"      -> [j EXCEPT !.segs[2].orig = mu.i]      \* size field of the second header damaged

MutateStep ==
  /\ Part = "journal" /\ Mutate /\ stage \in {1, 2}
  /\ \E mu \in Mutations(jr) :
       /\ CanMutate(jr, mu)
       /\ jr' = ApplyMut(jr, mu)
       /\ mut' = mu
  /\ stage' = 3
  /\ UNCHANGED <<plan, todo, dbf, fin, wal>>

(***************************************************************************)
(* SQLite's playback rule (pager_playback).  hot = TRUE is the rule for a  *)
(* hot journal found by another process (every header needs the magic;     *)
(* nRec = 0 means no record); hot = FALSE is the rule for a rollback by    *)
(* the process that wrote the journal (the last header written needs no    *)
(* magic and nRec = 0 there means "as many as the file holds").  Both      *)
(* rules must agree on every file the protocol can leave (HotOwnAgree).    *)
(***************************************************************************)
Resize(d, n) == IF Len(d) >= n THEN SubSeq(d, 1, n) ELSE d \o [i \in 1..(n - Len(d)) |-> -1]

CompleteRecs(sg) == Cardinality({i \in 1..Len(sg.recs) : sg.recs[i].len = "full"})

HeaderValid(j, k, hot) ==
  LET h == j.segs[k] IN
  /\ h.hdr = "full"                              \* readJournalHdr: journalOff + JOURNAL_HDR_SZ <= journalSize
  /\ (h.magic \/ (~hot /\ k = Len(j.segs)))      \* magic compared if isHot or not the last header this process wrote
  /\ (k = 1 => h.sect = "ok")                    \* sector size: power of two in 32..65536, else SQLITE_DONE

RecCount(j, k, hot) ==
  LET h == j.segs[k] IN
  IF h.nrec = -1 THEN CompleteRecs(h)                                    \* no-sync: (szJ - hdr) / recordSize
  ELSE IF h.nrec = 0 /\ ~hot /\ k = Len(j.segs) THEN CompleteRecs(h)     \* own rollback, unsynced last segment
  ELSE h.nrec

RECURSIVE PlayRecs(_, _, _, _, _)
PlayRecs(recs, i, n, orig, d) ==
  IF i > n THEN [db |-> d, stop |-> FALSE]
  ELSE IF i > Len(recs) \/ recs[i].len # "full" THEN [db |-> d, stop |-> TRUE]    \* SQLITE_IOERR_SHORT_READ: end
  ELSE IF ~recs[i].ck THEN [db |-> d, stop |-> TRUE]                              \* checksum mismatch: SQLITE_DONE, end
  ELSE IF recs[i].pg > orig \/ recs[i].pg > Len(d)
       THEN PlayRecs(recs, i + 1, n, orig, d)                                     \* page beyond the original size: skipped
  ELSE PlayRecs(recs, i + 1, n, orig, [d EXCEPT ![recs[i].pg] = recs[i].v])

(* The database size is restored from the FIRST header only (pager_playback truncates when      *)
(* journalOff = JOURNAL_HDR_SZ and sets Pager.dbSize there); the size field of later headers is  *)
(* read and ignored.                                                                              *)
RECURSIVE PlaySegs(_, _, _, _, _)
PlaySegs(j, k, hot, d, orig) ==
  IF k > Len(j.segs) \/ ~HeaderValid(j, k, hot) THEN d
  ELSE LET h  == j.segs[k]
           d0 == IF k = 1 /\ Rule # "notrunc" THEN Resize(d, orig) ELSE d         \* first header: restore the size
           n  == RecCount(j, k, hot)
           r  == PlayRecs(h.recs, 1, n, orig, d0)
       IN  IF r.stop \/ n < Len(h.recs) \/ Rule = "oneseg"
           THEN r.db          \* a next header would be looked for inside unread records: no magic there
           ELSE PlaySegs(j, k + 1, hot, r.db, orig)

JournalPlayback(j, d, hot) ==
  IF ~j.exists \/ j.segs = <<>> THEN d ELSE PlaySegs(j, 1, hot, d, j.segs[1].orig)

Ref == [i \in 1..plan.n0 |-> 0]

(* what the property demands after restart: the pre-transaction image while the transaction   *)
(* is open, the file as it is once the journal has been finalised.                            *)
PropImage == IF fin THEN dbf ELSE Ref

Predicted == JournalPlayback(jr, dbf, TRUE)

(* ---- invariants of the journal part ------------------------------------------------------- *)
RollbackRestores == (Part = "journal" /\ stage \in {1, 2}) => Predicted = PropImage

HotOwnAgree == Part = "journal" => JournalPlayback(jr, dbf, TRUE) = JournalPlayback(jr, dbf, FALSE)

(* mutations only make playback stop earlier or do nothing: the result never contains content *)
(* that is neither pre-transaction, new, nor (never) stale                                    *)
NoStaleContent == Part = "journal" => \A i \in 1..Len(Predicted) : Predicted[i] \in {0, 1}

JTypeOK ==
  Part = "journal" =>
    /\ jr.exists \in BOOLEAN
    /\ \A k \in 1..Len(jr.segs) :
         /\ jr.segs[k].hdr \in {"full", "part", "lt28", "zero"}
         /\ jr.segs[k].nrec \in -1..4
         /\ (jr.segs[k].hdr \in {"part", "lt28"} => (k = Len(jr.segs) /\ jr.segs[k].recs = <<>>) \/ plan.stale)
    /\ Len(jr.segs) <= 2
    /\ \A i \in 1..Len(dbf) : dbf[i] \in {0, 1}

JEmit ==
  (Part = "journal" /\ Emit) =>
    PrintT("JSTATE " \o ToJson([plan |-> plan, left |-> Len(todo), stage |-> stage, fin |-> fin, mut |-> mut,
                                j |-> jr, db |-> dbf, n0 |-> plan.n0, exp |-> Predicted]))

(***************************************************************************)
(*                          PART 2: WRITE-AHEAD LOG                        *)
(***************************************************************************)

(* header classes: "ok"; "badmagic"; "badck" (header checksum wrong); "short" (< 32 bytes);   *)
(* "zero" (a zero-filled region).  Frame: pg, cm (commit size or 0), salt (equal to the       *)
(* header's), ck (stored checksum equals the cumulative checksum up to this frame),           *)
(* len "full" | "hdr" (frame header only) | "part" (part of the page).                        *)
Frames ==
  [pg : WPages, cm : WCommits, salt : BOOLEAN, ck : BOOLEAN, len : {"full", "hdr", "part"}]

Bad(f) == ~f.salt \/ ~f.ck

(* SQLite never commits a size it has no page for: every page beyond the database file must   *)
(* have a frame somewhere before the commit frame.                                            *)
CommitCovered(fs) ==
  \A i \in 1..Len(fs) :
     \A p \in (WN0 + 1)..fs[i].cm : \E k \in 1..i : fs[k].pg = p

WInit == wal = [hdr |-> "ok", frames |-> <<>>]

WAppend ==
  /\ Part = "wal"
  /\ Len(wal.frames) < (IF wal.hdr = "ok" THEN MaxFrames ELSE 1)
  /\ (wal.frames # <<>> => wal.frames[Len(wal.frames)].len = "full")
  /\ \E f \in Frames :
       /\ (f.len # "full" => f.salt /\ f.ck)
       /\ (wal.hdr = "zero" => ~f.salt /\ ~f.ck /\ f.cm = 0 /\ f.len = "full")
       /\ LET fs == Append(wal.frames, f) IN
            /\ Cardinality({i \in 1..Len(fs) : Bad(fs[i])}) <= MaxBad
            /\ CommitCovered(fs)
            /\ wal' = [wal EXCEPT !.frames = fs]
  /\ UNCHANGED <<plan, todo, stage, jr, dbf, fin, mut>>

WSetHdr ==
  /\ Part = "wal" /\ wal.hdr = "ok" /\ wal.frames = <<>>
  /\ \E h \in WHdrs \ {"ok"} : wal' = [wal EXCEPT !.hdr = h]
  /\ UNCHANGED <<plan, todo, stage, jr, dbf, fin, mut>>

(* ---- SQLite's rules (walIndexRecover) ----------------------------------------------------- *)
FrameValid(f) == f.len = "full" /\ (f.salt \/ Scan = "nosalt") /\ f.ck

RECURSIVE PrefixLen(_, _)
PrefixLen(fs, i) == IF i > Len(fs) \/ ~FrameValid(fs[i]) THEN i - 1 ELSE PrefixLen(fs, i + 1)

WALValidLen(w) == IF w.hdr # "ok" THEN 0 ELSE PrefixLen(w.frames, 1)

(* the longest prefix whose salts and cumulative checksums match the header *)
WALValidPrefix(w) == [i \in 1..WALValidLen(w) |-> <<w.frames[i].pg, w.frames[i].cm>>]

LastCommit(w) ==
  LET C == {i \in 1..WALValidLen(w) : w.frames[i].cm # 0}
  IN  IF C = {} THEN 0 ELSE CHOOSE i \in C : \A k \in C : k <= i

(* frames up to the last commit frame of the valid prefix, last version of each page *)
WALCommitted(w) ==
  LET lc == LastCommit(w)
      P  == {w.frames[i].pg : i \in 1..lc}
  IN  [size |-> IF lc = 0 THEN 0 ELSE w.frames[lc].cm,
       at   |-> [p \in P |-> CHOOSE i \in 1..lc : w.frames[i].pg = p /\ \A k \in 1..lc : w.frames[k].pg = p => k <= i]]

(* the database image a checkpoint of w produces from database file d *)
Checkpointed(w, d) ==
  LET c == WALCommitted(w) IN
  IF c.size = 0 THEN d
  ELSE [p \in 1..c.size |-> IF p \in DOMAIN c.at THEN 10 + c.at[p] ELSE d[p]]

WDb == [i \in 1..WN0 |-> 0]

(* ---- the scanning loop of a checkpointer, operationally ----------------------------------- *)
(* per transaction a table of the newest frame of each page; merged into the result at each   *)
(* commit frame; whatever follows the last commit frame is dropped.                            *)
RECURSIVE ScanLoop(_, _, _, _, _)
ScanLoop(fs, i, n, tx, acc) ==
  IF i > n THEN acc
  ELSE LET tx1 == [p \in DOMAIN tx \cup {fs[i].pg} |-> IF p = fs[i].pg THEN i ELSE tx[p]]
       IN  IF fs[i].cm = 0 /\ Scan # "nocommit"
           THEN ScanLoop(fs, i + 1, n, tx1, acc)
           ELSE ScanLoop(fs, i + 1, n, <<>>,
                         [size |-> IF fs[i].cm # 0 THEN fs[i].cm ELSE acc.size,
                          at   |-> [p \in DOMAIN acc.at \cup DOMAIN tx1 |-> IF p \in DOMAIN tx1 THEN tx1[p] ELSE acc.at[p]]])

ScanOffsets(w) == ScanLoop(w.frames, 1, WALValidLen(w), <<>>, [size |-> 0, at |-> <<>>])

RECURSIVE IsPrefixOK(_, _)
IsPrefixOK(fs, n) == \A i \in 1..n : fs[i].len = "full" /\ fs[i].salt /\ fs[i].ck

(* ---- invariants of the wal part ----------------------------------------------------------- *)
ScanIsCommitted ==
  Part = "wal" =>
    LET s == ScanOffsets(wal) c == WALCommitted(wal) IN
    /\ s.size = c.size
    /\ (c.size # 0 => (DOMAIN s.at = DOMAIN c.at /\ \A p \in DOMAIN c.at : s.at[p] = c.at[p]))

PrefixIsLongest ==
  Part = "wal" =>
    LET n == WALValidLen(wal) IN
    /\ IsPrefixOK(wal.frames, n)
    /\ (wal.hdr = "ok" /\ n < Len(wal.frames) => ~(wal.frames[n + 1].len = "full" /\ wal.frames[n + 1].salt /\ wal.frames[n + 1].ck))
    /\ (wal.hdr # "ok" => n = 0)

OnlyCommittedFramesCount ==
  Part = "wal" =>
    LET img == Checkpointed(wal, WDb) lc == LastCommit(wal) IN
    \A p \in 1..Len(img) : img[p] = 0 \/ (img[p] - 10 \in 1..lc /\ wal.frames[img[p] - 10].pg = p)

(* emission: frames as tuples <<pg, cm, salt, ck, len>>; nv = Len(WALValidPrefix), i.e. the    *)
(* valid prefix is the (pg, cm) sequence of the first nv frames; lc = last commit frame;      *)
(* img = the database image after a checkpoint (0 = page of the database file, 10+i = frame i)*)
WEmit ==
  (Part = "wal" /\ Emit) =>
    PrintT("WSTATE " \o ToJson([h |-> wal.hdr,
                                f |-> [i \in 1..Len(wal.frames) |->
                                         <<wal.frames[i].pg, wal.frames[i].cm, wal.frames[i].salt, wal.frames[i].ck, wal.frames[i].len>>],
                                nv |-> Len(WALValidPrefix(wal)), lc |-> LastCommit(wal),
                                size |-> WALCommitted(wal).size, img |-> Checkpointed(wal, WDb)]))

(***************************************************************************)
Init ==
  /\ plan \in Plans
  /\ todo = Prefix(plan)
  /\ stage = 1
  /\ jr = InitJournal(plan)
  /\ dbf = [i \in 1..plan.n0 |-> 0]
  /\ fin = FALSE
  /\ mut = NoMut
  /\ WInit

Next == Step \/ Choose \/ MutateStep \/ WAppend \/ WSetHdr

Spec == Init /\ [][Next]_vars
====
