\* WriteSnapshotTo in WAL mode: OnePosition must hold; one TRACE per distinct final state
SPECIFICATION Spec
CONSTANTS
  Mode = "wal"
  SelfCheck = TRUE
  N0 = 2
  MaxPg = 2
  MaxTx = 2
  MaxCkpt = 1
  MaxLCkpt = 1
  AllowRollback = TRUE
  InitWals = {{}, {1, 2}}
  HoldWrite = FALSE
  TakeRead = TRUE
  CopyOffsets = TRUE
  CkptGate = TRUE
  TrackSig = FALSE
  Emit = TRUE
VIEW view
INVARIANTS TypeOK ViewIsRef OnePosition EmitInv
CHECK_DEADLOCK FALSE
