SPECIFICATION Spec
CONSTANTS
  MaxTx = 2
  MaxFaults = 1
  MaxErrs = 0
  MaxFork = 3
  W = 256
  HwmLag = {0}
  AllowTouch = FALSE
  MidSyncFaults = FALSE
  SweepUsesHWM = TRUE
  HwmFromAnswer = TRUE
  ServiceChecks = TRUE
  RestoreOnAhead = TRUE
  RestoreOnMismatch = TRUE
  FixPosZero = TRUE
  ExcusePosZero = FALSE
  MaxCrash = 1
  RestoreRecovers = FALSE
  Emit = FALSE
VIEW view
INVARIANTS ImageAtPosition TypeOK ChainContig Progress RetentionSafe HwmAcked EmitInv
PROPERTIES RestoreDiscardsInterrupted PrefixPreserved AppendOnly UploadsOwnHistory AdoptProp RestoreAdopts
CHECK_DEADLOCK FALSE
