SPECIFICATION Spec
CONSTANTS
  MaxTx = 4
  MaxFaults = 2
  MaxErrs = 1
  MaxFork = 3
  W = 2
  HwmLag = {0, 1}
  AllowTouch = TRUE
  MidSyncFaults = TRUE
  SweepUsesHWM = TRUE
  HwmFromAnswer = TRUE
  ServiceChecks = TRUE
  RestoreOnAhead = TRUE
  RestoreOnMismatch = TRUE
  FixPosZero = TRUE
  ExcusePosZero = FALSE
  MaxCrash = 0
  RestoreRecovers = TRUE
  Emit = FALSE
VIEW view
INVARIANTS TypeOK ChainContig Progress RetentionSafe HwmAcked EmitInv
PROPERTIES PrefixPreserved AppendOnly UploadsOwnHistory AdoptProp RestoreAdopts
CHECK_DEADLOCK FALSE
