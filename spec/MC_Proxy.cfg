SPECIFICATION Spec
CONSTANTS
  MaxPos = 2
  Methods = {"GET", "HEAD", "OPTIONS", "POST", "PUT", "DELETE", "PATCH"}
  Paths = {"plain", "pt", "af", "both", "health", "healthpt", "healthaf"}
  Mut = "none"
  Emit = TRUE
VIEW view
INVARIANTS TypeOK Shape P1a P1b P1c P2a P2b P3 EmitCase
CHECK_DEADLOCK FALSE
