SPECIFICATION Spec
CONSTANTS
  MaxPg = 4
  MaxOps = 7
  BlockOf <- BlockL1
  LockPg = 0
  AllowWAL = TRUE
  FinModes = {"DELETE", "TRUNCATE", "PERSIST"}
  AllowSpill = TRUE
  AllowBeyond = FALSE
  FixBeyond = TRUE
  AllowNoSync = TRUE
  FixOOB = TRUE
  FixFirstRb = TRUE
  AllowCrash = FALSE
  FixJournalNoPS = TRUE
  FixModeOnOpen = TRUE
  AllowDropDB = FALSE
  AllowRetain = TRUE
  Emit = "end"
INVARIANTS NoFault C04_Checksum C02_Image C02_Delta C02_Outcome C09_Chain CacheSound EmitInv
CHECK_DEADLOCK FALSE
