SPECIFICATION Spec
CONSTANTS
  MaxPg = 4
  MaxOps = 8
  BlockOf <- BlockL1
  LockPg = 0
  AllowWAL = TRUE
  FinModes = {"DELETE", "TRUNCATE", "PERSIST"}
  AllowSpill = TRUE
  AllowBeyond = TRUE
  FixBeyond = TRUE
  AllowNoSync = TRUE
  FixOOB = TRUE
  FixFirstRb = TRUE
  AllowCrash = FALSE
  FixJournalNoPS = TRUE
  FixModeOnOpen = TRUE
  AllowHoles = FALSE
  FixHoles = TRUE
  AllowFailCommit = FALSE
  FixFailedCommit = TRUE
  AllowFreeReuse = TRUE
  AllowFromWal = TRUE
  FixModeSwitch = TRUE
  AllowDropDB = TRUE
  AllowRetain = TRUE
  Emit = "end"
INVARIANTS NoFault C04_Checksum C02_Image C02_Delta C02_Outcome C09_Chain CacheSound EmitInv
CHECK_DEADLOCK FALSE
