---- MODULE ConsulLeaseTrace ----
(***************************************************************************)
(* Trace validation for the Consul mapping (impl -> spec).  The fake Consul *)
(* endpoint of checks/c08 logs every request it receives from the real      *)
(* consul.Leaser (class, session, value, answer class, what was sent back), *)
(* the harness logs every action of the environment it performs on the      *)
(* endpoint and what every leaser-level call returned.  A run is accepted   *)
(* iff it is a behaviour of ConsulLease.tla with exactly these requests,    *)
(* answers and return values.  Used for the store-level stage, where the    *)
(* real Store decides which calls are made; runs are concatenated with      *)
(* "reset" events.                                                          *)
(***************************************************************************)
EXTENDS ConsulLease, IOUtils

Trace == ndJsonDeserialize(IOEnv.TRACE_FILE)

VARIABLE l
tvars == <<vars, l>>
traceView == <<s, l>>

Ev == Trace[l]
More == l <= Len(Trace)
Last == hist'[Len(hist')]

\* one request of the node under test, answered as logged
TReq ==
  /\ More /\ Ev.ev = "req"
  /\ \/ (Ev.q \notin {"cid.put", "cid.cas"} /\ NodeStep(Ev.n, Ev.ans))
     \/ (Ev.q \in {"cid.put", "cid.cas"} /\ SetPutV(Ev.n, Ev.ans, Ev.v))
  /\ Last.n = Ev.n /\ Last.op = Ev.op /\ Last.q = Ev.q /\ Last.r = Ev.r     \* (the call is logged: the VIEW hides hist)
  /\ (Ev.r # "err" \/ Ev.q # "session.create") => Last.p = Ev.p
  /\ Ev.q = "kv.acquire" => Last.v = Ev.v
  /\ l' = l + 1

\* a leaser-level call returned: the value is the one the model attached to its last request
LastOf(n) == LET idx == {i \in 1..Len(hist) : hist[i].n = n}
                 m == CHOOSE i \in idx : \A j \in idx : j <= i
             IN hist[m]
TRet ==
  /\ More /\ Ev.ev = "ret"
  /\ \E i \in 1..Len(hist) : hist[i].n = Ev.n
  /\ LastOf(Ev.n).op = Ev.op /\ LastOf(Ev.n).ret = Ev.ret /\ s.pc[Ev.n] = "idle"
  /\ UNCHANGED vars /\ l' = l + 1

\* the store dropped its Lease object without closing it (it handed the lease to a peer that the
\* harness plays), or was handed a lease id by the (scripted) primary it was replicating from
TDrop == /\ More /\ Ev.ev = "drop" /\ s.pc[Ev.n] = "idle" /\ s.lease[Ev.n] # 0
         /\ s' = [s EXCEPT !.lease[Ev.n] = 0] /\ hist' = Append(hist, E("env", "drop", "", 0, Ev.n, "ok", "", ""))
         /\ l' = l + 1
TXHand == /\ More /\ Ev.ev = "env" /\ Ev.op = "xhand" /\ s.kh = Ev.p /\ s.owner[s.kh] = "x"
          /\ s' = [s EXCEPT !.handed[Ev.v] = s.kh, !.hoLog = @ \cup {<<Ev.v, s.kh>>}]
          /\ hist' = Append(hist, E("env", "xhand", "", s.kh, Ev.v, "ok", "", ""))
          /\ l' = l + 1

TEnv ==
  /\ More /\ Ev.ev = "env"
  /\ \/ Ev.op = "expire" /\ Expire(Ev.p)
     \/ Ev.op = "delay" /\ DelayElapse
     \/ Ev.op = "xacq" /\ XAcq /\ Last.p = Ev.p
     \/ Ev.op = "xcid" /\ XCid
     \/ Ev.op = "cidany" /\ CidAny(Ev.v)
  /\ l' = l + 1

TReset == /\ More /\ Ev.ev = "reset"
          /\ PrintT("RESET " \o ToJson([run |-> Ev.run]))
          /\ s' = Init0 /\ hist' = <<>> /\ l' = l + 1

TraceInit == Init /\ l = 1
TraceNext == TReq \/ TRet \/ TDrop \/ TXHand \/ TEnv \/ TReset
TraceSpec == TraceInit /\ [][TraceNext]_tvars

\* "violated" exactly when the whole trace has been consumed, i.e. the trace is accepted
NotAccepted == l <= Len(Trace)
====
