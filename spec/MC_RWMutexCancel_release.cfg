\* C12 blocking acquires: the other legal implementation (undo the Try call when the context has ended, then return the error); same invariants
SPECIFICATION CSpec
CONSTANTS
  Owners = {"a", "b", "c", "d"}
  Waiters = {"a", "b"}
  Impl = "release"
  EmitEdges = FALSE
  EmitOutcomes = TRUE
VIEW cview
INVARIANTS CTypeOK OneOfThree QueriesArePosix SucceededAcquireHolds FailedAcquireHoldsNothing NoPhantomHolder
PROPERTIES ErrorReturnChangesNothing NilOnlyWhenAllowed
CHECK_DEADLOCK FALSE
