\* DBLocks.tla: RELEVANCE: WRITE-lock test of WAL writes removed => WalWriteNeedsWriteLock must be violated
SPECIFICATION Spec
CONSTANTS
  Clients = {"a", "b"}
  Internals = {"i"}
  Mode = "wal"
  ReadMarks = {2}
  DbOpsInWal = FALSE
  WithSnapshot = FALSE
  CkptGate = TRUE
  SkipLock = "none"
  TxNoLock = FALSE
  WalGuard = FALSE
  WalOwnerTest = FALSE
  FlushAll = FALSE
  Exclude = {"DmsW", "RecovW", "RecovU"}
  Gated = FALSE
  EmitEdges = FALSE
VIEW view
INVARIANTS TypeOK
PROPERTIES WalWriteNeedsWriteLock
CHECK_DEADLOCK FALSE
