\* thorough: one leaser, three sessions; one script per explored edge
SPECIFICATION Spec
CONSTANTS
  Nodes = {"n1"}
  MaxSess = 3
  Ops = {"acquire","acqx","renew","close","info","cid","setcid"}
  Faults = {"err","lost","stale"}
  EnvActs = {"expire","delay","xacq","xcid","xhand"}
  UseCAS = FALSE
  Mut = "none"
  Emit = "edge"
VIEW view
INVARIANTS TypeOK OneLiveHolder LeaseHoldsKey LeaseOnlyWithKey ExpiredIsReported CloseDestroys HandoffExact
CHECK_DEADLOCK FALSE
