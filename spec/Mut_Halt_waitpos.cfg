\* relevance: WaitPos = FALSE (seeded mutation) must violate StartsAtLockPos
SPECIFICATION Spec
CONSTANTS
  TxHolderCheck = TRUE
  UnsetFix = TRUE
  CatchUpKeeps = TRUE
  GrantPins = TRUE
  IdemCheck = TRUE
  WaitPos = FALSE
  FwdFirst = TRUE
  MaxDrop = 0
  DropExcluded = TRUE
  ExpiryUnlocks = TRUE
  MaxTx = 2
  MaxFaults = 1
  MaxHandles = 1
  MaxExpire = 1
  MaxPChange = 0
  MaxRogue = 0
  MaxBlock = 1
  MaxCkpt = 1
  MaxIdle = 1
  MaxSteps = 0
  Eager = FALSE
  Emit = "none"
VIEW view
INVARIANTS StartsAtLockPos
CHECK_DEADLOCK FALSE
