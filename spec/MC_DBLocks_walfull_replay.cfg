\* DBLocks.tla: thorough: WAL mode, 2 clients, full vocabulary, read marks 0 and 2, gated, emits for replay
SPECIFICATION Spec
CONSTANTS
  Clients = {"a", "b"}
  Internals = {"i"}
  Mode = "wal"
  ReadMarks = {0, 2}
  DbOpsInWal = FALSE
  WithSnapshot = FALSE
  CkptGate = TRUE
  SkipLock = "none"
  TxNoLock = FALSE
  WalGuard = TRUE
  WalOwnerTest = FALSE
  FlushAll = FALSE
  Exclude = {}
  Gated = TRUE
  EmitEdges = TRUE
VIEW view
INVARIANTS TypeOK NothingLost LockConsistent WriteSetHeld Exclusion NoBegin SnapshotExcluded EmitInv
PROPERTIES RefusedWhileWriting EnterOnlyWhenFree WritesInsideSection CkptNeverGrantedUnderForeignWrite WalWriteNeedsWriteLock SingleLockPosix
CHECK_DEADLOCK FALSE
