---- MODULE ApplyCrash ----
(***************************************************************************)
(* LiteFS-internal operations on one database directory as sequences of    *)
(* FILE-LEVEL steps in the order of the code (db.go / store.go), with a    *)
(* process death allowed between any two steps and DB.Open's recovery      *)
(* modelled step by step as well (so that a crash DURING recovery, followed *)
(* by a second restart, is a behaviour too).                               *)
(*                                                                         *)
(*   stream   Store.processLTXStreamFrame -> DB.ApplyLTXNoLock on a        *)
(*            replica: incremental file (grow / shrink / same size),       *)
(*            snapshot (fresh node, node on a fork: behind / same TXID /   *)
(*            ahead), drop transaction                                     *)
(*   recover  DB.Recover (role change, halt-lock release) and              *)
(*   ckpt     DB.Checkpoint -> CheckpointNoLock on a primary whose WAL     *)
(*            holds several captured transactions (sizes go up and down)   *)
(*   pdrop    DB.Drop on the primary (with and without WAL content)        *)
(*   hotj     a local rollback-journal commit (SQLite's steps, coarse, and *)
(*            CommitJournal's LTX rename): the source of hot journals for  *)
(*            DB.Open's rollbackJournal                                    *)
(*   hotw     a local WAL commit: frames complete, LTX not yet written:    *)
(*            the source of WAL content beyond the newest LTX file for     *)
(*            DB.Open's syncWALToLTX                                       *)
(*   restore  Store.restoreDBFromBackup -> DB.WriteLTXFileAt (snapshot)    *)
(*   open     DB.Open: initFromDatabaseHeader, remove shm, maxLTXFile,     *)
(*            syncWALToLTX, rollbackJournal, CheckpointNoLock,             *)
(*            initDatabaseFile, ApplyLTXNoLock(newest)                     *)
(*                                                                         *)
(* A page content is [v, sz]: a version number and, for page 1, the size   *)
(* recorded in the header.  A checksum is the image itself (injective).    *)
(* Every step label is the name of the real call that the harness sees     *)
(* (labelled litefs.OS call or hook H1), so a behaviour is a crash script. *)
(* The ORDER constants are TRUE "as coded"; each has a relevance           *)
(* configuration in which it is FALSE and TLC must find a violation.       *)
(***************************************************************************)
EXTENDS Integers, Sequences, FiniteSets, TLC, Json

CONSTANTS MaxPg,            \* model pages 1..MaxPg
          Ops,              \* subset of {"inc","snap","rdrop","ckpt","pdrop","hotj","hotw","restore"}
          MaxCrash,         \* 1 = crash inside the operation; 2 = additionally a crash inside the recovery
          WalTxs,           \* number of captured WAL transactions in the ckpt scenarios (1..3)
          StreamRenameFirst,\* processLTXStreamFrame renames the LTX file into the log BEFORE it applies it
          SnapRenameFirst,  \* stream snapshot: rename first, remove the other LTX files afterwards
          RestoreRenameFirst,\* WriteLTXFileAt (restore from backup): FALSE = as coded (others removed BEFORE the rename)
          PagesBeforeTrunc, \* ApplyLTXNoLock writes the pages, then truncates
          CkptWalLast,      \* CheckpointNoLock truncates the WAL after pages and file size are in place
          RollbackRmLast,   \* rollbackJournal removes the journal after the pages are played back
          DropRenameFirst,  \* DB.Drop renames the drop LTX into the log before it removes the files
          OpenSyncsWal,     \* DB.Open trims the WAL to the newest LTX file
          OpenRollsBack,    \* DB.Open rolls a journal back
          OpenCheckpoints,  \* DB.Open checkpoints the WAL
          OpenReapplies,    \* DB.Open applies the newest LTX file again
          Emit              \* TRUE = print scenarios and crash outcomes for the harness

Pages == 1..MaxPg
Min2(a, b) == IF a < b THEN a ELSE b
Max2(a, b) == IF a > b THEN a ELSE b
MaxOf(S) == CHOOSE x \in S : \A y \in S : y <= x
SeqOfSet(S) == CHOOSE f \in [1..Cardinality(S) -> S] : \A a, b \in 1..Cardinality(S) : a < b => f[a] < f[b]

C(v, sz) == [v |-> v, sz |-> sz]
HOLE == C(0, 0)           \* zero bytes (file extended by a write or truncate beyond its end)
NONE == C(0 - 1, 0)       \* "no checksum recorded" in LiteFS's per-page table
Hd(n, p) == IF p = 1 THEN n ELSE 0
Img(n, tag) == [p \in 1..n |-> C(tag, Hd(n, p))]
TxPages(n, M, tag) == [p \in M |-> C(tag, Hd(n, p))]
After(img, n, M, tag) == [p \in 1..n |-> IF p \in M THEN C(tag, Hd(n, p)) ELSE img[p]]

NoLtx == [min |-> 0, max |-> 0, commit |-> 0, pages |-> <<>>, post |-> <<>>, wsalt |-> 0, wend |-> 0]
NoJr  == [ex |-> FALSE, valid |-> FALSE, orig |-> 0, recs |-> <<>>]
NoWal == [ex |-> FALSE, salt |-> 0, txs |-> <<>>]
Pos0  == [t |-> 0, img |-> <<>>]
PosOf(f) == [t |-> f.max, img |-> f.post]

VARIABLES
  \* ---- durable ----
  dirx,       \* the database's directory exists (a store opens every directory it finds)
  dbx, dbf,   \* database file exists / its pages
  jr,         \* rollback journal [ex, valid, orig, recs : Seq(<<pg, content>>)]
  wal,        \* [ex, salt (0 = no header), txs : Seq([pages, commit])]
  ltx,        \* set of transaction files in the ltx directory
  shm,
  \* ---- volatile (lost by a crash) ----
  pc, ctx,    \* program counter / which top-level operation runs ("stream","recover","ckpt","drop","sqlite","restore","open")
  cur,        \* the transaction file being written / applied (or the checkpoint's page map)
  todo,       \* pages still to write (sequence: apply / rollback)
  tset,       \* pages still to copy (set: checkpoint, Go map order)
  rmq,        \* files still to remove (removeFilesExcept)
  vj,         \* journal as read by rollbackJournal
  vpos, vtab, vknown, sel,
  \* ---- scenario, bookkeeping ----
  scn, bef, aft, acked, crashes, k, ks,
  ltx0,       \* the transaction files that were on disk when the process died last
  hist

dur  == <<dirx, dbx, dbf, jr, wal, ltx, shm>>
vol  == <<pc, ctx, cur, todo, tset, rmq, vj, vpos, vtab, vknown, sel>>
book == <<scn, bef, aft, acked, crashes, k, ks, ltx0>>
vars == <<dur, vol, book, hist>>
view == <<dur, vol, book>>

(* ====================== files ====================== *)
WriteF(d, p, c) == [q \in 1..Max2(Len(d), p) |-> IF q = p THEN c ELSE IF q <= Len(d) THEN d[q] ELSE HOLE]
WriteT(t, p, c) == [q \in 1..Max2(Len(t), p) |-> IF q = p THEN c ELSE IF q <= Len(t) THEN t[q] ELSE NONE]
ResizeF(d, n) == IF n <= Len(d) THEN SubSeq(d, 1, n) ELSE d \o [i \in 1..(n - Len(d)) |-> HOLE]
ResetT(t, n) == [q \in 1..Len(t) |-> IF q > n THEN NONE ELSE t[q]]
SortedPairs(f) == LET s == SeqOfSet(DOMAIN f) IN [i \in 1..Len(s) |-> <<s[i], f[s[i]]>>]

\* file names sort by (min, max); maxLTXFile keeps the FIRST file with the highest max TXID
Less(f, g) == f.min < g.min \/ (f.min = g.min /\ f.max < g.max)
SortFiles(S) == IF S = {} THEN <<>> ELSE CHOOSE s \in [1..Cardinality(S) -> S] : \A a, b \in 1..Cardinality(S) : a < b => Less(s[a], s[b])
MaxTx(S) == MaxOf({f.max : f \in S})
Newest(S) == CHOOSE f \in S : f.max = MaxTx(S) /\ \A g \in S : g.max = MaxTx(S) => ~Less(g, f)
Rename(S, f) == {g \in S : ~(g.min = f.min /\ g.max = f.max)} \cup {f}
FName(f) == ToString(f.min) \o "-" \o ToString(f.max)

\* last committed version of every page in the WAL and the last commit size (readWALPageOffsets)
WalLast(txs) == LET pgs == UNION {DOMAIN txs[i].pages : i \in 1..Len(txs)}
                    lastOf(p) == MaxOf({i \in 1..Len(txs) : p \in DOMAIN txs[i].pages})
                IN [p \in pgs |-> txs[lastOf(p)].pages[p]]

(* ====================== scenarios ====================== *)
S(op, nb, na, M, rk, ns, cx, wk) == [op |-> op, nb |-> nb, na |-> na, M |-> M, rk |-> rk, ns |-> ns, cx |-> cx, wk |-> wk]
TxShapes == {t \in (0..MaxPg) \X Pages \X (SUBSET Pages) :
               /\ 1 \in t[3] /\ t[3] \subseteq 1..t[2]
               /\ \A p \in (t[1] + 1)..t[2] : p \in t[3]}
Scenarios ==
  (IF "inc" \in Ops THEN {S("inc", t[1], t[2], t[3], "-", <<>>, "stream", FALSE) : t \in {x \in TxShapes : x[1] >= 1}} ELSE {})
  \cup (IF "snap" \in Ops THEN {S("snap", 0, na, {}, "fresh", <<>>, "create", FALSE) : na \in Pages}
                               \cup {S("snap", nb, na, {}, rk, <<>>, "stream", FALSE) : nb \in Pages, na \in Pages, rk \in {"behind", "behind2", "equal", "ahead"}} ELSE {})
  \cup (IF "restore" \in Ops THEN {S("restore", nb, na, {}, rk, <<>>, "restore", FALSE) : nb \in Pages, na \in Pages, rk \in {"behind", "ahead"}} ELSE {})
  \cup (IF "rdrop" \in Ops THEN {S("rdrop", nb, 0, {}, "-", <<>>, "stream", FALSE) : nb \in Pages} ELSE {})
  \cup (IF "ckpt" \in Ops THEN {S("ckpt", 0, 0, {}, "-", ns, cx, FALSE) : ns \in [1..(WalTxs + 1) -> Pages], cx \in {"recover", "ckpt"}} ELSE {})
  \cup (IF "hotw" \in Ops THEN {S("hotw", 0, 0, {}, "-", ns, "sqlite", FALSE) : ns \in [1..3 -> Pages]} ELSE {})
  \cup (IF "pdrop" \in Ops THEN {S("pdrop", nb, 0, {}, "-", <<nb>>, "drop", FALSE) : nb \in Pages}
                                \cup {S("pdrop", nb, 0, {}, "-", <<nb, n1>>, "drop", TRUE) : nb \in Pages, n1 \in Pages} ELSE {})
  \cup (IF "hotj" \in Ops THEN {S("hotj", t[1], t[2], t[3], fin, <<>>, "sqlite", FALSE) : t \in TxShapes, fin \in {"DELETE", "KEEP"}} ELSE {})

E1(n) == [min |-> 1, max |-> 1, commit |-> n, pages |-> Img(n, 1), post |-> Img(n, 1), wsalt |-> 0, wend |-> 0]
\* a rollback-journal history of j transactions on n pages: the first one writes every page, every later one
\* only page 1 - so the NEWEST transaction file is an incremental one and cannot repair other pages
ChainImg(n, t0, j) == [p \in 1..n |-> IF p = 1 THEN C(t0 + j, n) ELSE C(t0 + 1, 0)]
ChainLtx(n, t0, i) == [min |-> i, max |-> i, commit |-> n,
                       pages |-> IF i = 1 THEN ChainImg(n, t0, 1) ELSE [p \in {1} |-> C(t0 + i, n)],
                       post |-> ChainImg(n, t0, i), wsalt |-> 0, wend |-> 0]
Chain(n, t0, j) == {ChainLtx(n, t0, i) : i \in 1..j}
\* a chain of WAL transactions over sizes ns: transaction i takes the database from ns[i] to ns[i+1] pages; it
\* writes page 1, the new pages and (every second one) the last page, so that consecutive ones differ
WM(ns, i) == {1} \cup ((ns[i] + 1)..ns[i + 1]) \cup (IF i % 2 = 0 THEN {ns[i + 1]} ELSE {})
RECURSIVE WImg(_, _)
WImg(ns, i) == IF i = 0 THEN Img(ns[1], 1) ELSE After(WImg(ns, i - 1), ns[i + 1], WM(ns, i), 1 + i)
WTx(ns, i) == [pages |-> TxPages(ns[i + 1], WM(ns, i), 1 + i), commit |-> ns[i + 1]]
WLtx(ns, i) == [min |-> 1 + i, max |-> 1 + i, commit |-> ns[i + 1], pages |-> TxPages(ns[i + 1], WM(ns, i), 1 + i),
                post |-> WImg(ns, i), wsalt |-> 1, wend |-> i]
\* "behind2": the node holds two transaction files of its own history and the snapshot reaches TXID 3, so that
\* a per-transaction file with a first TXID >= 2 sorts AFTER the snapshot file 1-3 by name
ForkLen(rk) == CASE rk = "fresh" -> 0 [] rk = "behind" -> 1 [] rk = "behind2" -> 2 [] rk = "equal" -> 2 [] rk = "ahead" -> 3
SnapMax(rk) == IF rk = "behind2" THEN 3 ELSE 2
Snap(na, rk) == [min |-> 1, max |-> SnapMax(rk), commit |-> na, pages |-> Img(na, 20), post |-> Img(na, 20), wsalt |-> 0, wend |-> 0]
DropLtx(t) == [min |-> t, max |-> t, commit |-> 0, pages |-> <<>>, post |-> <<>>, wsalt |-> 0, wend |-> 0]

Setup(s) ==
  CASE s.op = "inc" ->
         LET B == ChainImg(s.nb, 0, 2)  A == After(B, s.na, s.M, 9)
         IN [dbx |-> TRUE, dbf |-> B, wal |-> NoWal, ltx |-> Chain(s.nb, 0, 2), shm |-> TRUE, pc |-> "s_create",
             cur |-> [min |-> 3, max |-> 3, commit |-> s.na, pages |-> TxPages(s.na, s.M, 9), post |-> A, wsalt |-> 0, wend |-> 0],
             bef |-> [t |-> 2, img |-> B], aft |-> [t |-> 3, img |-> A], acked |-> FALSE]
    [] s.op \in {"snap", "restore"} ->
         LET tr == ForkLen(s.rk)
             B == IF tr = 0 THEN <<>> ELSE ChainImg(s.nb, 10, tr)
         IN [dbx |-> tr > 0, dbf |-> B, wal |-> NoWal, ltx |-> Chain(s.nb, 10, tr), shm |-> tr > 0,
             pc |-> IF s.op = "restore" THEN "j_open" ELSE IF tr = 0 THEN "n_mkdir" ELSE "s_create", cur |-> Snap(s.na, s.rk),
             bef |-> [t |-> tr, img |-> B], aft |-> PosOf(Snap(s.na, s.rk)), acked |-> FALSE]
    [] s.op = "rdrop" ->
         [dbx |-> TRUE, dbf |-> ChainImg(s.nb, 0, 2), wal |-> NoWal, ltx |-> Chain(s.nb, 0, 2), shm |-> TRUE, pc |-> "s_create", cur |-> DropLtx(3),
          bef |-> [t |-> 2, img |-> ChainImg(s.nb, 0, 2)], aft |-> [t |-> 3, img |-> <<>>], acked |-> FALSE]
    [] s.op = "ckpt" ->
         LET W == Len(s.ns) - 1
         IN [dbx |-> TRUE, dbf |-> WImg(s.ns, 0), wal |-> [ex |-> TRUE, salt |-> 1, txs |-> [i \in 1..W |-> WTx(s.ns, i)]],
             ltx |-> {E1(s.ns[1])} \cup {WLtx(s.ns, i) : i \in 1..W}, shm |-> TRUE,
             pc |-> IF s.cx = "recover" THEN "j_open" ELSE "c_open", cur |-> NoLtx,
             bef |-> [t |-> 1 + W, img |-> WImg(s.ns, W)], aft |-> [t |-> 1 + W, img |-> WImg(s.ns, W)], acked |-> TRUE]
    [] s.op = "hotw" ->
         [dbx |-> TRUE, dbf |-> WImg(s.ns, 0), wal |-> [ex |-> TRUE, salt |-> 1, txs |-> <<WTx(s.ns, 1)>>],
          ltx |-> {E1(s.ns[1]), WLtx(s.ns, 1)}, shm |-> TRUE, pc |-> "w_frames", cur |-> WLtx(s.ns, 2),
          bef |-> [t |-> 2, img |-> WImg(s.ns, 1)], aft |-> [t |-> 3, img |-> WImg(s.ns, 2)], acked |-> FALSE]
    [] s.op = "pdrop" ->
         IF s.wk
         THEN [dbx |-> TRUE, dbf |-> WImg(s.ns, 0), wal |-> [ex |-> TRUE, salt |-> 1, txs |-> <<WTx(s.ns, 1)>>],
               ltx |-> {E1(s.ns[1]), WLtx(s.ns, 1)}, shm |-> TRUE, pc |-> "d_create", cur |-> DropLtx(3),
               bef |-> [t |-> 2, img |-> WImg(s.ns, 1)], aft |-> [t |-> 3, img |-> <<>>], acked |-> FALSE]
         ELSE [dbx |-> TRUE, dbf |-> ChainImg(s.nb, 0, 2), wal |-> NoWal, ltx |-> Chain(s.nb, 0, 2), shm |-> FALSE, pc |-> "d_create",
               cur |-> DropLtx(3), bef |-> [t |-> 2, img |-> ChainImg(s.nb, 0, 2)], aft |-> [t |-> 3, img |-> <<>>], acked |-> FALSE]
    [] s.op = "hotj" ->
         LET B == IF s.nb = 0 THEN <<>> ELSE ChainImg(s.nb, 0, 2)
             t0 == IF s.nb = 0 THEN 0 ELSE 2
             A == After(B, s.na, s.M, 9)
         IN [dbx |-> TRUE, dbf |-> B, wal |-> NoWal, ltx |-> IF s.nb = 0 THEN {} ELSE Chain(s.nb, 0, 2), shm |-> FALSE, pc |-> "p_journal",
             cur |-> [min |-> t0 + 1, max |-> t0 + 1, commit |-> s.na, pages |-> TxPages(s.na, s.M, 9), post |-> A, wsalt |-> 0, wend |-> 0],
             bef |-> [t |-> t0, img |-> B], aft |-> [t |-> t0 + 1, img |-> A], acked |-> FALSE]

Init ==
  /\ scn \in Scenarios
  /\ LET i == Setup(scn)
     IN /\ dirx = ~(scn.op = "snap" /\ scn.rk = "fresh")
        /\ dbx = i.dbx /\ dbf = i.dbf /\ jr = NoJr /\ wal = i.wal /\ ltx = i.ltx /\ shm = i.shm
        /\ pc = i.pc /\ ctx = scn.cx /\ cur = i.cur /\ bef = i.bef /\ aft = i.aft /\ acked = i.acked
        /\ vpos = i.bef /\ vtab = i.dbf /\ vknown = (i.dbx /\ i.dbf # <<>>)
  /\ todo = <<>> /\ tset = {} /\ rmq = <<>> /\ vj = NoJr /\ sel = NoLtx
  /\ crashes = 0 /\ k = 0 /\ ks = <<>> /\ ltx0 = {} /\ hist = <<>>

(* ====================== step bookkeeping ====================== *)
Tick(label) == k' = k + 1 /\ ks' = ks /\ crashes' = crashes /\ hist' = Append(hist, label)
             /\ UNCHANGED <<scn, bef, aft, ltx0>>
Live == crashes = 0
\* where a sub-machine continues
AfterRollback == "c_open"
AfterCkpt == IF ctx \in {"open", "create"} THEN "o_init" ELSE IF ctx = "restore" THEN "s_create" ELSE "idle"
AfterApply == "idle"

(* ====================== Store.processLTXStreamFrame (replica) / DB.WriteLTXFileAt (restore) ====================== *)
IsSnap(f) == f.min = 1
RenFirst == IF ctx = "restore" THEN RestoreRenameFirst ELSE SnapRenameFirst
AfterLog == IF StreamRenameFirst THEN "a_open" ELSE "idle"
SCreate ==                                   \* OS Create PROCESSLTX / WRITELTX (temporary file, body copied and verified)
  /\ pc = "s_create"
  /\ IF ~StreamRenameFirst THEN pc' = "a_open" /\ rmq' = <<>>
     ELSE IF IsSnap(cur) /\ ~RenFirst /\ ltx # {} THEN pc' = "s_rm" /\ rmq' = SortFiles(ltx)
     ELSE pc' = "s_rename" /\ rmq' = <<>>
  /\ UNCHANGED <<dur, ctx, cur, todo, tset, vj, vpos, vtab, vknown, sel, acked>>
  /\ Tick("s_create")
SRename ==                                   \* OS Rename PROCESSLTX / WRITELTX
  /\ pc = "s_rename"
  /\ ltx' = Rename(ltx, cur)
  /\ LET others == SortFiles(ltx' \ {cur})
     IN IF IsSnap(cur) /\ RenFirst /\ others # <<>> THEN pc' = "s_rm" /\ rmq' = others
        ELSE pc' = AfterLog /\ rmq' = <<>>
  /\ UNCHANGED <<dirx, dbx, dbf, jr, wal, shm, ctx, cur, todo, tset, vj, vpos, vtab, vknown, sel, acked>>
  /\ Tick("s_rename")
SRemove ==                                   \* OS Remove REMOVEFILESEXCEPT, in directory order
  /\ pc = "s_rm"
  /\ ltx' = ltx \ {Head(rmq)} /\ rmq' = Tail(rmq)
  /\ pc' = IF Len(rmq) > 1 THEN "s_rm" ELSE IF RenFirst THEN AfterLog ELSE "s_rename"
  /\ UNCHANGED <<dirx, dbx, dbf, jr, wal, shm, ctx, cur, todo, tset, vj, vpos, vtab, vknown, sel, acked>>
  /\ Tick("s_rm:" \o FName(Head(rmq)))

(* ====================== DB.ApplyLTXNoLock ====================== *)
AOpen ==                                     \* OS Open APPLYLTX:LTX; the page size is taken from the file if unknown
  /\ pc = "a_open"
  /\ vknown' = TRUE
  /\ IF cur.commit > 0 THEN pc' = "a_opendb"
     ELSE pc' = "a_rmdb"                     \* commit = 0: there are no pages
  /\ UNCHANGED <<dur, ctx, cur, todo, tset, rmq, vj, vpos, vtab, sel, acked>>
  /\ Tick("a_open")
AOpenDB ==                                   \* OS OpenFile APPLYLTX:DB (O_CREATE)
  /\ pc = "a_opendb"
  /\ dbx' = TRUE /\ dbf' = IF dbx THEN dbf ELSE <<>>
  /\ todo' = SortedPairs(cur.pages)
  /\ pc' = IF PagesBeforeTrunc THEN (IF todo' = <<>> THEN "a_trunc" ELSE "a_page") ELSE "a_trunc"
  /\ UNCHANGED <<dirx, jr, wal, ltx, shm, ctx, cur, tset, rmq, vj, vpos, vtab, vknown, sel, acked>>
  /\ Tick("a_opendb")
APage ==                                     \* H1 page write (internal)
  /\ pc = "a_page"
  /\ LET p == Head(todo)[1]  c == Head(todo)[2]
     IN /\ dbf' = WriteF(dbf, p, c) /\ vtab' = WriteT(vtab, p, c)
        /\ todo' = Tail(todo)
        /\ pc' = IF Len(todo) > 1 THEN "a_page" ELSE IF PagesBeforeTrunc THEN "a_trunc" ELSE "a_check"
        /\ UNCHANGED <<dirx, dbx, jr, wal, ltx, shm, ctx, cur, tset, rmq, vj, vpos, vknown, sel, acked>>
        /\ Tick("a_page:" \o ToString(p))
ATrunc ==                                    \* H1 truncate (internal)
  /\ pc = "a_trunc"
  /\ dbf' = ResizeF(dbf, cur.commit) /\ vtab' = ResetT(vtab, cur.commit)
  /\ pc' = IF PagesBeforeTrunc \/ todo = <<>> THEN "a_check" ELSE "a_page"
  /\ UNCHANGED <<dirx, dbx, jr, wal, ltx, shm, ctx, cur, todo, tset, rmq, vj, vpos, vknown, sel, acked>>
  /\ Tick("a_trunc")
ARmDB ==                                     \* OS Remove APPLYLTX:DROP:DB
  /\ pc = "a_rmdb" /\ dbx' = FALSE /\ dbf' = <<>> /\ pc' = "a_rmj"
  /\ UNCHANGED <<dirx, jr, wal, ltx, shm, ctx, cur, todo, tset, rmq, vj, vpos, vtab, vknown, sel, acked>>
  /\ Tick("a_rmdb")
ARmJ ==
  /\ pc = "a_rmj" /\ jr' = NoJr /\ pc' = "a_rmwal"
  /\ UNCHANGED <<dirx, dbx, dbf, wal, ltx, shm, ctx, cur, todo, tset, rmq, vj, vpos, vtab, vknown, sel, acked>>
  /\ Tick("a_rmj")
ARmWal ==
  /\ pc = "a_rmwal" /\ wal' = NoWal /\ pc' = "a_rmshm"
  /\ UNCHANGED <<dirx, dbx, dbf, jr, ltx, shm, ctx, cur, todo, tset, rmq, vj, vpos, vtab, vknown, sel, acked>>
  /\ Tick("a_rmwal")
ARmShm ==
  /\ pc = "a_rmshm" /\ shm' = FALSE /\ pc' = "a_check"
  /\ UNCHANGED <<dirx, dbx, dbf, jr, wal, ltx, ctx, cur, todo, tset, rmq, vj, vpos, vtab, vknown, sel, acked>>
  /\ Tick("a_rmshm")
\* the checksum of the per-page table must be the file's post-apply checksum; setPos; updateSHM (OS OpenFile UPDATESHM)
ChkOK(t, f) == /\ Len(t) >= f.commit
               /\ \A p \in 1..f.commit : t[p] # NONE
               /\ [p \in 1..f.commit |-> t[p]] = f.post
ACheck ==
  /\ pc = "a_check"
  /\ IF ChkOK(vtab, cur)
     THEN /\ vpos' = PosOf(cur)
          /\ IF ctx \in {"stream", "restore"} /\ ~StreamRenameFirst THEN pc' = "s_rename" /\ shm' = shm
             ELSE pc' = AfterApply /\ shm' = (cur.commit > 0)
          /\ acked' = (acked \/ Live)
     ELSE /\ pc' = "failed" /\ UNCHANGED <<vpos, shm, acked>>   \* stream / restore: Exit(99); open: Open returns an error
  /\ UNCHANGED <<dirx, dbx, dbf, jr, wal, ltx, ctx, cur, todo, tset, rmq, vj, vtab, vknown, sel>>
  /\ Tick(IF cur.commit > 0 THEN "a_shm" ELSE "a_done")

(* ====================== DB.rollbackJournal ====================== *)
JOpen ==                                     \* OS OpenFile ROLLBACKJOURNAL
  /\ pc = "j_open"
  /\ IF ~jr.ex \/ (ctx = "open" /\ ~OpenRollsBack) THEN pc' = AfterRollback /\ vj' = vj
     ELSE IF ~vknown THEN pc' = "j_rm" /\ vj' = NoJr
     ELSE pc' = "j_opendb" /\ vj' = jr
  /\ UNCHANGED <<dur, ctx, cur, todo, tset, rmq, vpos, vtab, vknown, sel, acked>>
  /\ Tick("j_open")
JOpenDB ==                                   \* OS OpenFile ROLLBACKJOURNALDB
  /\ pc = "j_opendb"
  /\ todo' = IF vj.valid THEN SelectSeq(vj.recs, LAMBDA r : r[1] <= vj.orig) ELSE <<>>
  /\ pc' = IF ~RollbackRmLast THEN "j_rm" ELSE IF todo' # <<>> THEN "j_page" ELSE IF vj.valid THEN "j_trunc" ELSE "j_rm"
  /\ UNCHANGED <<dur, ctx, cur, tset, rmq, vj, vpos, vtab, vknown, sel, acked>>
  /\ Tick("j_opendb")
JPage ==                                     \* H1 page write (internal)
  /\ pc = "j_page"
  /\ LET p == Head(todo)[1]  c == Head(todo)[2]
     IN /\ dbf' = WriteF(dbf, p, c) /\ vtab' = WriteT(vtab, p, c) /\ todo' = Tail(todo)
        /\ pc' = IF Len(todo) > 1 THEN "j_page" ELSE "j_trunc"
        /\ UNCHANGED <<dirx, dbx, jr, wal, ltx, shm, ctx, cur, tset, rmq, vj, vpos, vknown, sel, acked>>
        /\ Tick("j_page:" \o ToString(p))
JTrunc ==                                    \* H1 truncate: never extends the file
  /\ pc = "j_trunc"
  /\ LET n == Min2(vj.orig, Len(dbf)) IN dbf' = ResizeF(dbf, n) /\ vtab' = ResetT(vtab, n)
  /\ pc' = IF RollbackRmLast THEN "j_rm" ELSE AfterRollback
  /\ UNCHANGED <<dirx, dbx, jr, wal, ltx, shm, ctx, cur, todo, tset, rmq, vj, vpos, vknown, sel, acked>>
  /\ Tick("j_trunc")
JRm ==                                       \* OS Remove ROLLBACKJOURNAL
  /\ pc = "j_rm"
  /\ jr' = NoJr
  /\ pc' = IF RollbackRmLast \/ vj = NoJr THEN AfterRollback
           ELSE IF todo # <<>> THEN "j_page" ELSE IF vj.valid THEN "j_trunc" ELSE AfterRollback
  /\ UNCHANGED <<dirx, dbx, dbf, wal, ltx, shm, ctx, cur, todo, tset, rmq, vj, vpos, vtab, vknown, sel, acked>>
  /\ Tick("j_rm")

(* ====================== DB.CheckpointNoLock ====================== *)
COpen ==                                     \* OS OpenFile CHECKPOINT:DB
  /\ pc = "c_open"
  /\ pc' = IF ~dbx \/ (ctx = "open" /\ ~OpenCheckpoints) THEN AfterCkpt ELSE "c_openwal"
  /\ UNCHANGED <<dur, ctx, cur, todo, tset, rmq, vj, vpos, vtab, vknown, sel, acked>>
  /\ Tick("c_open")
COpenWal ==                                  \* OS Open CHECKPOINT:WAL; the frames are scanned
  /\ pc = "c_openwal"
  /\ IF ~wal.ex THEN pc' = AfterCkpt /\ UNCHANGED <<dirx, cur, tset>>
     ELSE IF wal.txs = <<>> THEN pc' = "c_wal" /\ UNCHANGED <<dirx, cur, tset>>
     ELSE /\ cur' = [NoLtx EXCEPT !.commit = wal.txs[Len(wal.txs)].commit, !.pages = WalLast(wal.txs)]
          /\ tset' = DOMAIN WalLast(wal.txs)
          /\ pc' = IF CkptWalLast THEN "c_page" ELSE "c_wal"
  /\ UNCHANGED <<dur, ctx, todo, rmq, vj, vpos, vtab, vknown, sel, acked>>
  /\ Tick("c_openwal")
CPage ==                                     \* H1 page write (internal), Go map order = any order
  /\ pc = "c_page"
  /\ \E p \in tset :
       /\ dbf' = WriteF(dbf, p, cur.pages[p]) /\ vtab' = WriteT(vtab, p, cur.pages[p])
       /\ tset' = tset \ {p}
       /\ pc' = IF tset' # {} THEN "c_page" ELSE "c_trunc"
       /\ UNCHANGED <<dirx, dbx, jr, wal, ltx, shm, ctx, cur, todo, rmq, vj, vpos, vknown, sel, acked>>
       /\ Tick("c_page:" \o ToString(p))
CTrunc ==                                    \* H1 truncate
  /\ pc = "c_trunc"
  /\ dbf' = ResizeF(dbf, cur.commit) /\ vtab' = ResetT(vtab, cur.commit)
  /\ pc' = IF CkptWalLast THEN "c_wal" ELSE "c_shm"
  /\ UNCHANGED <<dirx, dbx, jr, wal, ltx, shm, ctx, cur, todo, tset, rmq, vj, vpos, vknown, sel, acked>>
  /\ Tick("c_trunc")
CWal ==                                      \* OS Truncate TRUNCATEWAL
  /\ pc = "c_wal"
  /\ wal' = [wal EXCEPT !.salt = 0, !.txs = <<>>]
  /\ pc' = IF CkptWalLast \/ tset = {} THEN "c_shm" ELSE "c_page"
  /\ UNCHANGED <<dirx, dbx, dbf, jr, ltx, shm, ctx, cur, todo, tset, rmq, vj, vpos, vtab, vknown, sel, acked>>
  /\ Tick("c_wal")
CShm ==                                      \* OS OpenFile UPDATESHM
  /\ pc = "c_shm"
  /\ shm' = TRUE /\ pc' = AfterCkpt
  /\ UNCHANGED <<dirx, dbx, dbf, jr, wal, ltx, ctx, cur, todo, tset, rmq, vj, vpos, vtab, vknown, sel, acked>>
  /\ Tick("c_shm")

(* ====================== DB.Drop (primary) ====================== *)
DCreate ==                                   \* OS Create DROP:LTX
  /\ pc = "d_create"
  /\ pc' = IF DropRenameFirst THEN "d_rename" ELSE "d_rmdb"
  /\ UNCHANGED <<dur, ctx, cur, todo, tset, rmq, vj, vpos, vtab, vknown, sel, acked>>
  /\ Tick("d_create")
DRename ==                                   \* OS Rename DROP:LTX
  /\ pc = "d_rename" /\ ltx' = Rename(ltx, cur)
  /\ IF DropRenameFirst THEN pc' = "d_rmdb" /\ UNCHANGED <<vpos, acked>>
     ELSE pc' = "idle" /\ vpos' = PosOf(cur) /\ acked' = TRUE
  /\ UNCHANGED <<dirx, dbx, dbf, jr, wal, shm, ctx, cur, todo, tset, rmq, vj, vtab, vknown, sel>>
  /\ Tick("d_rename")
DRmDB ==
  /\ pc = "d_rmdb" /\ dbx' = FALSE /\ dbf' = <<>> /\ pc' = "d_rmj"
  /\ UNCHANGED <<dirx, jr, wal, ltx, shm, ctx, cur, todo, tset, rmq, vj, vpos, vtab, vknown, sel, acked>>
  /\ Tick("d_rmdb")
DRmJ ==
  /\ pc = "d_rmj" /\ jr' = NoJr /\ pc' = "d_rmwal"
  /\ UNCHANGED <<dirx, dbx, dbf, wal, ltx, shm, ctx, cur, todo, tset, rmq, vj, vpos, vtab, vknown, sel, acked>>
  /\ Tick("d_rmj")
DRmWal ==
  /\ pc = "d_rmwal" /\ wal' = NoWal /\ pc' = "d_rmshm"
  /\ UNCHANGED <<dirx, dbx, dbf, jr, ltx, shm, ctx, cur, todo, tset, rmq, vj, vpos, vtab, vknown, sel, acked>>
  /\ Tick("d_rmwal")
DRmShm ==                                    \* the last file-level step; the position is set and the call returns
  /\ pc = "d_rmshm" /\ shm' = FALSE
  /\ IF DropRenameFirst THEN pc' = "idle" /\ vpos' = PosOf(cur) /\ acked' = TRUE
     ELSE pc' = "d_rename" /\ UNCHANGED <<vpos, acked>>
  /\ UNCHANGED <<dirx, dbx, dbf, jr, wal, ltx, ctx, cur, todo, tset, rmq, vj, vtab, vknown, sel>>
  /\ Tick("d_rmshm")

(* ====================== SQLite commits (environment) + CommitJournal / CommitWAL ====================== *)
PJournal ==                                  \* journal created, originals recorded, header synced (valid)
  /\ pc = "p_journal"
  /\ jr' = [ex |-> TRUE, valid |-> TRUE, orig |-> scn.nb,
            recs |-> SortedPairs([p \in {q \in scn.M : q <= scn.nb} |-> dbf[p]])]
  /\ todo' = SortedPairs(cur.pages) /\ pc' = "p_page"
  /\ UNCHANGED <<dirx, dbx, dbf, wal, ltx, shm, ctx, cur, tset, rmq, vj, vpos, vtab, vknown, sel, acked>>
  /\ Tick("p_journal")
PPage ==                                     \* H1 page write (client)
  /\ pc = "p_page"
  /\ LET p == Head(todo)[1]  c == Head(todo)[2]
     IN /\ dbx' = TRUE /\ dbf' = WriteF(dbf, p, c) /\ vtab' = WriteT(vtab, p, c) /\ todo' = Tail(todo)
        /\ pc' = IF Len(todo) > 1 THEN "p_page" ELSE "p_ltx"
        /\ UNCHANGED <<dirx, jr, wal, ltx, shm, ctx, cur, tset, rmq, vj, vpos, vknown, sel, acked>>
        /\ Tick("p_page:" \o ToString(p))
PLtx ==                                      \* journal removal -> CommitJournal: OS Rename COMMITJOURNAL:LTX
  /\ pc = "p_ltx" /\ ltx' = Rename(ltx, cur) /\ pc' = "p_jrm"
  /\ UNCHANGED <<dirx, dbx, dbf, jr, wal, shm, ctx, cur, todo, tset, rmq, vj, vpos, vtab, vknown, sel, acked>>
  /\ Tick("p_ltx")
PJRm ==                                      \* OS Remove INVALIDATEJOURNAL:DELETE; the commit returns to SQLite
  /\ pc = "p_jrm" /\ vpos' = PosOf(cur) /\ acked' = TRUE
  /\ jr' = IF scn.rk = "DELETE" THEN NoJr ELSE [ex |-> TRUE, valid |-> FALSE, orig |-> 0, recs |-> <<>>]   \* TRUNCATE / PERSIST keep the file
  /\ pc' = IF cur.commit < Len(dbf) THEN "p_trunc" ELSE "idle"
  /\ UNCHANGED <<dirx, dbx, dbf, wal, ltx, shm, ctx, cur, todo, tset, rmq, vj, vtab, vknown, sel>>
  /\ Tick("p_jrm")
PTrunc ==                                    \* H1 truncate (client): SQLite cuts the file after the commit
  /\ pc = "p_trunc" /\ dbf' = ResizeF(dbf, cur.commit) /\ vtab' = ResetT(vtab, cur.commit) /\ pc' = "idle"
  /\ UNCHANGED <<dirx, dbx, jr, wal, ltx, shm, ctx, cur, todo, tset, rmq, vj, vpos, vknown, sel, acked>>
  /\ Tick("p_trunc")
WFrames ==                                   \* all frames of the transaction incl. the commit frame are in the WAL
  /\ pc = "w_frames"
  /\ wal' = [wal EXCEPT !.txs = Append(@, [pages |-> cur.pages, commit |-> cur.commit])] /\ pc' = "w_ltx"
  /\ UNCHANGED <<dirx, dbx, dbf, jr, ltx, shm, ctx, cur, todo, tset, rmq, vj, vpos, vtab, vknown, sel, acked>>
  /\ Tick("w_frames")
WLtxStep ==                                  \* release of the WAL write lock -> CommitWAL: OS Rename COMMITWAL:LTX
  /\ pc = "w_ltx" /\ ltx' = Rename(ltx, cur) /\ vpos' = PosOf(cur) /\ acked' = TRUE /\ pc' = "idle"
  /\ UNCHANGED <<dirx, dbx, dbf, jr, wal, shm, ctx, cur, todo, tset, rmq, vj, vtab, vknown, sel>>
  /\ Tick("w_ltx")

(* ====================== Store.CreateDBIfNotExists (first file of a database arrives) ====================== *)
NMkdir ==                                    \* OS MkdirAll CREATDEDBIFNOTEXISTS
  /\ pc = "n_mkdir" /\ dirx' = TRUE /\ pc' = "n_dbfile"
  /\ UNCHANGED <<dbx, dbf, jr, wal, ltx, shm, ctx, cur, todo, tset, rmq, vj, vpos, vtab, vknown, sel, acked>>
  /\ Tick("n_mkdir")
NDbFile ==                                   \* OS WriteFile CREATDEDBIFNOTEXISTS (empty database file), then DB.Open
  /\ pc = "n_dbfile" /\ dbx' = TRUE /\ dbf' = <<>> /\ pc' = "o_hdr"
  /\ UNCHANGED <<dirx, jr, wal, ltx, shm, ctx, cur, todo, tset, rmq, vj, vpos, vtab, vknown, sel, acked>>
  /\ Tick("n_dbfile")

(* ====================== DB.Open ====================== *)
ValidHdr == dbx /\ Len(dbf) >= 1 /\ dbf[1] # HOLE
OHdr ==                                      \* OS Open INITDBHDR (an invalid header wipes the database directory)
  /\ pc = "o_hdr"
  /\ IF dbx /\ Len(dbf) >= 1 /\ ~ValidHdr
     THEN /\ dbx' = FALSE /\ dbf' = <<>> /\ jr' = NoJr /\ wal' = NoWal /\ ltx' = {} /\ shm' = FALSE /\ vknown' = FALSE /\ dirx' = dirx
     ELSE /\ vknown' = ValidHdr /\ UNCHANGED dur
  /\ pc' = "o_rmshm"
  /\ UNCHANGED <<dirx, ctx, cur, todo, tset, rmq, vj, vpos, vtab, sel, acked>>
  /\ Tick("o_hdr")
ORmShm ==                                    \* OS Remove OPEN:SHM
  /\ pc = "o_rmshm" /\ shm' = FALSE /\ pc' = "o_max"
  /\ UNCHANGED <<dirx, dbx, dbf, jr, wal, ltx, ctx, cur, todo, tset, rmq, vj, vpos, vtab, vknown, sel, acked>>
  /\ Tick("o_rmshm")
OMax ==                                      \* OS ReadDir MAXLTX
  /\ pc = "o_max"
  /\ sel' = IF ltx = {} THEN NoLtx ELSE Newest(ltx)
  /\ pc' = IF ltx = {} THEN "j_open" ELSE "o_sync"
  /\ UNCHANGED <<dur, ctx, cur, todo, tset, rmq, vj, vpos, vtab, vknown, acked>>
  /\ Tick("o_max")
OSync ==                                     \* OS Open SYNCWAL:LTX (file verified)
  /\ pc = "o_sync" /\ pc' = "o_syncwal"
  /\ UNCHANGED <<dur, ctx, cur, todo, tset, rmq, vj, vpos, vtab, vknown, sel, acked>>
  /\ Tick("o_sync")
OSyncWal ==                                  \* OS OpenFile SYNCWAL:WAL; a WAL that continues past the file is cut (no OS-layer call)
  /\ pc = "o_syncwal"
  /\ IF ~wal.ex \/ wal.salt = 0 \/ ~OpenSyncsWal THEN pc' = "j_open" /\ wal' = wal
     ELSE IF wal.salt # sel.wsalt THEN pc' = "o_walmv" /\ wal' = wal
     ELSE IF Len(wal.txs) < sel.wend - 1 THEN pc' = "failed" /\ wal' = wal
     ELSE pc' = "j_open" /\ wal' = [wal EXCEPT !.txs = SubSeq(@, 1, Min2(Len(@), sel.wend))]
  /\ UNCHANGED <<dirx, dbx, dbf, jr, ltx, shm, ctx, cur, todo, tset, rmq, vj, vpos, vtab, vknown, sel, acked>>
  /\ Tick("o_syncwal")
OWalMv ==                                    \* OS Rename SYNCWAL (other salt: the WAL is moved away)
  /\ pc = "o_walmv" /\ wal' = NoWal /\ pc' = "j_open"
  /\ UNCHANGED <<dirx, dbx, dbf, jr, ltx, shm, ctx, cur, todo, tset, rmq, vj, vpos, vtab, vknown, sel, acked>>
  /\ Tick("o_walmv")
OInit ==                                     \* OS Open INITDBFILE: page count from the header, per-page table from the file
  /\ pc = "o_init"
  /\ IF dbx /\ Len(dbf) >= 1 /\ ~ValidHdr THEN pc' = "failed" /\ UNCHANGED <<dirx, vtab, vknown, cur, vpos>>
     ELSE /\ IF ValidHdr
             THEN LET hn == IF dbf[1].sz = 0 THEN Len(dbf) ELSE dbf[1].sz
                      n == Min2(hn, Len(dbf))
                  IN vtab' = [p \in 1..n |-> dbf[p]] /\ vknown' = TRUE
             ELSE vtab' = <<>> /\ vknown' = vknown
          /\ IF sel # NoLtx /\ OpenReapplies THEN pc' = "a_open" /\ cur' = sel /\ vpos' = vpos
             ELSE /\ pc' = (IF ctx = "create" THEN "s_create" ELSE "idle") /\ cur' = cur
                  /\ vpos' = IF sel = NoLtx THEN Pos0 ELSE PosOf(sel)
  /\ ctx' = IF ctx = "create" /\ pc' = "s_create" THEN "stream" ELSE ctx
  /\ UNCHANGED <<dur, todo, tset, rmq, vj, sel, acked>>
  /\ Tick("o_init")

(* ====================== process death ====================== *)
Crash ==
  /\ crashes < MaxCrash /\ pc # "failed"
  /\ ~(pc = "idle" /\ crashes > 0 /\ k > 0)   \* a recovered node is a new story (but a restart that found nothing to open may die again)
  /\ pc' = (IF dirx THEN "o_hdr" ELSE "idle") /\ ctx' = "open" /\ cur' = NoLtx /\ todo' = <<>> /\ tset' = {} /\ rmq' = <<>> /\ vj' = NoJr
  /\ vpos' = Pos0 /\ vtab' = <<>> /\ vknown' = FALSE /\ sel' = NoLtx
  \* the checkpoint copies pages in any order: which ones were done is part of the crash point (the
  \* recovered states of two orders coincide, and every crash point must be emitted)
  /\ crashes' = crashes + 1 /\ k' = 0 /\ hist' = Append(hist, "CRASH")
  /\ ks' = Append(ks, [k |-> k, done |-> IF pc = "c_page" THEN (DOMAIN cur.pages) \ tset ELSE {}])
  /\ ltx0' = ltx
  /\ UNCHANGED <<dur, scn, bef, aft, acked>>

Next == \/ SCreate \/ SRename \/ SRemove
        \/ AOpen \/ AOpenDB \/ APage \/ ATrunc \/ ARmDB \/ ARmJ \/ ARmWal \/ ARmShm \/ ACheck
        \/ JOpen \/ JOpenDB \/ JPage \/ JTrunc \/ JRm
        \/ COpen \/ COpenWal \/ CPage \/ CTrunc \/ CWal \/ CShm
        \/ DCreate \/ DRename \/ DRmDB \/ DRmJ \/ DRmWal \/ DRmShm
        \/ PJournal \/ PPage \/ PLtx \/ PJRm \/ PTrunc \/ WFrames \/ WLtxStep
        \/ NMkdir \/ NDbFile \/ OHdr \/ ORmShm \/ OMax \/ OSync \/ OSyncWal \/ OWalMv \/ OInit
        \/ Crash
Spec == Init /\ [][Next]_vars

(* ====================== the property on the model ====================== *)
Recovered == pc = "idle" /\ crashes > 0
DiskImg == IF dbx THEN dbf ELSE <<>>
WalLeft == wal.ex /\ wal.txs # <<>>
\* restarting succeeds (and a live replica never stops itself)
C05_RestartSucceeds == pc # "failed"
\* the position is the one named by a newest transaction file on disk
C05_PosOfNewestLTX == Recovered => IF ltx0 = {} THEN vpos = Pos0
                                   ELSE \E f \in ltx0 : f.max = MaxTx(ltx0) /\ vpos = PosOf(f)
\* which is the position before or the one after the interrupted operation
C05_BeforeOrAfter == Recovered => vpos \in {bef, aft}
\* image, size and checksum are those of that position, never a mixture
C05_ImageOfPos == Recovered => /\ DiskImg = vpos.img
                               /\ (dbx => \A p \in 1..Len(dbf) : p <= Len(vtab) /\ vtab[p] = dbf[p])
\* nothing is left for SQLite to replay
C05_NothingToReplay == Recovered => ~(jr.ex /\ jr.valid) /\ ~WalLeft
\* what had returned success is not lost
C05_AckKept == (Recovered /\ acked) => vpos = aft
\* the model itself: an operation that is not interrupted ends at the after-position with the after-image
OpCompletes == (pc = "idle" /\ crashes = 0) => /\ vpos = aft
                                               /\ (scn.op \notin {"ckpt", "hotw", "pdrop"} => DiskImg = aft.img)

Outcome == IF vpos = aft THEN "after" ELSE IF vpos = bef THEN "before" ELSE "other"
\* emission for the harness: one line per scenario (the uninterrupted step sequence) and one line per
\* recovered state (the steps up to the last crash, the predicted outcome class)
LastCrash == MaxOf({i \in 1..Len(hist) : hist[i] = "CRASH"})
EmitInv ==
  /\ (Emit /\ pc = "idle" /\ crashes = 0) => PrintT("SCN " \o ToJson([s |-> scn, h |-> hist]))
  /\ (Emit /\ Recovered) => PrintT("TRACE " \o ToJson([s |-> scn, h |-> SubSeq(hist, 1, LastCrash), o |-> Outcome,
                                                        t |-> vpos.t, n |-> Len(vpos.img)]))
====
