---- MODULE RWMutexCancel ----
(***************************************************************************)
(* Blocking acquires of one LiteFS advisory lock with a cancellable        *)
(* context (rwmutex.go RWMutexGuard.Lock(ctx) / RLock(ctx)), on top of the *)
(* lock table of RWMutex.tla.                                              *)
(*                                                                         *)
(* A blocking call is a little process of its owner:                       *)
(*                                                                         *)
(*   idle --Call--> polling --Poll (the Try call succeeded)--> acquired    *)
(*                    |  ^                                        |        *)
(*                    |  +-- Poll (the Try call failed)           |        *)
(*                    +--RetErr (context ended)--> idle  <--RetNil+        *)
(*                                                                         *)
(* Poll is one critical section of rw.mu (the Try call of the retry loop,  *)
(* including the OnLockStateChange callback LiteFS runs inside it); all    *)
(* other owners take steps of RWMutex.tla in between.  Cancel(o) ends the  *)
(* context of o's call and is an action of the ENVIRONMENT: it is enabled  *)
(* at every point of the call, in particular in `acquired`, i.e. between   *)
(* the successful Try call and the return of Lock/RLock.                   *)
(*                                                                         *)
(* C12: a blocking acquire has exactly two outcomes - it returns nil and   *)
(* the owner holds the lock in the requested mode, or it returns the       *)
(* context's error and the lock table is what it is without the call ("a   *)
(* failed attempt changes nothing").  Impl selects what the code does when *)
(* it finds the context ended after a successful Try call:                 *)
(*   "ascoded"  rwmutex.go: the context is not looked at again, nil        *)
(*   "release"  puts the guard back into its state at the call, then error *)
(*   "keep"     returns the error and keeps the lock (relevance: TLC must  *)
(*              refute FailedAcquireHoldsNothing and NoPhantomHolder)      *)
(* Every return prints one OUTCOME line; the set of OUTCOME lines of the   *)
(* legal implementations is the oracle of the harness stage that cancels   *)
(* real blocking calls at these points.                                    *)
(***************************************************************************)
EXTENDS RWMutex

CONSTANTS Waiters,      \* owners that issue blocking calls (the others only take RWMutex.tla steps)
          Impl,         \* "ascoded" | "release" | "keep"
          EmitOutcomes  \* TRUE: print one OUTCOME line per return of a blocking call

VARIABLES pc,    \* per owner: "idle" | "polling" | "acquired"
          kind,  \* per owner: "Lock" | "RLock" (the call in flight or the last call)
          ctx,   \* per owner: "live" | "done"  (context of the call in flight / of the last call)
          g0,    \* per owner: guard state when the call was made
          ret    \* per owner: "none" | "nil" | "err"  result of the last blocking call, "none" once the owner moves on

cvars == <<vars, pc, kind, ctx, g0, ret>>
cview == <<sharedN, excl, g, pc, kind, ctx, g0, ret>>

Want(k) == IF k = "Lock" THEN "exclusive" ELSE "shared"

CInit == /\ Init
         /\ pc = [o \in Owners |-> "idle"]
         /\ kind = [o \in Owners |-> "Lock"]
         /\ ctx = [o \in Owners |-> "live"]
         /\ g0 = [o \in Owners |-> "unlocked"]
         /\ ret = [o \in Owners |-> "none"]

\* an owner that is not inside a blocking call takes a step of RWMutex.tla (one goroutine per guard)
Other(o) == /\ pc[o] = "idle"
            /\ Step(o)
            /\ ret' = [ret EXCEPT ![o] = "none"]
            /\ UNCHANGED <<pc, kind, ctx, g0>>

Call(o, k) == /\ o \in Waiters /\ pc[o] = "idle"
              /\ pc' = [pc EXCEPT ![o] = "polling"]
              /\ kind' = [kind EXCEPT ![o] = k]
              /\ ctx' = [ctx EXCEPT ![o] = "live"]
              /\ g0' = [g0 EXCEPT ![o] = g[o]]
              /\ ret' = [ret EXCEPT ![o] = "none"]
              /\ UNCHANGED vars

\* the Try call of the fast path or of one round of the retry loop
Poll(o) == /\ pc[o] = "polling"
           /\ IF kind[o] = "Lock" THEN TryLock(o) ELSE TryRLock(o)
           /\ pc' = [pc EXCEPT ![o] = IF last'.res THEN "acquired" ELSE "polling"]
           /\ UNCHANGED <<kind, ctx, g0, ret>>

\* the environment ends the context: at any point of the call
Cancel(o) == /\ pc[o] # "idle" /\ ctx[o] = "live"
             /\ ctx' = [ctx EXCEPT ![o] = "done"]
             /\ UNCHANGED <<vars, pc, kind, g0, ret>>

Outcome(o, r) == [kind |-> kind[o], g0 |-> g0[o], ret |-> r, g |-> g'[o], cancelled |-> ctx[o] = "done", at |-> pc[o]]

Return(o, r) == /\ pc' = [pc EXCEPT ![o] = "idle"]
                /\ ret' = [ret EXCEPT ![o] = r]
                /\ UNCHANGED <<kind, ctx, g0>>
                /\ (EmitOutcomes => PrintT("OUTCOME " \o ToJson(Outcome(o, r))))

\* select chose ctx.Done(): nothing is held that was not held at the call
RetErr(o) == /\ pc[o] = "polling" /\ ctx[o] = "done"
             /\ UNCHANGED vars
             /\ Return(o, "err")

\* the Try call succeeded
RetNil(o) == /\ pc[o] = "acquired"
             /\ (Impl = "ascoded" \/ ctx[o] = "live")
             /\ UNCHANGED vars
             /\ Return(o, "nil")

\* "release": the context ended after the successful Try call; undo it (one critical section), then error
Undo(o) == CASE g0[o] = "unlocked" -> Unlock(o)
             [] g0[o] = "shared"   -> TryRLock(o)      \* the call was an upgrade (or a no-op): downgrade again
RetRelease(o) == /\ Impl = "release"
                 /\ pc[o] = "acquired" /\ ctx[o] = "done"
                 /\ g0[o] # "exclusive"                \* a downgrade cannot be undone (others may hold shared by now): nil
                 /\ Undo(o)
                 /\ Return(o, "err")
RetNilWasExclusive(o) == /\ Impl = "release"
                       /\ pc[o] = "acquired" /\ ctx[o] = "done" /\ g0[o] = "exclusive"
                       /\ UNCHANGED vars
                       /\ Return(o, "nil")

\* "keep": the defective variant - the error is returned and the lock obtained by the Try call is kept
RetKeep(o) == /\ Impl = "keep"
              /\ pc[o] = "acquired" /\ ctx[o] = "done"
              /\ UNCHANGED vars
              /\ Return(o, "err")

CNext == \E o \in Owners :
           \/ Other(o)
           \/ \E k \in {"Lock", "RLock"} : Call(o, k)
           \/ Poll(o) \/ Cancel(o)
           \/ RetErr(o) \/ RetNil(o) \/ RetRelease(o) \/ RetNilWasExclusive(o) \/ RetKeep(o)

CSpec == CInit /\ [][CNext]_cvars

(* ---------------------------- properties (C12) ---------------------------- *)

CTypeOK == /\ TypeOK
           /\ pc \in [Owners -> {"idle", "polling", "acquired"}]
           /\ kind \in [Owners -> {"Lock", "RLock"}]
           /\ ctx \in [Owners -> {"live", "done"}]
           /\ g0 \in [Owners -> States]
           /\ ret \in [Owners -> {"none", "nil", "err"}]

\* the two outcomes, as long as the owner has not moved on
SucceededAcquireHolds     == \A o \in Owners : ret[o] = "nil" => g[o] = Want(kind[o])
FailedAcquireHoldsNothing == \A o \in Owners : ret[o] = "err" => g[o] = g0[o]

\* what an owner knows it holds: after an error it holds what it held before the call
Believes(o) == IF ret[o] = "err" THEN g0[o] ELSE g[o]

\* no phantom holder: if, by what every OTHER owner knows, nobody else holds the lock, an exclusive
\* acquire succeeds (a guard whose blocking call failed does not stand in anybody's way)
NoPhantomHolder ==
  \A p \in Owners : pc[p] = "idle" =>
     ((\A q \in Owners \ {p} : pc[q] = "idle" /\ Believes(q) = "unlocked") => CanLockV(p))

\* the return of an error is not itself a change of the table, and an error is only ever returned for an ended context
ErrorReturnChangesNothing ==
  [][ \A o \in Owners : (ret[o] # "err" /\ ret'[o] = "err") =>
        /\ ctx[o] = "done"
        /\ g'[o] = g0[o]
        /\ \A p \in Owners \ {o} : g'[p] = g[p]
    ]_cvars

\* nil is only returned in a state in which POSIX allows the requested mode
NilOnlyWhenAllowed ==
  [][ \A o \in Owners : (ret[o] # "nil" /\ ret'[o] = "nil") => PosixAllows(o, Want(kind[o])) ]_cvars
====
