\* candidate repair (put with cas=0): every invariant including ClusterIDSetOnce holds
SPECIFICATION Spec
CONSTANTS
  Nodes = {"n1","n2"}
  MaxSess = 2
  Ops = {"acquire","acqx","renew","close","info","cid","setcid","handoff"}
  Faults = {"err","lost","stale"}
  EnvActs = {"expire","delay","xacq","xcid","xhand"}
  UseCAS = TRUE
  Mut = "none"
  Emit = "none"
VIEW view
INVARIANTS TypeOK OneLiveHolder LeaseHoldsKey LeaseOnlyWithKey ExpiredIsReported CloseDestroys HandoffExact ClusterIDSetOnce
CHECK_DEADLOCK FALSE
