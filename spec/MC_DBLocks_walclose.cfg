\* DBLocks.tla: exhaustive, WAL mode, 2 clients that also take the database-file locks (SHARED .. EXCLUSIVE: exclusive locking mode, PRAGMA journal_mode=DELETE) and close their -shm / database descriptors (ShmFlush = CloseSHM, DbFlush) in every protocol state, SHM vocabulary reduced to DMS and WRITE, 1 internal writer, every interleaving
SPECIFICATION Spec
CONSTANTS
  Clients = {"a", "b"}
  Internals = {"i"}
  Mode = "wal"
  ReadMarks = {}
  DbOpsInWal = TRUE
  WithSnapshot = FALSE
  CkptGate = TRUE
  SkipLock = "none"
  TxNoLock = FALSE
  WalGuard = TRUE
  WalOwnerTest = FALSE
  FlushAll = FALSE
  Exclude = {"DmsW", "CkptW", "CkptU", "RecovRangeW", "RecovRangeU", "RecovW", "RecovU", "RestartW", "RestartU", "WalWrite"}
  Gated = FALSE
  EmitEdges = FALSE
VIEW view
INVARIANTS TypeOK NothingLost LockConsistent WriteSetHeld Exclusion NoBegin SnapshotExcluded EmitInv
PROPERTIES RefusedWhileWriting EnterOnlyWhenFree WritesInsideSection CkptNeverGrantedUnderForeignWrite WalWriteNeedsWriteLock SingleLockPosix
CHECK_DEADLOCK FALSE
