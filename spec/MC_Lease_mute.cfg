\* handoff whose target does not take the lease id within 5 s (thorough)
SPECIFICATION Spec
CONSTANTS
  Candidate = TRUE
  LocalInit = "A"
  TTL = 300
  MaxCalls = 8
  MaxStim = 1
  Stim = {"ho1"}
  StimAnywhere = FALSE
  Focus = "renew"
  Mute = "always"
  CheckAfterAcquire = FALSE
  Mut = "none"
  Emit = "edge"
VIEW view
INVARIANTS TypeOK PrimaryOnlyInTenure CtxFollowsLease StopsAfterLeaseLost ClosedUnlessHandedOff NonCandidateNeverAcquires OwnClusterAcquire OwnClusterStream HandoffOnlyToRequested
CHECK_DEADLOCK FALSE
