\* relevance: Renew treats a missing session as renewed. EXPECTED violation: ExpiredIsReported
SPECIFICATION Spec
CONSTANTS
  Nodes = {"n1"}
  MaxSess = 2
  Ops = {"acquire","acqx","renew","close","info","cid","setcid"}
  Faults = {"err","lost","stale"}
  EnvActs = {"expire","delay","xacq","xcid","xhand"}
  UseCAS = FALSE
  Mut = "renewIgnores404"
  Emit = "none"
VIEW view
INVARIANTS ExpiredIsReported
CHECK_DEADLOCK FALSE
