SPECIFICATION Spec
CONSTANTS
  Part = "wal"
  Emit = TRUE
  Plans <- OnePlan
  Mutate = FALSE
  Rule = "sqlite"
  WN0 = 2
  WPages = {1, 2, 3}
  WCommits = {0, 2, 3}
  WHdrs <- WHdrsAll
  MaxFrames = 4
  MaxBad = 1
  Scan = "sqlite"
INVARIANTS ScanIsCommitted PrefixIsLongest OnlyCommittedFramesCount WEmit
CHECK_DEADLOCK FALSE
