SPECIFICATION Spec
CONSTANTS
  UndoOnFailure = TRUE
  CleanupOnFailure = TRUE
  ReportFailure = FALSE
  Emit = FALSE
INVARIANTS Clean EmitCase
CHECK_DEADLOCK FALSE
