SPECIFICATION Spec
CONSTANTS
  Modes = {"rb", "wal"}
  GuardWALTrunc = TRUE
  Emit = TRUE
VIEW view
PROPERTIES NoChangeWithoutAuthority WritesAreEACCES
CHECK_DEADLOCK FALSE
