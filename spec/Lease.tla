---- MODULE Lease ----
(***************************************************************************)
(* One node's election loop (store.go: monitorLease, acquireLeaseOrPrimary- *)
(* Info, monitorLeaseAsPrimary, processHandoff, monitorLeaseAsReplica)      *)
(* against a lease service and a primary whose ANSWERS ARE NONDETERMINISTIC.*)
(* A behaviour is a script: the sequence of answers (plus the requests the  *)
(* environment makes while a call is in flight: manual demotion, handoff).  *)
(*                                                                          *)
(* One action per call the loop makes on litefs.Leaser / litefs.Lease /     *)
(* litefs.Client ("scripted calls": they consume one script entry), one     *)
(* for lease.Close() (visible, not scripted: it has no interesting answer), *)
(* and one per internal step between calls that changes what an observer    *)
(* inside the next call can see (setLease(lease), setLease(nil), select     *)
(* branches, the fixed sleeps).                                             *)
(*                                                                          *)
(* Time: an explicit clock `now` in ms, relative to the moment the current  *)
(* lease was obtained.  Only the loop's own timers advance it (TTL/2 wait,  *)
(* 1 s retry, 1 s sleep before giving up, 5 s handoff delivery limit);      *)
(* calls take no time.  The trace specification passes the measured time    *)
(* of a renewal instead (parameter e of RenewTick).                         *)
(*                                                                          *)
(* Cluster ids: "" unset, "A" the id in <datadir>/clusterid (if any) or the *)
(* id of the cluster the node is meant to join, "B" a foreign id, "G" the   *)
(* id the node generated itself (only exists after it did).                 *)
(***************************************************************************)
EXTENDS Integers, Sequences, FiniteSets, TLC, Json

CONSTANTS
  Candidate,          \* BOOLEAN  store.candidate
  LocalInit,          \* "" | "A" stored cluster id when the store opens
  TTL,                \* lease TTL in ms (300: first error gives up; 2600: one 1 s retry fits)
  MaxCalls,           \* script length (scripted calls answered)
  MaxStim,            \* at most this many environment requests per script
  Stim,               \* subset of {"demote", "ho1", "ho1x", "ho9"}
  StimAnywhere,       \* FALSE: requests only while the lease is set (elsewhere they are refused / have no effect)
  Focus,              \* "all" | "renew" (answers before the tenure restricted to the direct path)
  Mute,               \* does the handoff target's stream handler take the lease id within 5 s: "never" fails to | "always" fails to | "either"
  CheckAfterAcquire,  \* FALSE = code as written; TRUE = candidate repair (compare ids again once the lease is held)
  Mut,                \* "none", or a guard dropped on purpose (relevance configurations)
  Emit                \* "none" | "state": one TRACE line per distinct state (after VIEW) | "edge": one per explored edge

Timeout     == 1000   \* const timeout in monitorLeaseAsPrimary
Retry       == 1000   \* waitDur = time.Second after a failed renewal
HandoffWait == 5000   \* processHandoff delivery limit
Half        == TTL \div 2

VARIABLES s,     \* the whole state as one record (see Init)
          hist   \* the script so far + predicted observables (history, hidden by VIEW)
vars == <<s, hist>>
view == s

Init0 == [pc |-> "loop", calls |-> 0, nstim |-> 0,
          local |-> LocalInit, generated |-> FALSE,
          prim |-> FALSE,        \* Store.lease # nil          (IsPrimary)
          done |-> TRUE,         \* Store.primaryCh is closed  (PrimaryCtx(ctx).Err() # nil)
          pinfo |-> FALSE,       \* Store.primaryInfo # nil
          hoID |-> FALSE,        \* handoffLeaseID # ""
          lease |-> "none",      \* most recently obtained lease object: none | held | closed | handed
          via |-> "none",        \* acq | acqx
          nlease |-> 0,
          closeOnExit |-> TRUE, demoted |-> FALSE,
          demoteReq |-> FALSE,   \* the demoteCh captured by this tenure has been closed
          hoReq |-> "none",      \* node id waiting in lease.HandoffCh() (capacity 1): none | N1
          n1conn |-> FALSE,      \* peer N1 is subscribed to this node's stream (streams exist only during a tenure)
          hoCur |-> "none",      \* node id processHandoff is working on
          finalRenew |-> FALSE,  \* processHandoff's Renew succeeded for the request in progress
          frames |-> {},         \* peers whose stream was given the lease id
          now |-> 0, renewedAt |-> 0, wait |-> 0,
          failSince |-> -1,      \* time of the first renewal of the current run of renewals that did not succeed
          gone |-> FALSE,        \* a renewal of this lease reported ErrLeaseExpired
          loopCID |-> "",        \* last id Leaser.ClusterID returned at the top of the loop
          svcCID |-> "",         \* cluster id of the lease service as last reported (or set) -- "whose cluster is it"
          streamCID |-> "", streamEnd |-> "eof",
          acquires |-> 0,
          flags |-> {}]          \* property-level events that must never happen

Init == s = Init0 /\ hist = <<>>

Obs == [prim |-> s.prim, done |-> s.done, pinfo |-> s.pinfo, local |-> s.local]

(* ------------------------- environment requests ------------------------- *)
StimSet == IF s.nstim < MaxStim /\ (StimAnywhere \/ s.prim) THEN Stim \cup {"none"} ELSE {"none"}

\* Store.Handoff refuses unless the node is primary and the target is connected; the lease's
\* handoff channel holds one request.  Store.Demote always "succeeds" but only a tenure that
\* captured the channel before it was closed notices.
StimRes(st) == CASE st = "none" -> "none"
                 [] st = "demote" -> "ok"
                 [] st \in {"ho1", "ho1x"} -> IF s.prim /\ s.hoReq = "none" THEN "ok" ELSE "refused"
                 [] st = "ho9" -> "refused"

\* a scripted call c answered a, during which the environment did st; t = node state after the call returned
Call(c, a, st, t) ==
  /\ s.calls < MaxCalls
  /\ st \in StimSet
  /\ s' = [t EXCEPT !.calls = s.calls + 1,
                    !.nstim = IF st = "none" THEN s.nstim ELSE s.nstim + 1,
                    !.demoteReq = t.demoteReq \/ (st = "demote" /\ s.prim),
                    !.hoReq = IF StimRes(st) = "ok" /\ st \in {"ho1", "ho1x"} THEN "N1" ELSE t.hoReq,
                    \* the requester first makes sure N1 is connected (possible only during a tenure);
                    \* "ho1x": N1 disconnects once its request has been accepted
                    !.n1conn = IF st \in {"ho1", "ho1x"}
                               THEN (IF st = "ho1x" /\ StimRes(st) = "ok" THEN FALSE ELSE t.n1conn \/ s.prim)
                               ELSE t.n1conn]
  /\ hist' = Append(hist, [k |-> "call", c |-> c, a |-> a, s |-> st, sr |-> StimRes(st), o |-> Obs])

Internal(t) == s' = t /\ UNCHANGED hist

(* ------------------------------ answer sets ----------------------------- *)
IDs      == {"", "A", "B"} \cup (IF s.generated THEN {"G"} ELSE {})
CIDAns   == IF Focus = "renew" THEN {""} ELSE IDs \cup {"err"}
InfoAns  == IF Focus = "renew" THEN {"none"} ELSE {"info", "none", "err"}
AcqAns   == IF Focus = "renew" THEN {"ok"} ELSE {"ok", "exists", "err"}
AcqXAns  == {"ok", "err"}
SetAns   == IF Focus = "renew" THEN {"ok"} ELSE {"ok", "err"}
\* a lease service does not resurrect a lease it reported gone
RenewAns == IF s.gone THEN {"expired", "err"} ELSE {"ok", "expired", "err"}
StreamAns == {<<"err", "", "err">>} \cup
             {<<c \o "/" \o e, c, e>> : c \in IDs, e \in {"eof", "ho"}}

(* ------------------------------ the loop -------------------------------- *)
\* store.go:775 Leaser.ClusterID at the top of the loop
LoopCID(a, st) ==
  /\ s.pc = "loop" /\ a \in CIDAns
  /\ LET u == [s EXCEPT !.loopCID = a, !.svcCID = a] IN
     Call("CID", a, st,
          IF a = "err" THEN s
          ELSE IF a # "" /\ s.local # "" /\ a # s.local /\ Mut # "noLoopCheck" THEN u
          ELSE IF a # "" /\ s.local = "" THEN [u EXCEPT !.pc = "info_only"]
          ELSE IF s.hoID THEN [u EXCEPT !.pc = "acqx", !.hoID = FALSE]
          ELSE [u EXCEPT !.pc = "info1"])

ToStream(t) == [t EXCEPT !.pc = "stream", !.pinfo = TRUE]     \* setPrimaryInfo(&info) precedes Client.Stream

\* store.go:788 the node has no cluster id but the service has one: it may only follow
InfoOnly(a, st) ==
  /\ s.pc = "info_only" /\ a \in InfoAns
  /\ Call("INFO", a, st, IF a = "info" THEN ToStream(s) ELSE [s EXCEPT !.pc = "loop"])

\* store.go:810 AcquireExisting with the lease id from a handoff frame (tried once)
AcqX(a, st) ==
  /\ s.pc = "acqx" /\ a \in AcqXAns
  /\ Call("ACQX", a, st,
          IF a = "ok" THEN [s EXCEPT !.pc = "tenure_cid", !.lease = "held", !.via = "acqx", !.nlease = @ + 1,
                                     !.now = 0, !.renewedAt = 0, !.gone = FALSE, !.failSince = -1]
          ELSE [s EXCEPT !.pc = "loop"])

\* store.go:863 first PrimaryInfo
Info1(a, st) ==
  /\ s.pc = "info1" /\ a \in InfoAns
  /\ Call("INFO", a, st,
          IF a = "info" THEN ToStream(s)
          ELSE IF a = "none" /\ (Candidate \/ Mut = "noCandidateGuard") THEN [s EXCEPT !.pc = "acquire"]
          ELSE [s EXCEPT !.pc = "loop"])

\* store.go:873 Acquire
Acquire(a, st) ==
  /\ s.pc = "acquire" /\ a \in AcqAns
  /\ LET f == (IF ~Candidate THEN {"acquire-by-noncandidate"} ELSE {}) \cup
              (IF s.loopCID # "" /\ s.loopCID # s.local THEN {"acquire-for-foreign-cluster"} ELSE {})
         u == [s EXCEPT !.acquires = @ + 1, !.flags = @ \cup f] IN
     Call("ACQ", a, st,
          IF a = "ok" THEN [u EXCEPT !.pc = "tenure_cid", !.lease = "held", !.via = "acq", !.nlease = @ + 1,
                                     !.now = 0, !.renewedAt = 0, !.gone = FALSE, !.failSince = -1]
          ELSE IF a = "exists" THEN [u EXCEPT !.pc = "info2"]
          ELSE [u EXCEPT !.pc = "loop"])

\* store.go:883 PrimaryInfo again after losing the race
Info2(a, st) ==
  /\ s.pc = "info2" /\ a \in InfoAns
  /\ Call("INFO", a, st, IF a = "info" THEN ToStream(s) ELSE [s EXCEPT !.pc = "loop"])

(* ------------------------ monitorLeaseAsPrimary ------------------------- *)
\* store.go:916 second ClusterID; only the first defer (Close) is registered on these early returns
TenureCID(a, st) ==
  /\ s.pc = "tenure_cid" /\ a \in CIDAns
  /\ Call("CID", a, st,
          IF a = "err" THEN [s EXCEPT !.pc = "exit_close"]
          ELSE IF CheckAfterAcquire /\ a # "" /\ a # s.local THEN [s EXCEPT !.pc = "exit_close", !.svcCID = a]
          ELSE IF a = "" THEN [s EXCEPT !.pc = "setcid", !.svcCID = a]
          ELSE [s EXCEPT !.pc = "set_lease", !.svcCID = a])

\* store.go:926 SetClusterID(own or generated id), then the local file
SetCID(a, st) ==
  /\ s.pc = "setcid" /\ a \in SetAns
  /\ LET id == IF s.local = "" THEN "G" ELSE s.local IN
     Call("SETCID", a, st,
          IF a = "err" THEN [s EXCEPT !.pc = "exit_close"]
          ELSE [s EXCEPT !.pc = "set_lease", !.local = id, !.generated = @ \/ (id = "G"), !.svcCID = id])

\* store.go:939 setLease(lease): new primaryCh, demoteCh captured
SetLease ==
  /\ s.pc = "set_lease"
  /\ Internal([s EXCEPT !.pc = "primary", !.prim = TRUE, !.done = FALSE, !.closeOnExit = TRUE, !.demoted = FALSE,
                        !.demoteReq = FALSE, !.hoReq = "none", !.hoCur = "none", !.finalRenew = FALSE, !.wait = Half])

NoteFail(t, e) == [t EXCEPT !.failSince = IF s.failSince = -1 THEN e ELSE s.failSince]

\* store.go:973 timer fired at time e: lease.Renew.  A pending request always wins against the
\* timer because requests arrive while a call is in flight and the timer is re-armed afterwards.
RenewTick(a, st, e) ==
  /\ s.pc = "primary" /\ ~s.demoteReq /\ s.hoReq = "none" /\ a \in RenewAns
  /\ LET u == [s EXCEPT !.now = e] IN
     Call("RENEW", a, st,
          IF a = "ok" THEN [u EXCEPT !.renewedAt = e, !.wait = Half, !.failSince = -1]
          ELSE IF a = "expired"
               THEN IF Mut = "continueAfterExpired" THEN NoteFail([u EXCEPT !.gone = TRUE, !.wait = Retry], e)
                    ELSE NoteFail([u EXCEPT !.gone = TRUE, !.pc = "exit_clear"], e)
          ELSE IF (e - s.renewedAt) + Timeout > TTL THEN NoteFail([u EXCEPT !.pc = "giveup"], e)
          ELSE NoteFail([u EXCEPT !.wait = Retry], e))

\* store.go:984 time.Sleep(timeout) -- still primary -- then return ErrLeaseExpired
GiveUp == s.pc = "giveup" /\ Internal([s EXCEPT !.now = @ + Timeout, !.pc = "exit_clear"])

\* store.go:997 <-demoteCh
DemoteExit == s.pc = "primary" /\ s.demoteReq /\ Internal([s EXCEPT !.demoted = TRUE, !.pc = "exit_clear"])

\* store.go:1002 nodeID := <-lease.HandoffCh(); processHandoff: is the subscriber still connected?
HandoffRecv ==
  /\ s.pc = "primary" /\ s.hoReq # "none"
  /\ Internal(IF ~s.n1conn THEN [s EXCEPT !.hoReq = "none"]
              ELSE IF Mut = "handoffWithoutRenew" THEN [s EXCEPT !.pc = "ho_send", !.hoCur = s.hoReq, !.hoReq = "none", !.finalRenew = FALSE]
              ELSE [s EXCEPT !.pc = "ho_renew", !.hoCur = s.hoReq, !.hoReq = "none", !.finalRenew = FALSE])

\* store.go:1351 the final Renew (at time e); on failure the tenure simply continues (with the old waitDur)
HoRenew(a, st, e) ==
  /\ s.pc = "ho_renew" /\ a \in RenewAns
  /\ LET u == [s EXCEPT !.now = e] IN
     Call("RENEW", a, st,
          IF a = "ok" THEN [u EXCEPT !.renewedAt = e, !.failSince = -1, !.finalRenew = TRUE, !.pc = "ho_send"]
          ELSE IF a = "expired" THEN NoteFail([u EXCEPT !.gone = TRUE, !.hoCur = "none", !.pc = "primary"], e)
          ELSE NoteFail([u EXCEPT !.hoCur = "none", !.pc = "primary"], e))

\* store.go:1358 sub.HandoffCh() <- lease.ID() within 5 s (nobody takes it if the target's stream
\* handler is stuck, or has gone since processHandoff looked the subscriber up)
HoSend(delivered) ==
  /\ s.pc = "ho_send"
  /\ (delivered => (s.n1conn /\ Mute # "always")) /\ (~delivered => (~s.n1conn \/ Mute # "never"))
  /\ Internal(IF delivered
              THEN [s EXCEPT !.frames = @ \cup {s.hoCur}, !.hoCur = "none", !.closeOnExit = FALSE, !.pc = "exit_clear",
                             !.flags = @ \cup (IF s.finalRenew THEN {} ELSE {"frame-without-final-renew"})]
              ELSE [s EXCEPT !.now = @ + HandoffWait, !.hoCur = "none", !.pc = "primary"])

\* store.go:959 deferred setLease(nil) (runs before the deferred Close)
ClearLease ==
  /\ s.pc = "exit_clear"
  /\ LET u == IF Mut = "noClearLease" THEN s ELSE [s EXCEPT !.prim = FALSE, !.done = TRUE, !.n1conn = FALSE] IN
     Internal(IF s.closeOnExit \/ Mut = "closeAfterHandoff" THEN [u EXCEPT !.pc = "exit_close"]
              ELSE IF Mut = "neverClose" THEN [u EXCEPT !.pc = "loop"]
              ELSE [u EXCEPT !.pc = "loop", !.lease = "handed"])

\* store.go:901 deferred lease.Close() (visible, not scripted)
Close ==
  /\ s.pc = "exit_close"
  /\ IF Mut = "neverClose" THEN s' = [s EXCEPT !.pc = "loop"] /\ UNCHANGED hist
     ELSE /\ s' = [s EXCEPT !.pc = "loop", !.lease = "closed",
                            !.flags = @ \cup (IF s.closeOnExit THEN {} ELSE {"close-after-handoff"})]
          /\ hist' = Append(hist, [k |-> "close", c |-> "CLOSE", a |-> "ok", s |-> "none", sr |-> "none", o |-> Obs])

(* ------------------------ monitorLeaseAsReplica ------------------------- *)
\* store.go:1385 Client.Stream: error, or a stream that reports cluster id c and ends with EOF / a handoff frame
Stream(a, st) ==
  /\ s.pc = "stream"
  /\ \E x \in StreamAns :
       /\ x[1] = a
       /\ LET c == x[2]
              l2 == IF s.local = "" /\ c # "" THEN c ELSE s.local IN     \* adopt the primary's id if we have none
          Call("STREAM", a, st,
               IF x[3] = "err" THEN [s EXCEPT !.pc = "loop", !.pinfo = FALSE]
               ELSE IF l2 # c /\ Mut # "noStreamCheck" THEN [s EXCEPT !.pc = "stream_reject", !.local = l2]
               ELSE [s EXCEPT !.pc = "reading", !.local = l2, !.streamCID = c, !.streamEnd = x[3]])

\* store.go:1399 different cluster: return (deferred st.Close(), setPrimaryInfo(nil))
StreamReject == s.pc = "stream_reject" /\ Internal([s EXCEPT !.pc = "loop", !.pinfo = FALSE])

\* store.go:1403 frames are read until the stream ends or hands a lease over
ReadEnd == s.pc = "reading" /\ Internal([s EXCEPT !.pc = "loop", !.pinfo = FALSE, !.hoID = (s.streamEnd = "ho")])

(* ------------------------------------------------------------------------ *)
Step ==
  \/ \E a \in IDs \cup {"err"}, st \in Stim \cup {"none"} : LoopCID(a, st) \/ TenureCID(a, st)
  \/ \E a \in {"info", "none", "err"}, st \in Stim \cup {"none"} : InfoOnly(a, st) \/ Info1(a, st) \/ Info2(a, st)
  \/ \E a \in {"ok", "exists", "err"}, st \in Stim \cup {"none"} : Acquire(a, st) \/ AcqX(a, st) \/ SetCID(a, st)
  \/ \E a \in {"ok", "expired", "err"}, st \in Stim \cup {"none"} : RenewTick(a, st, s.now + s.wait) \/ HoRenew(a, st, s.now)
  \/ \E x \in StreamAns, st \in Stim \cup {"none"} : Stream(x[1], st)
  \/ SetLease \/ GiveUp \/ DemoteExit \/ HandoffRecv \/ (\E d \in BOOLEAN : HoSend(d)) \/ ClearLease \/ Close
  \/ StreamReject \/ ReadEnd

\* Emit = "edge": one TRACE line per explored edge that extends the script (edge-complete replay:
\* every answer / request in every reachable state is in some script, behind a shortest path)
Next == Step /\ ((Emit = "edge" /\ hist' # hist) => PrintT("TRACE " \o ToJson([h |-> hist'])))

Spec == Init /\ [][Next]_vars

(* ============================ the property (C08) ============================ *)
TenurePcs == {"primary", "ho_renew", "ho_send", "giveup", "exit_clear"}
OutsidePcs == {"loop", "info_only", "info1", "acquire", "info2", "acqx", "stream", "stream_reject", "reading"}

TypeOK == /\ s.pc \in TenurePcs \cup OutsidePcs \cup {"tenure_cid", "setcid", "set_lease", "exit_close"}
          /\ s.lease \in {"none", "held", "closed", "handed"}
          /\ s.local \in {"", "A", "B", "G"}

\* primary only between obtaining a lease and the end of that tenure
PrimaryOnlyInTenure == s.prim => (s.lease = "held" /\ s.pc \in TenurePcs)

\* the primary-scoped context is live exactly while the lease is set
CtxFollowsLease == s.done = ~s.prim

\* a renewal reported the lease gone, or renewals have been failing: the tenure is over at the
\* latest TTL + Timeout after the first of them (the 1 s sleep before the exit is inside the bound)
StopsAfterLeaseLost == (s.prim /\ s.failSince # -1) => (s.now - s.failSince <= TTL + Timeout)

\* once the loop is outside a tenure the lease it held is destroyed -- unless it was handed off
ClosedUnlessHandedOff ==
  /\ (s.pc \in OutsidePcs /\ s.nlease > 0) => s.lease \in {"closed", "handed"}
  /\ s.lease = "handed" => "N1" \in s.frames
  /\ "close-after-handoff" \notin s.flags

NonCandidateNeverAcquires == /\ "acquire-by-noncandidate" \notin s.flags
                             /\ (~Candidate => s.acquires = 0)

\* no Acquire when the service's cluster id (as last read) differs from the stored one
OwnClusterAcquire == "acquire-for-foreign-cluster" \notin s.flags

\* no tenure for a cluster whose id differs from the stored one  (FAILS for the code as written)
OwnClusterTenure == s.prim => s.svcCID = s.local

\* no frames are read from a primary of another cluster
OwnClusterStream == s.pc = "reading" => s.streamCID = s.local

\* the lease id goes only to the requested, connected node, after a successful final renewal
HandoffOnlyToRequested == /\ s.frames \subseteq {"N1"}
                          /\ "frame-without-final-renew" \notin s.flags
                          /\ (s.pc = "ho_send" /\ Mut # "handoffWithoutRenew") => (s.hoCur = "N1" /\ s.finalRenew)

(* ============================== emission ============================== *)
CallPcs == {"loop", "info_only", "info1", "acquire", "info2", "acqx", "tenure_cid", "setcid", "stream", "ho_renew"}
AtCall == s.pc \in CallPcs \/ (s.pc = "primary" /\ ~s.demoteReq /\ s.hoReq = "none")
EmitInv == (Emit = "state" /\ hist # <<>> /\ AtCall) => PrintT("TRACE " \o ToJson([h |-> hist]))
====
