SPECIFICATION Spec
CONSTANTS
  UndoOnFailure = FALSE
  CleanupOnFailure = TRUE
  ReportFailure = TRUE
  Emit = FALSE
INVARIANTS Clean EmitCase
CHECK_DEADLOCK FALSE
