\* relevance: guard dropped (noLoopCheck); TLC must find OwnClusterAcquire violated
SPECIFICATION Spec
CONSTANTS
  Candidate = TRUE
  LocalInit = "A"
  TTL = 300
  MaxCalls = 7
  MaxStim = 1
  Stim = {"demote", "ho1", "ho1x", "ho9"}
  StimAnywhere = FALSE
  Focus = "all"
  Mute = "never"
  CheckAfterAcquire = FALSE
  Mut = "noLoopCheck"
  Emit = "none"
VIEW view
INVARIANTS OwnClusterAcquire
CHECK_DEADLOCK FALSE
