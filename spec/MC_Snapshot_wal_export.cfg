\* Export in WAL mode, whole state space, schedules emitted with the flag r.bad (OnePosition is checked by the _lead cfg)
SPECIFICATION Spec
CONSTANTS
  Mode = "wal"
  SelfCheck = FALSE
  N0 = 2
  MaxPg = 2
  MaxTx = 2
  MaxCkpt = 1
  MaxLCkpt = 1
  AllowRollback = TRUE
  InitWals = {{}, {1, 2}}
  HoldWrite = FALSE
  TakeRead = TRUE
  CopyOffsets = TRUE
  CkptGate = TRUE
  TrackSig = FALSE
  Emit = TRUE
VIEW view
INVARIANTS TypeOK ViewIsRef EmitInv
CHECK_DEADLOCK FALSE
