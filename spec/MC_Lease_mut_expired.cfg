\* relevance: guard dropped (continueAfterExpired); TLC must find StopsAfterLeaseLost violated
SPECIFICATION Spec
CONSTANTS
  Candidate = TRUE
  LocalInit = "A"
  TTL = 300
  MaxCalls = 7
  MaxStim = 1
  Stim = {"demote", "ho1", "ho1x", "ho9"}
  StimAnywhere = FALSE
  Focus = "all"
  Mute = "never"
  CheckAfterAcquire = FALSE
  Mut = "continueAfterExpired"
  Emit = "none"
VIEW view
INVARIANTS StopsAfterLeaseLost
CHECK_DEADLOCK FALSE
