\* C18 streams, quick tier: 2 streams, 3 writes, at most one of them fails (offsets 0, 1, middle, last byte), 11 frame values (all seven types, names of 0 and 255 bytes); measured 39 678 distinct states / 86 989 transitions (one EDGE line each), ~7 s with 4 workers
SPECIFICATION SSpec
CONSTANTS
  Streams = {1, 2}
  MaxWrites = 3
  MaxFaults = 1
  Pooled = FALSE
  EmitS = TRUE
  MaxPayload = 1
  Limit = 3
  ReadSizes = {1}
  Splits = {99}
  FixChunkEOF = TRUE
  StrLens = {0, 255}
  IntVals = {"maxu64"}
  PosEntries <- Entries5
  MaxEntries = 0
  RFAMax = 0
  Parts = {}
  Emit = FALSE
VIEW sview
INVARIANTS StreamIsItsFrames FailedIsProperPrefix HealthyStreamReadsBack
PROPERTIES WriteIsLocal
CHECK_DEADLOCK FALSE
