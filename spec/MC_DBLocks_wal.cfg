\* DBLocks.tla: exhaustive, WAL mode, 2 clients + 1 internal writer, read mark 2, reduced vocabulary (no DMS-exclusive probe, no single RECOVER request), every interleaving
SPECIFICATION Spec
CONSTANTS
  Clients = {"a", "b"}
  Internals = {"i"}
  Mode = "wal"
  ReadMarks = {2}
  DbOpsInWal = FALSE
  WithSnapshot = FALSE
  CkptGate = TRUE
  SkipLock = "none"
  TxNoLock = FALSE
  WalGuard = TRUE
  WalOwnerTest = FALSE
  FlushAll = FALSE
  Exclude = {"DmsW", "RecovW", "RecovU"}
  Gated = FALSE
  EmitEdges = FALSE
VIEW view
INVARIANTS TypeOK NothingLost LockConsistent WriteSetHeld Exclusion NoBegin SnapshotExcluded EmitInv
PROPERTIES RefusedWhileWriting EnterOnlyWhenFree WritesInsideSection CkptNeverGrantedUnderForeignWrite WalWriteNeedsWriteLock SingleLockPosix
CHECK_DEADLOCK FALSE
