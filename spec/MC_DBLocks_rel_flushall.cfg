\* DBLocks.tla: RELEVANCE: closing the -shm descriptor releases the owner's whole guard set (DB.UnlockSHM calling GuardSet.Unlock instead of UnlockSHM) => a connection that still holds EXCLUSIVE on the database file is forgotten and Exclusion must be violated
SPECIFICATION Spec
CONSTANTS
  Clients = {"a", "b"}
  Internals = {"i"}
  Mode = "wal"
  ReadMarks = {}
  DbOpsInWal = TRUE
  WithSnapshot = FALSE
  CkptGate = TRUE
  SkipLock = "none"
  TxNoLock = FALSE
  WalGuard = TRUE
  WalOwnerTest = FALSE
  FlushAll = TRUE
  Exclude = {"DmsW", "CkptW", "CkptU", "RecovRangeW", "RecovRangeU", "RecovW", "RecovU", "RestartW", "RestartU", "WalWrite"}
  Gated = FALSE
  EmitEdges = FALSE
VIEW view
INVARIANTS Exclusion
PROPERTIES EnterOnlyWhenFree
CHECK_DEADLOCK FALSE
