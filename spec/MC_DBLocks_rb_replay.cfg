\* DBLocks.tla: same as rb, interleaving restricted to the points where the real TryAcquireWriteLock can be paused; emits every state with all its edges for replay
SPECIFICATION Spec
CONSTANTS
  Clients = {"a", "b"}
  Internals = {"i"}
  Mode = "rollback"
  ReadMarks = {}
  DbOpsInWal = FALSE
  WithSnapshot = FALSE
  CkptGate = TRUE
  SkipLock = "none"
  TxNoLock = FALSE
  WalGuard = TRUE
  WalOwnerTest = FALSE
  FlushAll = FALSE
  Exclude = {}
  Gated = TRUE
  EmitEdges = TRUE
VIEW view
INVARIANTS TypeOK NothingLost LockConsistent WriteSetHeld Exclusion NoBegin SnapshotExcluded EmitInv
PROPERTIES RefusedWhileWriting EnterOnlyWhenFree WritesInsideSection CkptNeverGrantedUnderForeignWrite WalWriteNeedsWriteLock SingleLockPosix
CHECK_DEADLOCK FALSE
