SPECIFICATION Spec
CONSTANTS
  Modes = {"rb", "wal"}
  GuardWALTrunc = FALSE
  Emit = FALSE
VIEW view
PROPERTIES NoChangeWithoutAuthority WritesAreEACCES
CHECK_DEADLOCK FALSE
