SPECIFICATION LiveSpec
CONSTANTS
  Nodes = {"n1","n2"}
  MaxTx = 3
  MaxFaults = 2
  AllowSplit = FALSE
  AllowDrop = TRUE
  SrvCheck = TRUE
  RepCheck = TRUE
  Emit = "none"
VIEW view
INVARIANTS ChkIsImage OnHistory ChainOK DropIsEmpty EmitInv
PROPERTIES EventuallyConverged
CHECK_DEADLOCK FALSE
