---- MODULE MC_JournalWAL ----
(***************************************************************************)
(* Constants for JournalWAL.tla.  Measured (TLC 1.8, 4 workers):           *)
(*   MC_JournalWAL_j.cfg      66 plans   9 628 distinct states (3 874      *)
(*                            distinct file states), depth 23, 3 s         *)
(*   MC_JournalWAL_j_big.cfg  40 018 distinct states (15 161 distinct      *)
(*                            file states), depth 27, 5 s                  *)
(*   MC_JournalWAL_w.cfg      45 944 distinct states (<= 3 frames), 4 s    *)
(*   MC_JournalWAL_w_big.cfg  145 400 distinct states (<= 4 frames, at     *)
(*                            most one defective frame), 6-10 s            *)
(* Relevance configurations (one rule of the specification removed, TLC    *)
(* must report the invariant): _j_notrunc and _j_oneseg (RollbackRestores),*)
(* _w_nocommit (ScanIsCommitted), _w_nosalt (PrefixIsLongest).             *)
(***************************************************************************)
EXTENDS JournalWAL

(* Transaction plans: n0 = original size, ns = new size, m = modified pages (page 1 always:    *)
(* change counter), pages added by a growing transaction and pages cut off by a shrinking one  *)
(* are modified; spill after 1..(journalled-1) records; PERSIST with a stale tail only for     *)
(* single-segment transactions.                                                               *)
WellFormed(p) ==
  /\ 1 \in p.m
  /\ p.ns >= 1
  /\ p.m \subseteq 1..Max(p.n0, p.ns)
  /\ IF p.n0 = 0
     THEN p.ns <= 2 /\ p.m = 1..p.ns /\ p.spill = 0 /\ ~p.stale
     ELSE /\ p.ns \in {p.n0 - 1, p.n0, p.n0 + 1}
          /\ (p.n0 + 1)..p.ns \subseteq p.m
          /\ (p.ns + 1)..p.n0 \subseteq p.m
          /\ (p.spill = 0 \/ p.spill < Cardinality(p.m \cap (1..p.n0)))
          /\ (p.stale => p.spill = 0)

PlansOver(N0s, MaxPg) ==
  {p \in [n0 : N0s, ns : 1..MaxPg, m : SUBSET (1..MaxPg), sync : BOOLEAN, spill : 0..(MaxPg - 1), stale : BOOLEAN] : WellFormed(p)}

PlansQuick == PlansOver({0, 3}, 4)
PlansBig   == PlansOver({0, 2, 3, 4}, 5)
\* a first segment of exactly four records followed by a second segment: with 32-byte sectors (the
\* smallest SQLite accepts) the first segment ends exactly on a sector boundary
PlansAligned == {p \in PlansOver({5}, 5) : p.spill = 4}
OnePlan    == {[n0 |-> 0, ns |-> 1, m |-> {1}, sync |-> TRUE, spill |-> 0, stale |-> FALSE]}

WHdrsAll == {"ok", "badmagic", "badck", "short", "zero"}
====
