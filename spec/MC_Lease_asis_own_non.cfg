\* EXPECTED VIOLATION (known finding): code as written, AcquireExisting path, reachable by a non-candidate
SPECIFICATION Spec
CONSTANTS
  Candidate = FALSE
  LocalInit = "A"
  TTL = 300
  MaxCalls = 6
  MaxStim = 1
  Stim = {}
  StimAnywhere = FALSE
  Focus = "all"
  Mute = "never"
  CheckAfterAcquire = FALSE
  Mut = "none"
  Emit = "none"
VIEW view
INVARIANTS OwnClusterTenure
CHECK_DEADLOCK FALSE
