\* thorough tier: code as written
SPECIFICATION Spec
CONSTANTS
  TxHolderCheck = FALSE
  UnsetFix = FALSE
  CatchUpKeeps = FALSE
  GrantPins = TRUE
  IdemCheck = TRUE
  WaitPos = TRUE
  FwdFirst = TRUE
  MaxDrop = 0
  DropExcluded = TRUE
  ExpiryUnlocks = TRUE
  MaxTx = 3
  MaxFaults = 1
  MaxHandles = 1
  MaxExpire = 1
  MaxPChange = 1
  MaxRogue = 1
  MaxBlock = 0
  MaxCkpt = 0
  MaxIdle = 0
  MaxSteps = 0
  Eager = FALSE
  Emit = "none"
VIEW view
INVARIANTS TypeOK Exclusive HaltPins StartsAtLockPos AckedIsOnPrimary ReachesThird SameIdSameLock WritableAgain
CHECK_DEADLOCK FALSE
