\* candidate repair, non-candidate without stored id: all invariants hold
SPECIFICATION Spec
CONSTANTS
  Candidate = FALSE
  LocalInit = ""
  TTL = 300
  MaxCalls = 8
  MaxStim = 2
  Stim = {"demote", "ho1", "ho1x", "ho9"}
  StimAnywhere = FALSE
  Focus = "all"
  Mute = "never"
  CheckAfterAcquire = TRUE
  Mut = "none"
  Emit = "none"
VIEW view
INVARIANTS TypeOK PrimaryOnlyInTenure CtxFollowsLease StopsAfterLeaseLost ClosedUnlessHandedOff NonCandidateNeverAcquires OwnClusterAcquire OwnClusterStream HandoffOnlyToRequested OwnClusterTenure
CHECK_DEADLOCK FALSE
