\* C12 blocking acquires with a cancellable context, rwmutex.go as coded: 4 owners, two of them issue blocking calls; Cancel at every point; measured 10 880 distinct states / 268 209 transitions, ~2 s
SPECIFICATION CSpec
CONSTANTS
  Owners = {"a", "b", "c", "d"}
  Waiters = {"a", "b"}
  Impl = "ascoded"
  EmitEdges = FALSE
  EmitOutcomes = TRUE
VIEW cview
INVARIANTS CTypeOK OneOfThree QueriesArePosix SucceededAcquireHolds FailedAcquireHoldsNothing NoPhantomHolder
PROPERTIES ErrorReturnChangesNothing NilOnlyWhenAllowed
CHECK_DEADLOCK FALSE
