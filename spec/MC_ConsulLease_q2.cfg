\* quick: two leasers, handoff between them (Lease.Handoff -> HandoffCh -> AcquireExisting by the other node), failing requests and expiry; one script per explored edge
SPECIFICATION Spec
CONSTANTS
  Nodes = {"n1","n2"}
  MaxSess = 2
  Ops = {"acquire","acqx","renew","close","handoff"}
  Faults = {"err"}
  EnvActs = {"expire","delay"}
  UseCAS = FALSE
  Mut = "none"
  Emit = "edge"
VIEW view
INVARIANTS TypeOK OneLiveHolder LeaseHoldsKey LeaseOnlyWithKey ExpiredIsReported CloseDestroys HandoffExact
CHECK_DEADLOCK FALSE
