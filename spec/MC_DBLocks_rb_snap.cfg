\* DBLocks.tla: thorough: rollback mode with the WriteSnapshotTo/Export lock sequence
SPECIFICATION Spec
CONSTANTS
  Clients = {"a", "b"}
  Internals = {"i"}
  Mode = "rollback"
  ReadMarks = {}
  DbOpsInWal = FALSE
  WithSnapshot = TRUE
  CkptGate = TRUE
  SkipLock = "none"
  TxNoLock = FALSE
  WalGuard = TRUE
  WalOwnerTest = FALSE
  FlushAll = FALSE
  Exclude = {}
  Gated = FALSE
  EmitEdges = FALSE
VIEW view
INVARIANTS TypeOK NothingLost LockConsistent WriteSetHeld Exclusion NoBegin SnapshotExcluded EmitInv
PROPERTIES RefusedWhileWriting EnterOnlyWhenFree WritesInsideSection CkptNeverGrantedUnderForeignWrite WalWriteNeedsWriteLock SingleLockPosix
CHECK_DEADLOCK FALSE
