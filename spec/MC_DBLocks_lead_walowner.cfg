\* DBLocks.tla: LEAD (R2): as coded the WRITE-lock test of WAL writes is not owner-specific => WalWriteByHolder is violated on the model; reproduced on the real code as known finding wal-write-foreign-writer
SPECIFICATION Spec
CONSTANTS
  Clients = {"a", "b"}
  Internals = {"i"}
  Mode = "wal"
  ReadMarks = {2}
  DbOpsInWal = FALSE
  WithSnapshot = FALSE
  CkptGate = TRUE
  SkipLock = "none"
  TxNoLock = FALSE
  WalGuard = TRUE
  WalOwnerTest = FALSE
  FlushAll = FALSE
  Exclude = {"DmsW", "RecovW", "RecovU"}
  Gated = FALSE
  EmitEdges = FALSE
VIEW view
INVARIANTS TypeOK
PROPERTIES WalWriteByHolder
CHECK_DEADLOCK FALSE
