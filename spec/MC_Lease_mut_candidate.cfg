\* relevance: guard dropped (noCandidateGuard); TLC must find NonCandidateNeverAcquires violated
SPECIFICATION Spec
CONSTANTS
  Candidate = FALSE
  LocalInit = "A"
  TTL = 300
  MaxCalls = 7
  MaxStim = 1
  Stim = {"demote", "ho1", "ho1x", "ho9"}
  StimAnywhere = FALSE
  Focus = "all"
  Mute = "never"
  CheckAfterAcquire = FALSE
  Mut = "noCandidateGuard"
  Emit = "none"
VIEW view
INVARIANTS NonCandidateNeverAcquires
CHECK_DEADLOCK FALSE
