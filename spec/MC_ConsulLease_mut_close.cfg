\* relevance: Close does not destroy the session. EXPECTED violation: CloseDestroys
SPECIFICATION Spec
CONSTANTS
  Nodes = {"n1"}
  MaxSess = 2
  Ops = {"acquire","acqx","renew","close","info","cid","setcid"}
  Faults = {"err","lost","stale"}
  EnvActs = {"expire","delay","xacq","xcid","xhand"}
  UseCAS = FALSE
  Mut = "closeNoDestroy"
  Emit = "none"
VIEW view
INVARIANTS CloseDestroys
CHECK_DEADLOCK FALSE
