SPECIFICATION Spec
CONSTANTS
  Reps = {"n3"}
  DBs = {"a","b","c"}
  Filter = {"a","b"}
  MaxTx = 4
  MaxFaults = 2
  MaxOrphans = 1
  OrphanTx = {1,2}
  AllowDrop = TRUE
  AllowSweep = TRUE
  AllowRestart = TRUE
  FilterEveryRound = TRUE
  DropFrameFiltered = TRUE
  OwnEntry = TRUE
  ChkCompare = TRUE
  ApplyDropFrame = FALSE
  Wire = 2
  Emit = "none"
VIEW view
INVARIANTS ChkIsImage OnHistory FilterRespected NoFrameOutsideFilter QuiescentConverged DropFollows EmitInv

CHECK_DEADLOCK FALSE
