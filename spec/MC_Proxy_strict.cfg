SPECIFICATION Spec
CONSTANTS
  MaxPos = 2
  Methods = {"GET", "HEAD", "OPTIONS", "POST", "PUT", "DELETE", "PATCH"}
  Paths = {"plain", "pt", "af", "both", "health", "healthpt", "healthaf"}
  Mut = "none"
  Emit = FALSE
VIEW view
INVARIANTS TypeOK P1aStrict
CHECK_DEADLOCK FALSE
