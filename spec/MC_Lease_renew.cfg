\* renewal timing with a TTL that lets the 1 s retry happen (quick)
SPECIFICATION Spec
CONSTANTS
  Candidate = TRUE
  LocalInit = "A"
  TTL = 2600
  MaxCalls = 8
  MaxStim = 1
  Stim = {"demote", "ho1"}
  StimAnywhere = FALSE
  Focus = "renew"
  Mute = "never"
  CheckAfterAcquire = FALSE
  Mut = "none"
  Emit = "edge"
VIEW view
INVARIANTS TypeOK PrimaryOnlyInTenure CtxFollowsLease StopsAfterLeaseLost ClosedUnlessHandedOff NonCandidateNeverAcquires OwnClusterAcquire OwnClusterStream HandoffOnlyToRequested
CHECK_DEADLOCK FALSE
