\* WalRelease.tla: as coded (CommitWAL runs while the releasing connection still holds WAL_WRITE_LOCK), 2 connections, 3 transactions, every interleaving; emits the quiescent final states
SPECIFICATION Spec
CONSTANTS
  Conns = {"A", "B"}
  Pages = {1, 2}
  MaxTx = 3
  CaptureUnderLock = TRUE
  Emit = TRUE
VIEW view
INVARIANTS TypeOK PosCountsReleases ChainExact EmitInv
PROPERTIES NoRewrite PosMonotone NoGrantDuringCapture
CHECK_DEADLOCK FALSE
