\* relevance: Acquire ignores acquired=false. EXPECTED violation: LeaseOnlyWithKey
SPECIFICATION Spec
CONSTANTS
  Nodes = {"n1"}
  MaxSess = 2
  Ops = {"acquire","acqx","renew","close","info","cid","setcid"}
  Faults = {"err","lost","stale"}
  EnvActs = {"expire","delay","xacq","xcid","xhand"}
  UseCAS = FALSE
  Mut = "acquireIgnoresFalse"
  Emit = "none"
VIEW view
INVARIANTS LeaseOnlyWithKey
CHECK_DEADLOCK FALSE
