\* WalRelease.tla: AS SEEDED (C03-4): guards unlocked before CommitWAL => TLC must find ChainExact violated (two commits, position advances by one, one transaction in no file). Documented counterexample configuration: run by the thorough tier as a relevance configuration, never as a verdict
SPECIFICATION Spec
CONSTANTS
  Conns = {"A", "B"}
  Pages = {1, 2}
  MaxTx = 2
  CaptureUnderLock = FALSE
  Emit = FALSE
VIEW view
INVARIANTS TypeOK ChainExact
CHECK_DEADLOCK FALSE
