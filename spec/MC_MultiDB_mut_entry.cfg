SPECIFICATION LiveSpec
CONSTANTS
  Reps = {"n3"}
  DBs = {"a","b"}
  Filter = {"a"}
  MaxTx = 2
  MaxFaults = 1
  MaxOrphans = 0
  OrphanTx = {1}
  AllowDrop = TRUE
  AllowSweep = TRUE
  AllowRestart = TRUE
  FilterEveryRound = TRUE
  DropFrameFiltered = TRUE
  OwnEntry = FALSE
  ChkCompare = TRUE
  ApplyDropFrame = FALSE
  Wire = 2
  Emit = "none"
VIEW view
INVARIANTS ChkIsImage OnHistory FilterRespected NoFrameOutsideFilter QuiescentConverged DropFollows EmitInv
PROPERTIES EventuallyConverged
CHECK_DEADLOCK FALSE
