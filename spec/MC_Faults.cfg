SPECIFICATION Spec
CONSTANTS
  UndoOnFailure = TRUE
  CleanupOnFailure = TRUE
  ReportFailure = TRUE
  Emit = TRUE
INVARIANTS Clean EmitCase
CHECK_DEADLOCK FALSE
