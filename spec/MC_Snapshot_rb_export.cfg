\* Export against a rollback-journal writer: OnePosition must hold
SPECIFICATION Spec
CONSTANTS
  Mode = "rb"
  SelfCheck = FALSE
  N0 = 2
  MaxPg = 3
  MaxTx = 2
  MaxCkpt = 0
  MaxLCkpt = 0
  AllowRollback = TRUE
  InitWals = {{}}
  HoldWrite = FALSE
  TakeRead = TRUE
  CopyOffsets = TRUE
  CkptGate = TRUE
  TrackSig = FALSE
  Emit = TRUE
VIEW view
INVARIANTS TypeOK ViewIsRef OnePosition EmitInv
CHECK_DEADLOCK FALSE
