\* DBLocks.tla: thorough: WAL mode, 3 clients, reduced vocabulary
SPECIFICATION Spec
CONSTANTS
  Clients = {"a", "b", "c"}
  Internals = {"i"}
  Mode = "wal"
  ReadMarks = {2}
  DbOpsInWal = FALSE
  WithSnapshot = FALSE
  CkptGate = TRUE
  SkipLock = "none"
  TxNoLock = FALSE
  WalGuard = TRUE
  WalOwnerTest = FALSE
  FlushAll = FALSE
  Exclude = {"DmsW", "RecovW", "RecovU"}
  Gated = FALSE
  EmitEdges = FALSE
VIEW view
INVARIANTS TypeOK NothingLost LockConsistent WriteSetHeld Exclusion NoBegin SnapshotExcluded EmitInv
PROPERTIES RefusedWhileWriting EnterOnlyWhenFree WritesInsideSection CkptNeverGrantedUnderForeignWrite WalWriteNeedsWriteLock SingleLockPosix
CHECK_DEADLOCK FALSE
