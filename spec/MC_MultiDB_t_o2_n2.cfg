SPECIFICATION Spec
CONSTANTS
  Reps = {"n2"}
  DBs = {"a","b","c"}
  Filter = {"a","b"}
  MaxTx = 2
  MaxFaults = 1
  MaxOrphans = 1
  OrphanTx = {2}
  AllowDrop = TRUE
  AllowSweep = TRUE
  AllowRestart = TRUE
  FilterEveryRound = TRUE
  DropFrameFiltered = TRUE
  OwnEntry = TRUE
  ChkCompare = TRUE
  ApplyDropFrame = FALSE
  Wire = 1
  Emit = "final"
VIEW view
INVARIANTS ChkIsImage OnHistory FilterRespected NoFrameOutsideFilter QuiescentConverged DropFollows EmitInv

CHECK_DEADLOCK FALSE
