\* lead outside C13: after a lost /tx response the holder skips its own frame for ever (expected violation)
SPECIFICATION Spec
CONSTANTS
  TxHolderCheck = TRUE
  UnsetFix = TRUE
  CatchUpKeeps = TRUE
  GrantPins = TRUE
  IdemCheck = TRUE
  WaitPos = TRUE
  FwdFirst = TRUE
  MaxDrop = 0
  DropExcluded = TRUE
  ExpiryUnlocks = TRUE
  MaxTx = 3
  MaxFaults = 1
  MaxHandles = 1
  MaxExpire = 1
  MaxPChange = 0
  MaxRogue = 0
  MaxBlock = 0
  MaxCkpt = 1
  MaxIdle = 1
  MaxSteps = 0
  Eager = FALSE
  Emit = "none"
VIEW view
INVARIANTS NoStuck
CHECK_DEADLOCK FALSE
