\* scripts from the REPAIRED variant (used with C13_MODEL=fixed to exercise a tree that carries the candidate repairs)
SPECIFICATION Spec
CONSTANTS
  TxHolderCheck = TRUE
  UnsetFix = TRUE
  CatchUpKeeps = TRUE
  GrantPins = TRUE
  IdemCheck = TRUE
  WaitPos = TRUE
  FwdFirst = TRUE
  MaxDrop = 0
  DropExcluded = TRUE
  ExpiryUnlocks = TRUE
  MaxTx = 3
  MaxFaults = 0
  MaxHandles = 1
  MaxExpire = 1
  MaxPChange = 0
  MaxRogue = 1
  MaxBlock = 0
  MaxCkpt = 1
  MaxIdle = 1
  MaxSteps = 7
  Eager = TRUE
  Emit = "end"
VIEW view
INVARIANTS TypeOK EmitInv
CHECK_DEADLOCK FALSE
