SPECIFICATION Spec
CONSTANTS
  Part = "journal"
  Emit = TRUE
  Plans <- PlansAligned
  Mutate = FALSE
  Rule = "sqlite"
  WN0 = 2
  WPages = {1, 2, 3}
  WCommits = {0, 2, 3}
  WHdrs <- WHdrsAll
  MaxFrames = 1
  MaxBad = 1
  Scan = "sqlite"
INVARIANTS JTypeOK RollbackRestores HotOwnAgree NoStaleContent JEmit
CHECK_DEADLOCK FALSE
