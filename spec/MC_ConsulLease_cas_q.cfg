\* candidate repair (put with cas=0), one leaser: every invariant including ClusterIDSetOnce holds (quick)
SPECIFICATION Spec
CONSTANTS
  Nodes = {"n1"}
  MaxSess = 2
  Ops = {"acquire","acqx","renew","close","info","cid","setcid"}
  Faults = {"err","lost","stale"}
  EnvActs = {"expire","delay","xacq","xcid","xhand"}
  UseCAS = TRUE
  Mut = "none"
  Emit = "none"
VIEW view
INVARIANTS TypeOK OneLiveHolder LeaseHoldsKey LeaseOnlyWithKey ExpiredIsReported CloseDestroys HandoffExact ClusterIDSetOnce
CHECK_DEADLOCK FALSE
