\* C18 thorough tier: exhaustive, measured 128 825 distinct states / 428 757 transitions, depth 22, ~23 s with 4 workers
SPECIFICATION Spec
CONSTANTS
  MaxPayload = 9
  Limit = 3
  ReadSizes = {1, 2, 3, 4}
  Splits = {1, 2, 99}
  FixChunkEOF = TRUE
  StrLens = {0, 1, 255, 70000}
  IntVals = {"zero", "one", "maxu64", "maxi64", "neg"}
  PosEntries <- Entries5
  MaxEntries = 3
  RFAMax = 3
  Parts = {"chunk", "frame", "posmap", "rfa"}
  Emit = TRUE
VIEW view
INVARIANTS TypeOK WriterShape ChunkRoundTrip ChunkPrefixRejected ChunkNoExtra ChunkCompleteOK FrameOK PosOK RFAOK
PROPERTIES ReadProgress
CHECK_DEADLOCK FALSE
