\* relevance: guard dropped (noClearLease); TLC must find PrimaryOnlyInTenure violated
SPECIFICATION Spec
CONSTANTS
  Candidate = TRUE
  LocalInit = "A"
  TTL = 300
  MaxCalls = 7
  MaxStim = 1
  Stim = {"demote", "ho1", "ho1x", "ho9"}
  StimAnywhere = FALSE
  Focus = "all"
  Mute = "never"
  CheckAfterAcquire = FALSE
  Mut = "noClearLease"
  Emit = "none"
VIEW view
INVARIANTS PrimaryOnlyInTenure
CHECK_DEADLOCK FALSE
