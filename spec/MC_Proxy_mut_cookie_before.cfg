SPECIFICATION Spec
CONSTANTS
  MaxPos = 2
  Methods = {"GET", "HEAD", "OPTIONS", "POST", "PUT", "DELETE", "PATCH"}
  Paths = {"plain", "pt", "af", "both", "health", "healthpt", "healthaf"}
  Mut = "cookie_before"
  Emit = FALSE
VIEW view
INVARIANTS TypeOK Shape P1a P1b P1c P2a P2b P3
CHECK_DEADLOCK FALSE
