\* C12 relevance: the error is returned after a successful Try call and the lock is kept. TLC must report FailedAcquireHoldsNothing violated (Call, other owner releases, Poll succeeds, Cancel, return of the error)
SPECIFICATION CSpec
CONSTANTS
  Owners = {"a", "b", "c", "d"}
  Waiters = {"a", "b"}
  Impl = "keep"
  EmitEdges = FALSE
  EmitOutcomes = FALSE
VIEW cview
INVARIANTS CTypeOK OneOfThree QueriesArePosix SucceededAcquireHolds FailedAcquireHoldsNothing NoPhantomHolder
PROPERTIES ErrorReturnChangesNothing NilOnlyWhenAllowed
CHECK_DEADLOCK FALSE
