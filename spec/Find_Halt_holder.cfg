\* code as written: TLC must find a violation of OnlyFromHolder (the recorded finding)
SPECIFICATION Spec
CONSTANTS
  TxHolderCheck = FALSE
  UnsetFix = FALSE
  CatchUpKeeps = FALSE
  GrantPins = TRUE
  IdemCheck = TRUE
  WaitPos = TRUE
  FwdFirst = TRUE
  MaxDrop = 0
  DropExcluded = TRUE
  ExpiryUnlocks = TRUE
  MaxTx = 2
  MaxFaults = 1
  MaxHandles = 1
  MaxExpire = 1
  MaxPChange = 1
  MaxRogue = 1
  MaxBlock = 0
  MaxCkpt = 1
  MaxIdle = 1
  MaxSteps = 0
  Eager = FALSE
  Emit = "none"
VIEW view
INVARIANTS OnlyFromHolder
CHECK_DEADLOCK FALSE
