---- MODULE RWMutex ----
(***************************************************************************)
(* One LiteFS advisory lock (rwmutex.go): the mutex keeps `sharedN` and    *)
(* `excl` exactly as the Go struct does, every owner holds one guard whose *)
(* state is unlocked / shared / exclusive.  One action per public guard    *)
(* method; each is one critical section of rw.mu in the code.              *)
(*                                                                         *)
(* The POSIX byte-range rules between distinct owners are stated           *)
(* independently (PosixAllows) and TLC checks that the operational         *)
(* definition agrees with them in every reachable state (C12).             *)
(***************************************************************************)
EXTENDS Integers, Sequences, FiniteSets, TLC, Json

CONSTANTS Owners,     \* set of owner names (model values are strings so that they survive JSON)
          EmitEdges   \* TRUE: print one EDGE line per explored transition (edge-complete replay)

None == "none"

VARIABLES sharedN,   \* RWMutex.sharedN
          excl,      \* RWMutex.excl (owner or None)
          g,         \* guard state per owner
          last,      \* observable result of the last call (output only)
          hist       \* path of calls from the initial state (history, hidden by VIEW)

vars == <<sharedN, excl, g, last, hist>>
view == <<sharedN, excl, g>>

States == {"unlocked", "shared", "exclusive"}

MState == IF excl # None THEN "exclusive" ELSE IF sharedN > 0 THEN "shared" ELSE "unlocked"

TypeOK == /\ sharedN \in 0..Cardinality(Owners)
          /\ excl \in Owners \cup {None}
          /\ g \in [Owners -> States]

Init == /\ sharedN = 0 /\ excl = None
        /\ g = [o \in Owners |-> "unlocked"]
        /\ last = [op |-> "Init", o |-> None, res |-> TRUE, mstate |-> "unlocked"]
        /\ hist = <<>>

(* ---- POSIX oracle: what an fcntl lock request by owner o may do, given only the *)
(* locks held by the OTHER owners (a process never conflicts with itself).        *)
PosixAllows(o, mode) ==
  IF mode = "exclusive"
  THEN \A p \in Owners \ {o} : g[p] = "unlocked"
  ELSE \A p \in Owners \ {o} : g[p] # "exclusive"

Out(op, o, res) ==
  /\ last' = [op |-> op, o |-> o, res |-> res, mstate |-> MState']
  /\ hist' = Append(hist, [op |-> op, o |-> o])

Same == UNCHANGED <<sharedN, excl, g>>

(* ---- RWMutexGuard.TryLock (rwmutex.go tryLock) ---- *)
TryLock(o) ==
  CASE g[o] = "unlocked" ->
         IF sharedN # 0 \/ excl # None
         THEN Same /\ Out("TryLock", o, FALSE)
         ELSE /\ sharedN' = 0 /\ excl' = o /\ g' = [g EXCEPT ![o] = "exclusive"]
              /\ Out("TryLock", o, TRUE)
    [] g[o] = "shared" ->
         IF sharedN > 1
         THEN Same /\ Out("TryLock", o, FALSE)
         ELSE /\ sharedN' = 0 /\ excl' = o /\ g' = [g EXCEPT ![o] = "exclusive"]
              /\ Out("TryLock", o, TRUE)
    [] g[o] = "exclusive" -> Same /\ Out("TryLock", o, TRUE)

(* ---- RWMutexGuard.TryRLock (tryRLock): acquire, no-op, or downgrade ---- *)
TryRLock(o) ==
  CASE g[o] = "unlocked" ->
         IF excl # None
         THEN Same /\ Out("TryRLock", o, FALSE)
         ELSE /\ sharedN' = sharedN + 1 /\ UNCHANGED excl /\ g' = [g EXCEPT ![o] = "shared"]
              /\ Out("TryRLock", o, TRUE)
    [] g[o] = "shared" -> Same /\ Out("TryRLock", o, TRUE)
    [] g[o] = "exclusive" ->
         /\ sharedN' = 1 /\ excl' = None /\ g' = [g EXCEPT ![o] = "shared"]
         /\ Out("TryRLock", o, TRUE)

(* ---- RWMutexGuard.Unlock ---- *)
Unlock(o) ==
  CASE g[o] = "unlocked" -> Same /\ Out("Unlock", o, TRUE)
    [] g[o] = "shared" ->
         /\ sharedN' = sharedN - 1 /\ UNCHANGED excl /\ g' = [g EXCEPT ![o] = "unlocked"]
         /\ Out("Unlock", o, TRUE)
    [] g[o] = "exclusive" ->
         /\ sharedN' = 0 /\ excl' = None /\ g' = [g EXCEPT ![o] = "unlocked"]
         /\ Out("Unlock", o, TRUE)

(* ---- queries ---- *)
CanLockV(o) == CASE g[o] = "unlocked" -> sharedN = 0 /\ excl = None
                 [] g[o] = "shared" -> sharedN = 1
                 [] g[o] = "exclusive" -> TRUE
CanRLockV(o) == CASE g[o] = "unlocked" -> excl = None
                  [] OTHER -> TRUE
CanLock(o)  == Same /\ Out("CanLock", o, CanLockV(o))
CanRLock(o) == Same /\ Out("CanRLock", o, CanRLockV(o))

(* ---- blocking variants: a polling loop around the Try call.  In the model the  *)
(* call returns success exactly in states where the Try call succeeds ("Lock"),   *)
(* and returns the context error, changing nothing, when its context ends while   *)
(* the lock is unavailable ("LockCancel").                                        *)
Lock(o)        == CanLockV(o)  /\ TryLock(o)  /\ last'.res = TRUE
RLock(o)       == CanRLockV(o) /\ TryRLock(o) /\ last'.res = TRUE
LockCancel(o)  == ~CanLockV(o)  /\ Same /\ Out("LockCancel", o, FALSE)
RLockCancel(o) == ~CanRLockV(o) /\ Same /\ Out("RLockCancel", o, FALSE)

Step(o) == \/ TryLock(o) \/ TryRLock(o) \/ Unlock(o) \/ CanLock(o) \/ CanRLock(o)
           \/ LockCancel(o) \/ RLockCancel(o)

Proj == [m |-> MState, g |-> g,
         canX |-> [o \in Owners |-> CanLockV(o)],
         canS |-> [o \in Owners |-> CanRLockV(o)]]

Next == \E o \in Owners :
          /\ Step(o)
          /\ (EmitEdges => PrintT("EDGE " \o ToJson([path |-> hist, act |-> last', pre |-> Proj, post |-> Proj'])))

Spec == Init /\ [][Next]_vars

(* ---------------------------- properties (C12) ---------------------------- *)

\* at each instant: nobody, one or more shared holders, or exactly one exclusive holder
OneOfThree ==
  LET X == {o \in Owners : g[o] = "exclusive"}
      S == {o \in Owners : g[o] = "shared"}
  IN /\ Cardinality(X) <= 1
     /\ (X # {} => S = {})
     /\ sharedN = Cardinality(S)
     /\ (excl = None <=> X = {})
     /\ (excl # None => X = {excl})

\* queries equal the POSIX rule
QueriesArePosix == \A o \in Owners : /\ CanLockV(o)  = PosixAllows(o, "exclusive")
                                     /\ CanRLockV(o) = PosixAllows(o, "shared")

\* every call succeeds exactly when POSIX allows it; failure changes nothing; unlock of unheld is a no-op
CallsArePosix ==
  [][ \A o \in Owners :
        /\ (last'.op = "TryLock"  /\ last'.o = o) =>
              /\ last'.res = PosixAllows(o, "exclusive")
              /\ (last'.res => g' = [g EXCEPT ![o] = "exclusive"])
              /\ (~last'.res => UNCHANGED <<sharedN, excl, g>>)
        /\ (last'.op = "TryRLock" /\ last'.o = o) =>
              /\ last'.res = PosixAllows(o, "shared")
              /\ (last'.res => g' = [g EXCEPT ![o] = "shared"])
              /\ (~last'.res => UNCHANGED <<sharedN, excl, g>>)
        /\ (last'.op = "Unlock" /\ last'.o = o) =>
              /\ g' = [g EXCEPT ![o] = "unlocked"]
              /\ (g[o] = "unlocked" => UNCHANGED <<sharedN, excl, g>>)
        /\ (last'.op \in {"CanLock", "CanRLock", "LockCancel", "RLockCancel"}) => UNCHANGED <<sharedN, excl, g>>
    ]_vars

\* the query predicts the immediately following attempt
QueryPredictsAttempt ==
  [][ \A o \in Owners :
        /\ (last'.op = "TryLock"  /\ last'.o = o) => last'.res = CanLockV(o)
        /\ (last'.op = "TryRLock" /\ last'.o = o) => last'.res = CanRLockV(o)
    ]_vars
====
