\* probe
SPECIFICATION Spec
CONSTANTS
  Nodes = {"n1"}
  MaxSess = 2
  Ops = {"acquire","acqx","renew","close","info","cid","setcid","handoff"}
  Faults = {"err","lost","stale"}
  EnvActs = {"expire","delay","xacq","xcid","xhand"}
  UseCAS = FALSE
  Mut = "none"
  Emit = "edge"
VIEW view
INVARIANTS TypeOK OneLiveHolder LeaseHoldsKey LeaseOnlyWithKey ExpiredIsReported CloseDestroys HandoffExact
CHECK_DEADLOCK FALSE
