\* DBLocks.tla: thorough: WAL-mode clients also take the database-file locks (SHARED; EXCLUSIVE locking mode)
SPECIFICATION Spec
CONSTANTS
  Clients = {"a", "b"}
  Internals = {"i"}
  Mode = "wal"
  ReadMarks = {2}
  DbOpsInWal = TRUE
  WithSnapshot = FALSE
  CkptGate = TRUE
  SkipLock = "none"
  TxNoLock = FALSE
  WalGuard = TRUE
  WalOwnerTest = FALSE
  FlushAll = FALSE
  Exclude = {"DmsW", "RecovW", "RecovU"}
  Gated = FALSE
  EmitEdges = FALSE
VIEW view
INVARIANTS TypeOK NothingLost LockConsistent WriteSetHeld Exclusion NoBegin SnapshotExcluded EmitInv
PROPERTIES RefusedWhileWriting EnterOnlyWhenFree WritesInsideSection CkptNeverGrantedUnderForeignWrite WalWriteNeedsWriteLock SingleLockPosix
CHECK_DEADLOCK FALSE
