SPECIFICATION Spec
CONSTANTS
  Nodes = {"n1","n2"}
  MaxTx = 3
  MaxFaults = 2
  AllowSplit = FALSE
  AllowDrop = FALSE
  SrvCheck = TRUE
  RepCheck = TRUE
  Emit = "final"
VIEW view
INVARIANTS ChkIsImage OnHistory ChainOK DropIsEmpty EmitInv
PROPERTIES NoPatch
CHECK_DEADLOCK FALSE
