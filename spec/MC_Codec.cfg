\* C18 quick tier: exhaustive, measured 31 486 distinct states / 87 638 transitions (one EDGE line each), depth 18, ~8 s with 4 workers
SPECIFICATION Spec
CONSTANTS
  MaxPayload = 7
  Limit = 3
  ReadSizes = {1, 2, 3, 4}
  Splits = {1, 2, 99}
  FixChunkEOF = TRUE
  StrLens = {0, 1, 255, 70000}
  IntVals = {"zero", "one", "maxu64", "maxi64", "neg"}
  PosEntries <- Entries5
  MaxEntries = 3
  RFAMax = 3
  Parts = {"chunk", "frame", "posmap", "rfa"}
  Emit = TRUE
VIEW view
INVARIANTS TypeOK WriterShape ChunkRoundTrip ChunkPrefixRejected ChunkNoExtra ChunkCompleteOK FrameOK PosOK RFAOK
PROPERTIES ReadProgress
CHECK_DEADLOCK FALSE
