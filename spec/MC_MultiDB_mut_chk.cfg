SPECIFICATION Spec
CONSTANTS
  Reps = {"n3"}
  DBs = {"a","b"}
  Filter = {"a"}
  MaxTx = 1
  MaxFaults = 1
  MaxOrphans = 1
  OrphanTx = {1}
  AllowDrop = TRUE
  AllowSweep = TRUE
  AllowRestart = TRUE
  FilterEveryRound = TRUE
  DropFrameFiltered = TRUE
  OwnEntry = TRUE
  ChkCompare = FALSE
  ApplyDropFrame = FALSE
  Wire = 2
  Emit = "none"
VIEW view
INVARIANTS QuiescentConverged

CHECK_DEADLOCK FALSE
