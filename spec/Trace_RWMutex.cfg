SPECIFICATION TraceSpec
CONSTANTS
  Owners = {"a", "b", "c", "d"}
  EmitEdges = FALSE
VIEW traceView
INVARIANTS NotAccepted OneOfThree
CHECK_DEADLOCK FALSE
