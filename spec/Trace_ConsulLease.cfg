\* trace validation of the store-level Consul logs (checks/c08); UseCAS is replaced by the harness
\* when the tree under test puts the cluster ID with cas
SPECIFICATION TraceSpec
CONSTANTS
  Nodes = {"n1"}
  MaxSess = 100000
  Ops = {"acquire","acqx","renew","close","info","cid","setcid"}
  Faults = {"err","lost","stale"}
  EnvActs = {"expire","delay","xacq","xcid","cidany"}
  UseCAS = FALSE
  Mut = "none"
  Emit = "none"
VIEW traceView
INVARIANTS NotAccepted
CHECK_DEADLOCK FALSE
