\* quick tier: code as written, exhaustive, one script per explored edge (OwnClusterTenure is checked in MC_Lease_asis_own*.cfg: known finding)
SPECIFICATION Spec
CONSTANTS
  Candidate = TRUE
  LocalInit = ""
  TTL = 300
  MaxCalls = 6
  MaxStim = 1
  Stim = {"demote", "ho1", "ho1x", "ho9"}
  StimAnywhere = FALSE
  Focus = "all"
  Mute = "never"
  CheckAfterAcquire = FALSE
  Mut = "none"
  Emit = "edge"
VIEW view
INVARIANTS TypeOK PrimaryOnlyInTenure CtxFollowsLease StopsAfterLeaseLost ClosedUnlessHandedOff NonCandidateNeverAcquires OwnClusterAcquire OwnClusterStream HandoffOnlyToRequested
CHECK_DEADLOCK FALSE
