\* DBLocks.tla: thorough: rollback mode, 3 clients
SPECIFICATION Spec
CONSTANTS
  Clients = {"a", "b", "c"}
  Internals = {"i"}
  Mode = "rollback"
  ReadMarks = {}
  DbOpsInWal = FALSE
  WithSnapshot = FALSE
  CkptGate = TRUE
  SkipLock = "none"
  TxNoLock = FALSE
  WalGuard = TRUE
  WalOwnerTest = FALSE
  FlushAll = FALSE
  Exclude = {}
  Gated = FALSE
  EmitEdges = FALSE
VIEW view
INVARIANTS TypeOK NothingLost LockConsistent WriteSetHeld Exclusion NoBegin SnapshotExcluded EmitInv
PROPERTIES RefusedWhileWriting EnterOnlyWhenFree WritesInsideSection CkptNeverGrantedUnderForeignWrite WalWriteNeedsWriteLock SingleLockPosix
CHECK_DEADLOCK FALSE
