\* DBLocks.tla: thorough: WAL mode, 1 client, two concurrent internal writers
SPECIFICATION Spec
CONSTANTS
  Clients = {"a"}
  Internals = {"i", "j"}
  Mode = "wal"
  ReadMarks = {2}
  DbOpsInWal = FALSE
  WithSnapshot = FALSE
  CkptGate = TRUE
  SkipLock = "none"
  TxNoLock = FALSE
  WalGuard = TRUE
  WalOwnerTest = FALSE
  FlushAll = FALSE
  Exclude = {"DmsW", "RecovW", "RecovU"}
  Gated = FALSE
  EmitEdges = FALSE
VIEW view
INVARIANTS TypeOK NothingLost LockConsistent WriteSetHeld Exclusion NoBegin SnapshotExcluded EmitInv
PROPERTIES RefusedWhileWriting EnterOnlyWhenFree WritesInsideSection CkptNeverGrantedUnderForeignWrite WalWriteNeedsWriteLock SingleLockPosix
CHECK_DEADLOCK FALSE
