SPECIFICATION Spec
CONSTANTS
  Reps = {"n2"}
  DBs = {"a","b"}
  Filter = {"a"}
  MaxTx = 1
  MaxFaults = 1
  MaxOrphans = 1
  OrphanTx = {1}
  AllowDrop = TRUE
  AllowSweep = TRUE
  AllowRestart = TRUE
  FilterEveryRound = TRUE
  DropFrameFiltered = FALSE
  OwnEntry = TRUE
  ChkCompare = TRUE
  ApplyDropFrame = TRUE
  Wire = 2
  Emit = "none"
VIEW view
INVARIANTS FilterRespected

CHECK_DEADLOCK FALSE
