SPECIFICATION Spec
CONSTANTS
  EmitEdges = TRUE
  Reqs = "plain"
  MaxReq = 4
  Mut = "none"
VIEW view
INVARIANTS TypeOK StateSane
PROPERTIES InvalidChangesNothing ReadOnlyChangesNothing OnlyPrimaryChanges
CHECK_DEADLOCK FALSE
