SPECIFICATION Spec
CONSTANTS
  MaxPg = 3
  MaxOps = 3
  BlockOf <- BlockL2
  LockPg = 0
  AllowWAL = TRUE
  FinModes = {"DELETE"}
  AllowSpill = FALSE
  AllowBeyond = FALSE
  FixBeyond = TRUE
  AllowNoSync = FALSE
  FixOOB = TRUE
  FixFirstRb = TRUE
  AllowCrash = FALSE
  FixJournalNoPS = TRUE
  FixModeOnOpen = TRUE
  AllowHoles = FALSE
  FixHoles = TRUE
  AllowFailCommit = FALSE
  FixFailedCommit = TRUE
  AllowFreeReuse = FALSE
  AllowFromWal = FALSE
  FixModeSwitch = TRUE
  AllowDropDB = FALSE
  AllowRetain = FALSE
  Emit = "idle"
VIEW view
INVARIANTS NoFault C04_Checksum C02_Image C02_Delta C02_Outcome C09_Chain CacheSound EmitInv
PROPERTIES C02_AtMostOne
CHECK_DEADLOCK FALSE
