SPECIFICATION Spec
CONSTANTS
  MaxTx = 4
  MaxFaults = 0
  MaxErrs = 0
  MaxFork = 2
  W = 2
  HwmLag = {0}
  AllowTouch = FALSE
  MidSyncFaults = FALSE
  SweepUsesHWM = TRUE
  HwmFromAnswer = FALSE
  ServiceChecks = TRUE
  RestoreOnAhead = TRUE
  RestoreOnMismatch = TRUE
  FixPosZero = FALSE
  ExcusePosZero = TRUE
  MaxCrash = 0
  RestoreRecovers = TRUE
  Emit = FALSE
VIEW view
INVARIANTS TypeOK ChainContig Progress RetentionSafe HwmAcked EmitInv
PROPERTIES PrefixPreserved AppendOnly UploadsOwnHistory AdoptProp RestoreAdopts
CHECK_DEADLOCK FALSE
