\* thorough: two leasers with every answer class; one script per explored edge
SPECIFICATION Spec
CONSTANTS
  Nodes = {"n1","n2"}
  MaxSess = 2
  Ops = {"acquire","acqx","renew","close","handoff","info"}
  Faults = {"err","lost","stale"}
  EnvActs = {"expire","delay"}
  UseCAS = FALSE
  Mut = "none"
  Emit = "edge"
VIEW view
INVARIANTS TypeOK OneLiveHolder LeaseHoldsKey LeaseOnlyWithKey ExpiredIsReported CloseDestroys HandoffExact
CHECK_DEADLOCK FALSE
