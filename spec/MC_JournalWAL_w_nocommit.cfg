SPECIFICATION Spec
CONSTANTS
  Part = "wal"
  Emit = FALSE
  Plans <- OnePlan
  Mutate = FALSE
  Rule = "sqlite"
  WN0 = 2
  WPages = {1, 2, 3}
  WCommits = {0, 2, 3}
  WHdrs <- WHdrsAll
  MaxFrames = 3
  MaxBad = 1
  Scan = "nocommit"
INVARIANTS ScanIsCommitted
CHECK_DEADLOCK FALSE
