\* DBLocks.tla: thorough: two internal writers, gated, emits for replay
SPECIFICATION Spec
CONSTANTS
  Clients = {"a", "b"}
  Internals = {"i", "j"}
  Mode = "rollback"
  ReadMarks = {}
  DbOpsInWal = FALSE
  WithSnapshot = FALSE
  CkptGate = TRUE
  SkipLock = "none"
  TxNoLock = FALSE
  WalGuard = TRUE
  WalOwnerTest = FALSE
  FlushAll = FALSE
  Exclude = {}
  Gated = TRUE
  EmitEdges = TRUE
VIEW view
INVARIANTS TypeOK NothingLost LockConsistent WriteSetHeld Exclusion NoBegin SnapshotExcluded EmitInv
PROPERTIES RefusedWhileWriting EnterOnlyWhenFree WritesInsideSection CkptNeverGrantedUnderForeignWrite WalWriteNeedsWriteLock SingleLockPosix
CHECK_DEADLOCK FALSE
