---- MODULE Halt ----
(***************************************************************************)
(* Write forwarding under a HALT lock (property C13).                      *)
(*                                                                         *)
(* Three nodes: P (first primary), R (the replica that takes the halt      *)
(* lock and writes), T (a third replica; becomes primary on a primary      *)
(* change).  One database.  A position is [t, c]: transaction id and an    *)
(* abstract checksum c = serial number of the commit that produced the     *)
(* state (two different histories never share a c; this is the Repl        *)
(* prototype's "checksum determines the image" with unique writes).        *)
(*                                                                         *)
(* One action per critical section / request handler of the code:          *)
(*   primary side  db.go AcquireHaltLock / ReleaseHaltLock /               *)
(*                 EnforceHaltLockExpiration, http/server.go handlePostHalt*)
(*                 handleDeleteHalt handlePostTx (WriteLTXFileAt +         *)
(*                 ApplyLTXNoLock), a local SQLite writer (begin, commit), *)
(*                 a checkpoint;                                           *)
(*   holder side   fuse/lock_node.go LockWait -> AcquireRemoteHaltLock     *)
(*                 (store lock, WaitPosExact), a transaction whose commit  *)
(*                 forwards the LTX file before finalising locally         *)
(*                 (CommitJournal / CommitWAL), Unlock/Flush ->            *)
(*                 ReleaseRemoteHaltLock (Unset locally, then DELETE);     *)
(*   stream        http/server.go streamDB/streamLTX + store.go            *)
(*                 processLTXStreamFrame as ONE step per frame (own-node   *)
(*                 skip, unset of the remote lock on a foreign frame,      *)
(*                 position check, apply), per-stream belief `bel`.        *)
(*                                                                         *)
(* Named deviations: the twelve SQLite locks are one mutex `wl` per node   *)
(* (C11/C12 own the details); an acquire that finds the write lock busy    *)
(* is the time-out outcome instead of a blocked call; the holder's         *)
(* transaction is one step (frames cannot interleave with it: the stream   *)
(* needs the holder's local write lock); the old primary is inert after a  *)
(* primary change; R learns the new primary in the same step.              *)
(*                                                                         *)
(* Constants select the code AS WRITTEN or a variant:                      *)
(*   TxHolderCheck FALSE = handlePostTx as written (TODOs: no holder check)*)
(*   UnsetFix      FALSE = processLTXStreamFrame as written: it calls      *)
(*                 UnsetRemoteHaltLock -> Recover -> AcquireWriteLock while*)
(*                 it already holds the write lock => the stream goroutine *)
(*                 never returns (`wedged`)                                *)
(*   CatchUpKeeps  TRUE = a frame up to the position the lock was granted  *)
(*                 at (catch-up of a lagging holder) does not clear the    *)
(*                 remote lock (repaired); FALSE = every foreign frame does*)
(*   GrantPins, IdemCheck, WaitPos, FwdFirst, ExpiryUnlocks  TRUE = as     *)
(*                 written; FALSE = a seeded mutation (relevance configs). *)
(***************************************************************************)
EXTENDS Integers, Sequences, FiniteSets, TLC, Json

CONSTANTS TxHolderCheck, UnsetFix, CatchUpKeeps, GrantPins, IdemCheck, WaitPos, FwdFirst, ExpiryUnlocks,
          MaxDrop,      \* 0 = the primary's application never unlinks the database; 1 = it may (LDrop)
          DropExcluded, \* TRUE = the unlink needs the database's write lock, which a granted halt lock pins (what the
                        \* property demands); FALSE = DB.Drop as written: no lock is taken, the drop is published at once
          MaxTx,       \* commits of any kind (bounds the checksum serial numbers)
          MaxFaults,   \* lost requests / lost responses / duplicated requests, together
          MaxHandles,  \* lock-file handles R opens (= distinct lock ids)
          MaxExpire, MaxPChange, MaxRogue, MaxBlock, MaxCkpt, MaxIdle,
          MaxSteps,    \* 0 = unbounded; otherwise script-level actions per behaviour
          Eager,       \* TRUE = stream deliveries take priority over script-level actions (replayable scripts)
          Emit         \* "none" | "end" (print the script of every distinct state with steps = MaxSteps) | "all"

Nodes == {"P", "R", "T"}
BogusId == 999
ZeroPos == [t |-> 0, c |-> 0]
InitPos == [t |-> 1, c |-> 0]
E0 == [t |-> 1, pre |-> 0, c |-> 0, node |-> "P", snap |-> TRUE]
NoHL == [id |-> 0, pos |-> ZeroPos]

VARIABLES
  primary,  \* "P" | "T"
  pos,      \* node -> position
  log,      \* node -> sequence of LTX files [t, pre, c, node, snap]
  wl,       \* node -> "free" | "halt" (pinned by the halt lock's guard set) | "lw" (local SQLite writer) | "stream" (wedged stream goroutine)
  halt,     \* node -> halt lock granted by that node (NoHL = none)          DB.haltLockAndGuard
  rlock,    \* R's DB.remoteHaltLock
  hid,      \* lock id of R's open lock-file handle (0 = none)               LockHandle.haltLockID
  hhas,     \* LockHandle.haltLock # nil
  rpc,      \* "idle" | "wait" (inside WaitPosExact)
  first,    \* the holder has not committed since its last successful acquire
  conn,     \* replica -> stream connected (FALSE = blocked: no primary info either)
  bel,      \* replica -> position the primary's stream believes the replica has
  dups,     \* delayed duplicate requests still in the network
  former,   \* lock ids that were granted once and are not current any more
  wedged,   \* R's stream goroutine is stuck for good
  ntx, nfault, nhandle, nexp, npc, nrogue, nblock, nckpt, nidle, steps,
  \* ---- what happened, for the invariants (set by the actions, never read by them) ----
  fLocal,    \* a local transaction committed on a node while that node's halt lock was granted
  fCkpt,     \* a checkpoint ran on a node while that node's halt lock was granted
  fFirstPre, \* the holder's first forwarded file did not start at lock.pos
  fAck,      \* a holder commit returned success although the primary does not have (t, c)
  fBad,      \* /tx accepted from a sender that is not the current holder
  fIdem,     \* a repeated acquire with the current id was not answered with the current lock
  fFormer,   \* /tx accepted with the id of a released / expired lock
  hist

cvars == <<ntx, nfault, nhandle, nexp, npc, nrogue, nblock, nckpt, nidle, steps>>
fvars == <<fLocal, fCkpt, fFirstPre, fAck, fBad, fIdem, fFormer>>
svars == <<primary, pos, log, wl, halt, rlock, hid, hhas, rpc, first, conn, bel, dups, former, wedged>>
vars  == <<svars, cvars, fvars, hist>>
view  == <<svars, cvars, fvars>>

Init ==
  /\ primary = "P"
  /\ pos = [n \in Nodes |-> InitPos]
  /\ log = [n \in Nodes |-> <<E0>>]
  /\ wl = [n \in Nodes |-> "free"]
  /\ halt = [n \in Nodes |-> NoHL]
  /\ rlock = NoHL /\ hid = 0 /\ hhas = FALSE /\ rpc = "idle" /\ first = FALSE
  /\ conn = [n \in {"R", "T"} |-> TRUE]
  /\ bel = [n \in {"R", "T"} |-> InitPos]
  /\ dups = {} /\ former = {} /\ wedged = FALSE
  /\ ntx = 0 /\ nfault = 0 /\ nhandle = 0 /\ nexp = 0 /\ npc = 0 /\ nrogue = 0 /\ nblock = 0 /\ nckpt = 0 /\ nidle = 0 /\ steps = 0
  /\ fLocal = FALSE /\ fCkpt = FALSE /\ fFirstPre = FALSE /\ fAck = FALSE /\ fBad = FALSE /\ fIdem = FALSE /\ fFormer = FALSE
  /\ hist = <<>>

HasLock(p) == halt[p].id # 0
Replicas == IF primary = "P" THEN {"R", "T"} ELSE {"R"}
PosOf(e) == [t |-> e.t, c |-> e.c]

(* ====================== request handlers on node p (each one critical section) ====================== *)

\* handlePostHalt -> AcquireHaltLock(id)
GrantEff(p, id) ==
  IF IdemCheck /\ HasLock(p) /\ halt[p].id = id
  THEN [ok |-> TRUE, lock |-> halt[p], halt |-> halt[p], wl |-> wl[p], old |-> 0]
  ELSE IF wl[p] = "free"
  THEN LET l == [id |-> id, pos |-> pos[p]] IN
       [ok |-> TRUE, lock |-> l, halt |-> l, wl |-> IF GrantPins THEN "halt" ELSE "free",
        old |-> IF HasLock(p) /\ halt[p].id # id THEN halt[p].id ELSE 0]
  ELSE [ok |-> FALSE, lock |-> NoHL, halt |-> halt[p], wl |-> wl[p], old |-> 0]   \* HaltAcquireTimeout

\* handleDeleteHalt -> ReleaseHaltLock(id)
ReleaseEff(p, id) ==
  IF HasLock(p) /\ halt[p].id = id
  THEN [halt |-> NoHL, wl |-> IF wl[p] = "halt" THEN "free" ELSE wl[p], old |-> id]
  ELSE [halt |-> halt[p], wl |-> wl[p], old |-> 0]

\* handlePostTx -> WriteLTXFileAt (position check) + ApplyLTXNoLock
TxEffS(p, ppos, plog, lid, e, sender) ==
  LET contig == e.t = ppos.t + 1 /\ e.pre = ppos.c
      cur    == HasLock(p) /\ halt[p].id = lid
      acc    == contig /\ (TxHolderCheck => cur)
  IN [acc |-> acc,
      pos |-> IF acc THEN PosOf(e) ELSE ppos,
      log |-> IF acc THEN Append(plog, e) ELSE plog,
      bad |-> acc /\ ~(cur /\ sender = "R"),
      fpub |-> acc /\ ~cur /\ lid \in former]
TxEff(p, lid, e, sender) == TxEffS(p, pos[p], log[p], lid, e, sender)

FormerPlus(old) == IF old = 0 THEN former ELSE former \cup {old}

(* ====================== history ====================== *)
Sum == [prim |-> primary, pp |-> pos["P"], pr |-> pos["R"], pt |-> pos["T"], hl |-> halt[primary].id,
        rl |-> rlock.id, hh |-> hhas, cr |-> conn["R"], ct |-> conn["T"], wd |-> wedged]
H(a, g, o) == /\ hist' = Append(hist, [a |-> a, g |-> g, o |-> o, s |-> Sum])
              /\ steps' = IF MaxSteps = 0 THEN steps ELSE steps + 1

(* ====================== the stream: one frame from the primary to replica n ====================== *)
EffBel(n) == LET cp == bel[n]  dp == pos[primary] IN
             IF cp.t > dp.t \/ (cp.t = dp.t /\ cp.c # dp.c) THEN ZeroPos ELSE cp
Files(p, t) == {i \in 1..Len(log[p]) : log[p][i].t = t /\ ~log[p][i].snap}
Frame(n) == LET p == primary  cp == EffBel(n)  F == Files(p, cp.t + 1) IN
            IF cp.t = 0 \/ F = {} \/ (\E i \in F : log[p][i].pre # cp.c)
            THEN [t |-> pos[p].t, pre |-> 0, c |-> pos[p].c, node |-> p, snap |-> TRUE]
            ELSE log[p][CHOOSE i \in F : TRUE]
\* does frame f end R's remote halt lock?  As repaired only a file beyond the position the lock was granted at
Clears(f) == ~CatchUpKeeps \/ f.t > rlock.pos.t \/ pos["R"].t >= rlock.pos.t
CanDeliver(n) == /\ n \in Replicas /\ conn[n] /\ wl[n] = "free"
                 /\ EffBel(n).t < pos[primary].t
\* the replica can never advance: the next file it needs is one it originated and therefore skips
Stuck(n) == /\ CanDeliver(n) /\ bel[n] = pos[n]
            /\ LET f == Frame(n) IN ~f.snap /\ f.node = n

Deliver(n) ==
  /\ CanDeliver(n)
  /\ LET f == Frame(n)  fp == PosOf(f) IN
     IF f.node = n
     THEN /\ bel' = [bel EXCEPT ![n] = fp]                               \* own frame: verified and discarded
          /\ UNCHANGED <<pos, log, rlock, wl, wedged, first>>
     ELSE IF n = "R" /\ rlock.id # 0 /\ ~UnsetFix /\ Clears(f)
     THEN /\ wedged' = TRUE /\ wl' = [wl EXCEPT !["R"] = "stream"]      \* self-deadlock inside UnsetRemoteHaltLock
          /\ UNCHANGED <<pos, log, rlock, bel, first>>
     ELSE /\ rlock' = IF n = "R" /\ Clears(f) THEN NoHL ELSE rlock      \* stale remote lock cleared
          /\ first' = IF n = "R" /\ rlock.id # 0 /\ Clears(f) THEN FALSE ELSE first
          /\ IF f.snap
             THEN /\ pos' = [pos EXCEPT ![n] = fp] /\ log' = [log EXCEPT ![n] = <<f>>]
                  /\ bel' = [bel EXCEPT ![n] = fp]
             ELSE IF pos[n] = [t |-> f.t - 1, c |-> f.pre]
             THEN /\ pos' = [pos EXCEPT ![n] = fp] /\ log' = [log EXCEPT ![n] = Append(@, f)]
                  /\ bel' = [bel EXCEPT ![n] = fp]
             ELSE /\ bel' = [bel EXCEPT ![n] = pos[n]]                   \* position mismatch: reconnect
                  /\ UNCHANGED <<pos, log>>
          /\ UNCHANGED <<wl, wedged>>
  /\ UNCHANGED <<primary, halt, hid, hhas, rpc, conn, dups, former, cvars, fvars, hist>>

\* WaitPosExact returns (internal continuation of LockWait)
AcqDone ==
  /\ rpc = "wait" /\ pos["R"] = rlock.pos /\ rlock.id # 0
  /\ rpc' = "idle" /\ hhas' = TRUE /\ first' = TRUE
  /\ UNCHANGED <<primary, pos, log, wl, halt, rlock, hid, conn, bel, dups, former, wedged, cvars, fvars, hist>>

Quiet == /\ \A n \in Replicas : ~CanDeliver(n) \/ Stuck(n)
         /\ ~(rpc = "wait" /\ pos["R"] = rlock.pos /\ rlock.id # 0)
Budget == MaxSteps = 0 \/ steps < MaxSteps
Go == Budget /\ (Eager => Quiet) /\ rpc = "idle"
\* Replay scripts (Eager) keep /tx away from a node whose local writer is open: as written the file is
\* then applied underneath that writer (C11's subject; observed on the real code: checksum mismatch in
\* ApplyLTXNoLock and Store.Exit(99) of the primary in rollback mode).  The exhaustive configurations
\* keep these interleavings.
NoTxUnderWriter(p) == Eager => wl[p] # "lw"

Faults == {"none", "reqlost", "resplost"}
FaultOK(f, d) == nfault + (IF f = "none" THEN 0 ELSE 1) + (IF d THEN 1 ELSE 0) <= MaxFaults
FaultInc(f, d) == nfault' = nfault + (IF f = "none" THEN 0 ELSE 1) + (IF d THEN 1 ELSE 0)

(* ====================== holder (R) ====================== *)

\* close + open("<db>-lock"): the application abandons its handle; the new one has a new random lock id
\* (the very first handle is opened by the first Acquire)
OpenHandle ==
  /\ Go /\ ~wedged /\ ~hhas /\ hid # 0 /\ nhandle < MaxHandles
  /\ nhandle' = nhandle + 1 /\ hid' = nhandle + 1
  /\ H("Open", [id |-> nhandle + 1], [res |-> "ok"])
  /\ UNCHANGED <<primary, pos, log, wl, halt, rlock, hhas, rpc, first, conn, bel, dups, former, wedged,
                 ntx, nfault, nexp, npc, nrogue, nblock, nckpt, nidle, fvars>>

\* fcntl(F_SETLKW, byte 72): LockHandle.LockWait -> AcquireRemoteHaltLock
Acquire(f, d) ==
  /\ Go /\ ~wedged /\ ~hhas /\ FaultOK(f, d) /\ (hid # 0 \/ nhandle < MaxHandles)
  /\ LET p == primary
         id == IF hid = 0 THEN nhandle + 1 ELSE hid
     IN
     /\ hid' = id /\ nhandle' = IF hid = 0 THEN nhandle + 1 ELSE nhandle
     /\ IF ~conn["R"]
        THEN /\ f = "none" /\ ~d                                  \* no primary info: fails before any request
             /\ H("Acquire", [f |-> f, d |-> d], [res |-> "noprimary", id |-> id, t |-> 0, c |-> 0])
             /\ UNCHANGED <<halt, wl, rlock, hhas, rpc, first, former, dups, nfault, fIdem>>
        ELSE LET g == IF f = "reqlost" THEN [ok |-> FALSE, lock |-> NoHL, halt |-> halt[p], wl |-> wl[p], old |-> 0]
                      ELSE GrantEff(p, id)
                 got == f = "none" /\ g.ok
                 same == got /\ (~WaitPos \/ pos["R"] = g.lock.pos)
             IN /\ halt' = [halt EXCEPT ![p] = g.halt] /\ wl' = [wl EXCEPT ![p] = g.wl]
                /\ former' = FormerPlus(g.old) \ {g.halt.id}
                /\ fIdem' = (fIdem \/ (f # "reqlost" /\ HasLock(p) /\ halt[p].id = id /\ (~g.ok \/ g.lock # halt[p])))
                /\ rlock' = IF got THEN g.lock ELSE rlock
                /\ hhas' = same /\ first' = (IF same THEN TRUE ELSE first)
                /\ rpc' = IF got /\ ~same THEN "wait" ELSE "idle"
                /\ dups' = IF d THEN dups \cup {[k |-> "halt", to |-> p, id |-> id, e |-> E0]} ELSE dups
                /\ FaultInc(f, d)
                /\ H("Acquire", [f |-> f, d |-> d],
                     [res |-> IF same THEN "ok" ELSE IF got THEN "wait" ELSE IF f = "none" THEN "busy" ELSE "err",
                      id |-> id, t |-> g.lock.pos.t, c |-> g.lock.pos.c])
  /\ UNCHANGED <<primary, pos, log, conn, bel, wedged, ntx, nexp, npc, nrogue, nblock, nckpt, nidle,
                 fLocal, fCkpt, fFirstPre, fAck, fBad, fFormer>>

\* The acquire request reaches the primary while a local writer's transaction is open (the deviation
\* "busy = time-out" above covers a writer that stays; this is the writer that finishes in time):
\* AcquireHaltLock waits for the write lock, the writer commits, the lock is granted at the position
\* AFTER that commit, the holder - caught up until then - waits for that position, the frame arrives,
\* finds DB.remoteHaltLock set and clears it (processLTXStreamFrame), WaitPosExact returns and LockWait
\* succeeds: the handle holds a lock the database no longer knows (the holder cannot write until it
\* acquires again).  One composite step: every part is a step the code takes without the script.
AcquireRace ==
  /\ Go /\ ~wedged /\ ~hhas /\ UnsetFix /\ WaitPos /\ (hid # 0 \/ nhandle < MaxHandles)
  /\ LET p == primary
         id == IF hid = 0 THEN nhandle + 1 ELSE hid
         e == [t |-> pos[p].t + 1, pre |-> pos[p].c, c |-> ntx + 1, node |-> p, snap |-> FALSE]
         l == [id |-> id, pos |-> PosOf(e)]
     IN /\ wl[p] = "lw" /\ ~HasLock(p) /\ ntx < MaxTx
        /\ conn["R"] /\ wl["R"] = "free" /\ pos["R"] = pos[p] /\ bel["R"] = pos["R"] /\ rlock.id = 0
        /\ hid' = id /\ nhandle' = IF hid = 0 THEN nhandle + 1 ELSE nhandle
        /\ pos' = [pos EXCEPT ![p] = PosOf(e), !["R"] = PosOf(e)]
        /\ log' = [log EXCEPT ![p] = Append(@, e), !["R"] = Append(@, e)]
        /\ bel' = [bel EXCEPT !["R"] = PosOf(e)]
        /\ halt' = [halt EXCEPT ![p] = l] /\ wl' = [wl EXCEPT ![p] = IF GrantPins THEN "halt" ELSE "free"]
        /\ former' = former \ {id}
        /\ hhas' = TRUE /\ first' = CatchUpKeeps /\ ntx' = ntx + 1
        /\ H("AcquireRace", [x |-> 0], [res |-> "ok", id |-> id, t |-> e.t, c |-> e.c])
        /\ rlock' = IF CatchUpKeeps THEN l ELSE NoHL
  /\ UNCHANGED <<primary, rpc, conn, dups, wedged, nfault, nexp, npc, nrogue, nblock, nckpt, nidle, fvars>>

\* WaitPosExact gives up (HaltAcquireTimeout or position exceeded): the deferred release goes to the
\* primary, DB.remoteHaltLock stays set, the handle holds nothing
AcqTimeout ==
  /\ Budget /\ rpc = "wait" /\ (Eager => Quiet)
  /\ LET p == primary  r == ReleaseEff(p, rlock.id) IN
     /\ halt' = [halt EXCEPT ![p] = r.halt] /\ wl' = [wl EXCEPT ![p] = r.wl]
     /\ former' = FormerPlus(r.old)
  /\ rpc' = "idle"
  /\ H("AcqTimeout", [x |-> 0], [res |-> "waitfail"])
  /\ UNCHANGED <<primary, pos, log, rlock, hid, hhas, first, conn, bel, dups, wedged,
                 ntx, nfault, nhandle, nexp, npc, nrogue, nblock, nckpt, nidle, fvars>>

\* one write transaction of the application on R; its commit forwards the LTX file first
RTx(f, d) ==
  /\ Go /\ ntx < MaxTx /\ FaultOK(f, d)
  /\ (wedged \/ rlock.id = 0 \/ ~conn["R"] \/ NoTxUnderWriter(primary))
  /\ LET p == primary
         e == [t |-> pos["R"].t + 1, pre |-> pos["R"].c, c |-> ntx + 1, node |-> "R", snap |-> FALSE]
     IN
     IF wedged
     THEN /\ f = "none" /\ ~d /\ nidle < MaxIdle /\ nidle' = nidle + 1
          \* the stuck stream goroutine owns R's write lock: SQLITE_BUSY at BEGIN
          /\ H("RTx", [f |-> f, d |-> d], [res |-> "busy", t |-> 0, c |-> 0, acc |-> FALSE, rb |-> FALSE])
          /\ UNCHANGED <<pos, log, first, dups, ntx, nfault, fFirstPre, fAck, fBad, fFormer>>
     ELSE IF rlock.id = 0
     THEN /\ f = "none" /\ ~d /\ nidle < MaxIdle /\ nidle' = nidle + 1       \* not writeable: read-only replica
          /\ H("RTx", [f |-> f, d |-> d], [res |-> "ro", t |-> 0, c |-> 0, acc |-> FALSE, rb |-> FALSE])
          /\ UNCHANGED <<pos, log, first, dups, ntx, nfault, fFirstPre, fAck, fBad, fFormer>>
     ELSE IF ~conn["R"]
     THEN /\ f = "none" /\ ~d        \* "no primary available for remote transaction"
          /\ LET fin == ~FwdFirst IN
             /\ (fin \/ nidle < MaxIdle) /\ nidle' = IF fin THEN nidle ELSE nidle + 1
             /\ pos' = IF fin THEN [pos EXCEPT !["R"] = PosOf(e)] ELSE pos
             /\ log' = IF fin THEN [log EXCEPT !["R"] = Append(@, e)] ELSE log
             /\ fAck' = (fAck \/ fin)
             /\ ntx' = IF fin THEN ntx + 1 ELSE ntx
             /\ H("RTx", [f |-> f, d |-> d], [res |-> IF fin THEN "ok" ELSE "refused", t |-> e.t, c |-> e.c, acc |-> FALSE, rb |-> FALSE])
          /\ UNCHANGED <<first, dups, nfault, fFirstPre, fBad, fFormer>>
     ELSE LET x == IF f = "reqlost" THEN [acc |-> FALSE, pos |-> pos[p], log |-> log[p], bad |-> FALSE, fpub |-> FALSE]
                   ELSE TxEff(p, rlock.id, e, "R")
              okc == (f = "none" /\ x.acc) \/ ~FwdFirst          \* Client.Commit returned nil (or its error is ignored)
              \* a failed commit makes SQLite roll back; finalising the journal of the rollback is again a
              \* commit to LiteFS (same pages as before: post = pre) and is forwarded again, without fault
              e2 == [t |-> e.t, pre |-> e.pre, c |-> e.pre, node |-> "R", snap |-> FALSE]
              y == IF okc THEN [acc |-> FALSE, pos |-> x.pos, log |-> x.log, bad |-> FALSE, fpub |-> FALSE]
                   ELSE TxEffS(p, x.pos, x.log, rlock.id, e2, "R")
              mine == IF okc THEN e ELSE e2
              fin == okc \/ y.acc
          IN /\ pos' = [pos EXCEPT ![p] = y.pos, !["R"] = IF fin THEN PosOf(mine) ELSE @]
             /\ log' = [log EXCEPT ![p] = y.log, !["R"] = IF fin THEN Append(@, mine) ELSE @]
             /\ fBad' = (fBad \/ x.bad \/ y.bad) /\ fFormer' = (fFormer \/ x.fpub \/ y.fpub)
             /\ fAck' = (fAck \/ (okc /\ ~x.acc))
             /\ fFirstPre' = (fFirstPre \/ (first /\ hhas /\ [t |-> e.t - 1, c |-> e.pre] # rlock.pos))
             /\ first' = FALSE
             /\ ntx' = ntx + 1
             /\ dups' = IF d THEN dups \cup {[k |-> "tx", to |-> p, id |-> rlock.id, e |-> e]} ELSE dups
             /\ FaultInc(f, d) /\ UNCHANGED nidle
             /\ H("RTx", [f |-> f, d |-> d], [res |-> IF okc THEN "ok" ELSE "refused", t |-> e.t, c |-> e.c, acc |-> x.acc, rb |-> y.acc])
  /\ UNCHANGED <<primary, wl, halt, rlock, hid, hhas, rpc, conn, bel, former, wedged,
                 nhandle, nexp, npc, nrogue, nblock, nckpt, fLocal, fCkpt, fIdem>>

\* fcntl(F_UNLCK) / close: LockHandle.Unlock|Flush -> ReleaseRemoteHaltLock
Release(f, d) ==
  /\ Go /\ hid # 0 /\ FaultOK(f, d)
  /\ LET p == primary IN
     IF ~hhas
     THEN /\ f = "none" /\ ~d /\ nidle < MaxIdle      \* handle holds nothing: no-op
          /\ nidle' = nidle + 1
          /\ H("Release", [f |-> f, d |-> d], [res |-> "noop"])
          /\ UNCHANGED <<halt, wl, rlock, hhas, first, former, dups, nfault>>
     ELSE IF wedged
     THEN /\ f = "none" /\ ~d       \* Recover cannot get the write lock: the call ends only with its context
          /\ hhas' = FALSE
          /\ H("Release", [f |-> f, d |-> d], [res |-> "hang"])
          /\ UNCHANGED <<halt, wl, rlock, first, former, dups, nfault, nidle>>
     ELSE IF ~conn["R"]
     THEN /\ f = "none" /\ ~d       \* unset locally, "no primary available to release remote halt lock"
          /\ rlock' = IF rlock.id = hid THEN NoHL ELSE rlock
          /\ hhas' = FALSE /\ first' = FALSE
          /\ H("Release", [f |-> f, d |-> d], [res |-> "noprimary"])
          /\ UNCHANGED <<halt, wl, former, dups, nfault, nidle>>
     ELSE LET r == IF f = "reqlost" THEN [halt |-> halt[p], wl |-> wl[p], old |-> 0] ELSE ReleaseEff(p, hid) IN
          /\ rlock' = IF rlock.id = hid THEN NoHL ELSE rlock
          /\ hhas' = FALSE /\ first' = FALSE
          /\ halt' = [halt EXCEPT ![p] = r.halt] /\ wl' = [wl EXCEPT ![p] = r.wl]
          /\ former' = FormerPlus(r.old)
          /\ dups' = IF d THEN dups \cup {[k |-> "unhalt", to |-> p, id |-> hid, e |-> E0]} ELSE dups
          /\ FaultInc(f, d) /\ UNCHANGED nidle
          /\ H("Release", [f |-> f, d |-> d], [res |-> IF f = "none" THEN "ok" ELSE "err"])
  /\ UNCHANGED <<primary, pos, log, hid, rpc, conn, bel, wedged, ntx, nhandle, nexp, npc, nrogue, nblock, nckpt, fvars>>

(* ====================== primary: local writer, checkpoint, expiry ====================== *)

LWBegin ==
  /\ Go
  /\ LET p == primary IN
     IF wl[p] = "free"
     THEN /\ wl' = [wl EXCEPT ![p] = "lw"] /\ nidle' = nidle
          /\ H("LWBegin", [x |-> 0], [res |-> "ok"])
     ELSE /\ nidle < MaxIdle /\ nidle' = nidle + 1 /\ wl[p] # "lw" /\ UNCHANGED wl
          /\ H("LWBegin", [x |-> 0], [res |-> "busy"])
  /\ UNCHANGED <<primary, pos, log, halt, rlock, hid, hhas, rpc, first, conn, bel, dups, former, wedged,
                 ntx, nfault, nhandle, nexp, npc, nrogue, nblock, nckpt, fvars>>

LWCommit ==
  /\ Go /\ wl[primary] = "lw" /\ ntx < MaxTx
  /\ LET p == primary
         e == [t |-> pos[p].t + 1, pre |-> pos[p].c, c |-> ntx + 1, node |-> p, snap |-> FALSE]
     IN /\ pos' = [pos EXCEPT ![p] = PosOf(e)] /\ log' = [log EXCEPT ![p] = Append(@, e)]
        /\ wl' = [wl EXCEPT ![p] = "free"] /\ ntx' = ntx + 1
        /\ fLocal' = (fLocal \/ HasLock(p))
        /\ H("LWCommit", [x |-> 0], [res |-> "ok", t |-> e.t, c |-> e.c])
  /\ UNCHANGED <<primary, halt, rlock, hid, hhas, rpc, first, conn, bel, dups, former, wedged,
                 nfault, nhandle, nexp, npc, nrogue, nblock, nckpt, nidle, fCkpt, fFirstPre, fAck, fBad, fIdem, fFormer>>

\* the primary's application unlinks the database (RootNode.Remove -> DB.Drop): a local transaction - the position
\* advances by one (C15) - and so one of the things a granted halt lock must keep out
LDrop ==
  /\ Go /\ MaxDrop > 0 /\ ntx < MaxTx
  /\ LET p == primary
         e == [t |-> pos[p].t + 1, pre |-> pos[p].c, c |-> ntx + 1, node |-> p, snap |-> FALSE]
     IN IF wl[p] = "free" \/ ~DropExcluded
        THEN /\ pos' = [pos EXCEPT ![p] = PosOf(e)] /\ log' = [log EXCEPT ![p] = Append(@, e)]
             /\ ntx' = ntx + 1 /\ nidle' = nidle
             /\ fLocal' = (fLocal \/ HasLock(p))
             /\ H("LDrop", [x |-> 0], [res |-> "ok", t |-> e.t, c |-> e.c])
        ELSE /\ nidle < MaxIdle /\ nidle' = nidle + 1
             /\ UNCHANGED <<pos, log, ntx, fLocal>>
             /\ H("LDrop", [x |-> 0], [res |-> "busy"])
  /\ UNCHANGED <<primary, wl, halt, rlock, hid, hhas, rpc, first, conn, bel, dups, former, wedged,
                 nfault, nhandle, nexp, npc, nrogue, nblock, nckpt, fCkpt, fFirstPre, fAck, fBad, fIdem, fFormer>>

\* a checkpoint on the primary (client checkpoint in WAL mode, DB.Checkpoint/Recover otherwise): needs the write lock
Ckpt ==
  /\ Go /\ nckpt < MaxCkpt
  /\ LET p == primary IN
     /\ fCkpt' = (fCkpt \/ (wl[p] = "free" /\ HasLock(p)))
     /\ H("Ckpt", [x |-> 0], [res |-> IF wl[p] = "free" THEN "ok" ELSE "busy"])
  /\ nckpt' = nckpt + 1
  /\ UNCHANGED <<svars, ntx, nfault, nhandle, nexp, npc, nrogue, nblock, nidle, fLocal, fFirstPre, fAck, fBad, fIdem, fFormer>>

\* Store.EnforceHaltLockExpiration with an overdue lock
Expire ==
  /\ Go /\ nexp < MaxExpire
  /\ \E p \in {"P", "T"} :
       /\ HasLock(p)
       /\ halt' = [halt EXCEPT ![p] = NoHL]
       /\ wl' = [wl EXCEPT ![p] = IF wl[p] = "halt" /\ ExpiryUnlocks THEN "free" ELSE @]
       /\ former' = former \cup {halt[p].id}
       /\ H("Expire", [n |-> p], [res |-> "ok"])
  /\ nexp' = nexp + 1
  /\ UNCHANGED <<primary, pos, log, rlock, hid, hhas, rpc, first, conn, bel, dups, wedged,
                 ntx, nfault, nhandle, npc, nrogue, nblock, nckpt, nidle, fvars>>

(* ====================== environment: rogue sender, duplicates, connectivity, primary change ====================== *)

\* a well-formed contiguous LTX file posted to /tx by somebody who is not the current holder
Rogue(lid) ==
  /\ Go /\ nrogue < MaxRogue /\ ntx < MaxTx /\ NoTxUnderWriter(primary)
  /\ lid \in ({BogusId} \cup former) \ {halt[primary].id}
  /\ LET p == primary
         e == [t |-> pos[p].t + 1, pre |-> pos[p].c, c |-> ntx + 1, node |-> "X", snap |-> FALSE]
         x == TxEff(p, lid, e, "X")
     IN /\ pos' = [pos EXCEPT ![p] = x.pos] /\ log' = [log EXCEPT ![p] = x.log]
        /\ fBad' = (fBad \/ x.bad) /\ fFormer' = (fFormer \/ x.fpub)
        /\ H("Rogue", [kind |-> IF lid = BogusId THEN "bogus" ELSE "former", lid |-> lid],
             [res |-> IF x.acc THEN "ok" ELSE "refused", t |-> e.t, c |-> e.c, acc |-> x.acc, held |-> HasLock(p)])
  /\ ntx' = ntx + 1 /\ nrogue' = nrogue + 1
  /\ UNCHANGED <<primary, wl, halt, rlock, hid, hhas, rpc, first, conn, bel, dups, former, wedged,
                 nfault, nhandle, nexp, npc, nblock, nckpt, nidle, fLocal, fCkpt, fFirstPre, fAck, fIdem>>

\* a duplicated request reaches its addressee late; nobody waits for the answer
Dup ==
  /\ Go
  /\ \E m \in dups :
       /\ (m.k = "tx" => NoTxUnderWriter(m.to))
       /\ dups' = dups \ {m}
       /\ LET p == m.to IN
          CASE m.k = "halt" ->
                 LET g == GrantEff(p, m.id) IN
                 /\ halt' = [halt EXCEPT ![p] = g.halt] /\ wl' = [wl EXCEPT ![p] = g.wl]
                 /\ former' = FormerPlus(g.old) \ {g.halt.id}
                 /\ fIdem' = (fIdem \/ (HasLock(p) /\ halt[p].id = m.id /\ (~g.ok \/ g.lock # halt[p])))
                 /\ H("Dup", [k |-> m.k, id |-> m.id], [res |-> IF g.ok THEN "ok" ELSE "busy", t |-> g.lock.pos.t, c |-> g.lock.pos.c, acc |-> FALSE])
                 /\ UNCHANGED <<pos, log, fBad, fFormer>>
            [] m.k = "unhalt" ->
                 LET r == ReleaseEff(p, m.id) IN
                 /\ halt' = [halt EXCEPT ![p] = r.halt] /\ wl' = [wl EXCEPT ![p] = r.wl]
                 /\ former' = FormerPlus(r.old)
                 /\ H("Dup", [k |-> m.k, id |-> m.id], [res |-> "ok", t |-> 0, c |-> 0, acc |-> FALSE])
                 /\ UNCHANGED <<pos, log, fBad, fFormer, fIdem>>
            [] m.k = "tx" ->
                 LET x == TxEff(p, m.id, m.e, "R") IN
                 /\ pos' = [pos EXCEPT ![p] = x.pos] /\ log' = [log EXCEPT ![p] = x.log]
                 /\ fBad' = (fBad \/ x.bad) /\ fFormer' = (fFormer \/ x.fpub)
                 /\ H("Dup", [k |-> m.k, id |-> m.id], [res |-> IF x.acc THEN "ok" ELSE "refused", t |-> m.e.t, c |-> m.e.c, acc |-> x.acc])
                 /\ UNCHANGED <<halt, wl, former, fIdem>>
  /\ UNCHANGED <<primary, rlock, hid, hhas, rpc, first, conn, bel, wedged,
                 ntx, nfault, nhandle, nexp, npc, nrogue, nblock, nckpt, nidle, fLocal, fCkpt, fFirstPre, fAck>>

Block(n) ==
  /\ Go /\ ~wedged /\ n \in Replicas /\ conn[n] /\ nblock < MaxBlock
  /\ conn' = [conn EXCEPT ![n] = FALSE] /\ nblock' = nblock + 1
  /\ H("Block", [n |-> n], [res |-> "ok"])
  /\ UNCHANGED <<primary, pos, log, wl, halt, rlock, hid, hhas, rpc, first, bel, dups, former, wedged,
                 ntx, nfault, nhandle, nexp, npc, nrogue, nckpt, nidle, fvars>>

Unblock(n) ==
  /\ Budget /\ (Eager => Quiet) /\ n \in Replicas /\ ~conn[n]
  /\ conn' = [conn EXCEPT ![n] = TRUE] /\ bel' = [bel EXCEPT ![n] = pos[n]]
  /\ H("Unblock", [n |-> n], [res |-> "ok"])
  /\ UNCHANGED <<primary, pos, log, wl, halt, rlock, hid, hhas, rpc, first, dups, former, wedged,
                 ntx, nfault, nhandle, nexp, npc, nrogue, nblock, nckpt, nidle, fvars>>

\* P loses the lease, T takes it; R reconnects to T (its remote lock is NOT cleared); P keeps its halt lock
PChange ==
  /\ Go /\ ~wedged /\ primary = "P" /\ npc < MaxPChange /\ wl["P"] # "lw" /\ conn["R"] /\ conn["T"]
  /\ primary' = "T" /\ npc' = npc + 1
  /\ bel' = [bel EXCEPT !["R"] = pos["R"]]
  /\ H("PChange", [x |-> 0], [res |-> "ok"])
  /\ UNCHANGED <<pos, log, wl, halt, rlock, hid, hhas, rpc, first, conn, dups, former, wedged,
                 ntx, nfault, nhandle, nexp, nrogue, nblock, nckpt, nidle, fvars>>

Next ==
  \/ \E n \in {"R", "T"} : Deliver(n)
  \/ AcqDone
  \/ OpenHandle
  \/ \E f \in Faults, d \in BOOLEAN : Acquire(f, d) \/ RTx(f, d) \/ Release(f, d)
  \/ AcqTimeout \/ AcquireRace
  \/ LWBegin \/ LWCommit \/ LDrop \/ Ckpt \/ Expire
  \/ \E lid \in {BogusId} \cup former : Rogue(lid)
  \/ Dup
  \/ \E n \in {"R", "T"} : Block(n) \/ Unblock(n)
  \/ PChange

Spec == Init /\ [][Next]_vars

(* ====================== the property, clause by clause ====================== *)

\* "from the moment the primary grants ... until released or expires, the primary commits no local
\*  transaction and runs no checkpoint"
Exclusive == ~fLocal /\ ~fCkpt
\* structural form of the same clause: a granted lock pins the write lock of the granting node
HaltPins == \A p \in Nodes : HasLock(p) => wl[p] = "halt"
\* "the replica starts writing from exactly the primary's position"
StartsAtLockPos == ~fFirstPre
\* "every transaction the replica commits is applied on the primary under the same ID and checksum
\*  before the replica's commit returns"
AckedIsOnPrimary == ~fAck
\* "... then reaches every other replica": T never leaves the primary's history, and whenever it is
\* behind and connected a frame for it exists (progress is then a matter of fairness only)
OnChain(n, p) == \E i \in 1..Len(log[p]) : PosOf(log[p][i]) = pos[n]
ReachesThird == primary = "P" => /\ OnChain("T", "P")
                                 /\ (conn["T"] /\ pos["T"] # pos["P"] => CanDeliver("T") /\ ~Stuck("T"))
\* "accepts a forwarded transaction only from the current holder"
OnlyFromHolder == ~fBad
\* "repeated acquire requests with the same lock ID return the same lock"
SameIdSameLock == ~fIdem
\* "when the lock is released or expires the primary can write again and the former holder can no longer publish"
WritableAgain == \A p \in Nodes : ~HasLock(p) => wl[p] # "halt"
FormerCannotPublish == ~fFormer
\* the holder is never left with a stuck replication stream (mechanism "stale halt cleared on incoming frame")
NoWedge == ~wedged
\* lead (outside C13's clauses): the holder can always catch up again
NoStuck == \A n \in {"R", "T"} : ~Stuck(n)

TypeOK == /\ primary \in {"P", "T"} /\ rpc \in {"idle", "wait"}
          /\ \A n \in Nodes : wl[n] \in {"free", "halt", "lw", "stream"}

(* ====================== emission of replay scripts ====================== *)
EmitInv == (/\ Emit # "none" /\ hist # <<>>
            /\ (Emit = "all" \/ (MaxSteps > 0 /\ steps = MaxSteps))
            /\ Quiet /\ rpc = "idle")
           => PrintT("TRACE " \o ToJson([h |-> hist, end |-> Sum]))
====
