SPECIFICATION Spec
CONSTANTS
  ValidateFirst = FALSE
  CheckPageSize = FALSE
  Emit = FALSE
INVARIANTS Atomic EmitCase
CHECK_DEADLOCK FALSE
