\* thorough tier: repaired variant, two message faults, two lock handles
SPECIFICATION Spec
CONSTANTS
  TxHolderCheck = TRUE
  UnsetFix = TRUE
  CatchUpKeeps = TRUE
  GrantPins = TRUE
  IdemCheck = TRUE
  WaitPos = TRUE
  FwdFirst = TRUE
  MaxDrop = 0
  DropExcluded = TRUE
  ExpiryUnlocks = TRUE
  MaxTx = 3
  MaxFaults = 2
  MaxHandles = 2
  MaxExpire = 1
  MaxPChange = 0
  MaxRogue = 0
  MaxBlock = 0
  MaxCkpt = 1
  MaxIdle = 1
  MaxSteps = 0
  Eager = FALSE
  Emit = "none"
VIEW view
INVARIANTS TypeOK Exclusive HaltPins StartsAtLockPos AckedIsOnPrimary ReachesThird OnlyFromHolder SameIdSameLock WritableAgain FormerCannotPublish NoWedge
CHECK_DEADLOCK FALSE
