\* DBLocks.tla: RELEVANCE: CKPT gate removed => CkptNeverGrantedUnderForeignWrite must be violated
SPECIFICATION Spec
CONSTANTS
  Clients = {"a", "b"}
  Internals = {"i"}
  Mode = "wal"
  ReadMarks = {2}
  DbOpsInWal = FALSE
  WithSnapshot = FALSE
  CkptGate = FALSE
  SkipLock = "none"
  TxNoLock = FALSE
  WalGuard = TRUE
  WalOwnerTest = FALSE
  FlushAll = FALSE
  Exclude = {"DmsW", "RecovW", "RecovU"}
  Gated = FALSE
  EmitEdges = FALSE
VIEW view
INVARIANTS TypeOK
PROPERTIES CkptNeverGrantedUnderForeignWrite
CHECK_DEADLOCK FALSE
