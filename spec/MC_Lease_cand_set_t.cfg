\* thorough tier: as the quick configuration with scripts of 9 calls (second tenure reachable)
SPECIFICATION Spec
CONSTANTS
  Candidate = TRUE
  LocalInit = "A"
  TTL = 300
  MaxCalls = 9
  MaxStim = 1
  Stim = {"demote", "ho1", "ho1x", "ho9"}
  StimAnywhere = FALSE
  Focus = "all"
  Mute = "never"
  CheckAfterAcquire = FALSE
  Mut = "none"
  Emit = "edge"
VIEW view
INVARIANTS TypeOK PrimaryOnlyInTenure CtxFollowsLease StopsAfterLeaseLost ClosedUnlessHandedOff NonCandidateNeverAcquires OwnClusterAcquire OwnClusterStream HandoffOnlyToRequested
CHECK_DEADLOCK FALSE
