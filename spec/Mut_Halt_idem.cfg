\* relevance: IdemCheck = FALSE (seeded mutation) must violate SameIdSameLock
SPECIFICATION Spec
CONSTANTS
  TxHolderCheck = TRUE
  UnsetFix = TRUE
  CatchUpKeeps = TRUE
  GrantPins = TRUE
  IdemCheck = FALSE
  WaitPos = TRUE
  FwdFirst = TRUE
  MaxDrop = 0
  DropExcluded = TRUE
  ExpiryUnlocks = TRUE
  MaxTx = 2
  MaxFaults = 1
  MaxHandles = 1
  MaxExpire = 1
  MaxPChange = 0
  MaxRogue = 0
  MaxBlock = 0
  MaxCkpt = 1
  MaxIdle = 1
  MaxSteps = 0
  Eager = FALSE
  Emit = "none"
VIEW view
INVARIANTS SameIdSameLock
CHECK_DEADLOCK FALSE
