---- MODULE MultiDB ----
(***************************************************************************)
(* Replication of SEVERAL databases from one primary ("n1") to two         *)
(* replicas: "n2" streams with a database filter (Store.DatabaseFilter ->  *)
(* `filter=` of POST /stream), "n3" without one (C01, quantifier part      *)
(* "several databases ... database filters").                              *)
(*                                                                         *)
(* What is modelled, and where it is in the code:                          *)
(*  - http/server.go handlePostStream: the per-connection position map     *)
(*    (bel), the loop "restrict the dirty set to the filter; streamDB for  *)
(*    every name in it (Go map order = free order between databases);      *)
(*    wait for a change notification; dirty set := subscription's set".    *)
(*    Initial dirty set = names in the replica's position map plus every   *)
(*    local database.  The subscription exists before the map is read, so  *)
(*    no notification is lost (pend).                                      *)
(*  - streamDB: a name the primary's store lacks yields a DropDB frame and *)
(*    the map entry is deleted; otherwise loop { four-way comparison of    *)
(*    the believed position with db.Pos(); next file or snapshot } until   *)
(*    caught up.  A database is streamed to the end before the next name   *)
(*    is looked at (cur).                                                  *)
(*  - store.go monitorLeaseAsReplica / processLTXStreamFrame: frames are   *)
(*    taken in the order sent (one HTTP/2 stream: inflight is a queue);    *)
(*    an LTX frame creates the database if absent (no filter test on the   *)
(*    replica side), a snapshot replaces, a file is applied only on the    *)
(*    exact position it extends (otherwise the stream is given up); a      *)
(*    DropDB frame is logged and IGNORED ("deprecated").                   *)
(*  - db.go Drop: a drop is a transaction (t+1, empty checksum); the       *)
(*    database stays in the primary's store map, so the only names a       *)
(*    primary can lack are names a replica brought from elsewhere          *)
(*    (Orphan: the replica was a primary once and created a database that  *)
(*    never reached n1).                                                   *)
(*                                                                         *)
(* A checksum is modelled as the identity of the image (collision-free):   *)
(* [d |-> database, v |-> number of the commit that produced it]; v is     *)
(* unique over ALL databases, as the bytes the harness writes are.         *)
(*                                                                         *)
(* Control actions (Orphan, Commit, Drop, Block, Unblock, Restart, Sweep)  *)
(* are what the harness scripts on the real cluster; Connect / Send / Take *)
(* / Deliver are what the real goroutines do on their own.                 *)
(***************************************************************************)
EXTENDS Integers, Sequences, FiniteSets, TLC, Json

CONSTANTS DBs,               \* database names (strings)
          Reps,              \* replicas in this configuration: subset of {"n2", "n3"}. The primary does not depend
                             \* on its replicas and every property is per replica, so the one-replica
                             \* configurations decide the same properties with larger budgets
          Filter,            \* the filter of replica n2 (non-empty subset of DBs); n3 has none
          MaxTx,             \* budget of commits + drops on the primary
          MaxFaults,         \* budget of Block / Restart / Sweep
          MaxOrphans,        \* budget of orphan databases seeded on replicas before the run
          OrphanTx,          \* set of TXIDs an orphan may stand at (e.g. {1, 2})
          AllowDrop, AllowSweep, AllowRestart,
          FilterEveryRound,  \* TRUE as coded: the filter restricts the dirty set in EVERY round of the loop
          DropFrameFiltered, \* TRUE as coded: a DropDB frame is only sent for names that pass the filter
          OwnEntry,          \* TRUE as coded: streamDB(name) reads the position-map entry of `name`
          ChkCompare,        \* TRUE as coded: equal TXID but different checksum clears the believed position
          ApplyDropFrame,    \* FALSE as coded: the replica ignores DropDB frames
          Wire,              \* frames the stream can hold between server and replica (flow-control window)
          Emit               \* "none" | "final"

P == "n1"
R == Reps
FilterOf(r) == IF r = "n2" THEN Filter ELSE {}
Passes(r, d) == FilterOf(r) = {} \/ d \in FilterOf(r)
Restrict(r, S) == IF FilterOf(r) = {} THEN S ELSE S \cap FilterOf(r)

Z == [d |-> "", v |-> 0]        \* never written: checksum 0, no pages
E == [d |-> "", v |-> -1]       \* dropped: the empty checksum, no pages
ZeroPos == [t |-> 0, c |-> Z]
None == ""
Other(d) == CHOOSE e \in DBs : e # d

VARIABLES started,
          pex, ppos, pimg, plog,          \* primary: in the store map, position, image, transaction files
          prst,                           \* the primary has been restarted (nothing durable changes; kept in the
                                          \* view so that Restart(n1) is not merged with the restart of a replica)
          has, pos, img, foreign,         \* replicas: in the store map, position, image, seeded orphan position
          blocked, conn,
          gap,                            \* per replica: the primary committed or dropped something while the replica was
                                          \* blocked. Changes no action; kept in the view so that a script with a
                                          \* Block..Unblock window is not merged with the shorter one that restarts the replica
          bel, dirty, pend, cur, inflight, \* per stream (server side + the wire)
          txCount, faults, orphans, committed, hist

vars == <<started, pex, ppos, pimg, plog, prst, has, pos, img, foreign, blocked, conn, gap, bel, dirty, pend, cur, inflight, txCount, faults, orphans, committed, hist>>
view == <<started, pex, ppos, pimg, plog, prst, has, pos, img, foreign, blocked, conn, gap, bel, dirty, pend, cur, inflight, txCount, faults, orphans, committed>>

Init ==
  /\ started = FALSE
  /\ pex = [d \in DBs |-> FALSE]
  /\ ppos = [d \in DBs |-> ZeroPos]
  /\ pimg = [d \in DBs |-> Z]
  /\ plog = [d \in DBs |-> <<>>]
  /\ prst = FALSE
  /\ has = [r \in R |-> [d \in DBs |-> FALSE]]
  /\ pos = [r \in R |-> [d \in DBs |-> ZeroPos]]
  /\ img = [r \in R |-> [d \in DBs |-> Z]]
  /\ foreign = [r \in R |-> [d \in DBs |-> ZeroPos]]
  /\ blocked = [r \in R |-> FALSE]
  /\ conn = [r \in R |-> FALSE]
  /\ gap = [r \in R |-> FALSE]
  /\ bel = [r \in R |-> [d \in DBs |-> ZeroPos]]
  /\ dirty = [r \in R |-> {}]
  /\ pend = [r \in R |-> {}]
  /\ cur = [r \in R |-> None]
  /\ inflight = [r \in R |-> <<>>]
  /\ txCount = 0 /\ faults = 0 /\ orphans = 0
  /\ committed = [d \in DBs |-> {ZeroPos}]
  /\ hist = <<>>

H(a, args) == hist' = Append(hist, [a |-> a, g |-> args])
NoH == UNCHANGED hist

primaryVars == <<pex, ppos, pimg, plog, prst>>
replicaVars == <<has, pos, img, foreign>>
Away == gap' = [r \in R |-> gap[r] \/ blocked[r]]
streamVars == <<bel, dirty, pend, cur, inflight>>

\* the stream of replica r ends: everything the server kept for it and everything on the wire is gone
CutStream(S) ==
  /\ conn' = [r \in R |-> IF r \in S THEN FALSE ELSE conn[r]]
  /\ dirty' = [r \in R |-> IF r \in S THEN {} ELSE dirty[r]]
  /\ pend' = [r \in R |-> IF r \in S THEN {} ELSE pend[r]]
  /\ cur' = [r \in R |-> IF r \in S THEN None ELSE cur[r]]
  /\ inflight' = [r \in R |-> IF r \in S THEN <<>> ELSE inflight[r]]
  /\ UNCHANGED bel

(* ---------------- control actions (scripted on the real cluster) ---------------- *)
\* before the run: replica r was a primary once and created database d that n1 never saw
Orphan(r, d, k) ==
  /\ ~started /\ orphans < MaxOrphans /\ ~has[r][d] /\ k \in OrphanTx
  /\ LET p == [t |-> k, c |-> [d |-> d, v |-> 100 + orphans]] IN
     /\ has' = [has EXCEPT ![r][d] = TRUE]
     /\ pos' = [pos EXCEPT ![r][d] = p]
     /\ img' = [img EXCEPT ![r][d] = p.c]
     /\ foreign' = [foreign EXCEPT ![r][d] = p]
  /\ orphans' = orphans + 1
  /\ UNCHANGED <<started, primaryVars, blocked, gap, conn, streamVars, txCount, faults, committed>>
  /\ H("Orphan", [n |-> r, db |-> d, k |-> k, v |-> 100 + orphans])

Start ==
  /\ ~started /\ started' = TRUE
  /\ UNCHANGED <<primaryVars, replicaVars, blocked, gap, conn, streamVars, txCount, faults, orphans, committed>>
  /\ NoH

Notify(d) == pend' = [r \in R |-> IF conn[r] THEN pend[r] \cup {d} ELSE pend[r]]   \* Store.markDirty: every subscriber

\* a transaction on database d (creates the database if the primary does not have it, continues the
\* TXID sequence of a dropped one)
Commit(d) ==
  /\ started /\ txCount < MaxTx
  /\ LET v == txCount + 1
         ni == [d |-> d, v |-> v]
         f == [t |-> ppos[d].t + 1, pre |-> ppos[d].c, post |-> ni]
     IN /\ pex' = [pex EXCEPT ![d] = TRUE]
        /\ pimg' = [pimg EXCEPT ![d] = ni]
        /\ ppos' = [ppos EXCEPT ![d] = [t |-> f.t, c |-> ni]]
        /\ plog' = [plog EXCEPT ![d] = Append(@, f)]
        /\ committed' = [committed EXCEPT ![d] = @ \cup {[t |-> f.t, c |-> ni]}]
        /\ txCount' = txCount + 1
        /\ Notify(d)
        /\ Away
        /\ UNCHANGED <<started, prst, replicaVars, blocked, conn, bel, dirty, cur, inflight, faults, orphans>>
        /\ H("Commit", [db |-> d, v |-> v])

\* deleting a database is a transaction with the empty checksum; the primary remembers the database
Drop(d) ==
  /\ started /\ AllowDrop /\ txCount < MaxTx /\ pex[d] /\ pimg[d].v > 0
  /\ LET f == [t |-> ppos[d].t + 1, pre |-> ppos[d].c, post |-> E]
     IN /\ pimg' = [pimg EXCEPT ![d] = E]
        /\ ppos' = [ppos EXCEPT ![d] = [t |-> f.t, c |-> E]]
        /\ plog' = [plog EXCEPT ![d] = Append(@, f)]
        /\ committed' = [committed EXCEPT ![d] = @ \cup {[t |-> f.t, c |-> E]}]
  /\ txCount' = txCount + 1
  /\ Notify(d)
  /\ Away
  /\ UNCHANGED <<started, pex, prst, replicaVars, blocked, conn, bel, dirty, cur, inflight, faults, orphans>>
  /\ H("Drop", [db |-> d])

Block(r) ==
  /\ started /\ ~blocked[r] /\ faults < MaxFaults
  /\ blocked' = [blocked EXCEPT ![r] = TRUE]
  /\ CutStream({r})
  /\ faults' = faults + 1
  /\ UNCHANGED <<started, primaryVars, replicaVars, gap, txCount, orphans, committed>>
  /\ H("Block", [n |-> r])

Unblock(r) ==
  /\ blocked[r]
  /\ blocked' = [blocked EXCEPT ![r] = FALSE]
  /\ UNCHANGED <<started, primaryVars, replicaVars, gap, conn, streamVars, txCount, faults, orphans, committed>>
  /\ H("Unblock", [n |-> r])

\* process restart of a replica or of the primary: streams are lost, durable state is kept
Restart(n) ==
  /\ started /\ AllowRestart /\ faults < MaxFaults
  /\ CutStream(IF n = P THEN R ELSE {n})
  /\ faults' = faults + 1
  /\ prst' = (prst \/ n = P)
  /\ UNCHANGED <<started, pex, ppos, pimg, plog, replicaVars, blocked, gap, txCount, orphans, committed>>
  /\ H("Restart", [n |-> n])

\* retention sweep on the primary keeps only the newest file of a database
Sweep(d) ==
  /\ started /\ AllowSweep /\ faults < MaxFaults /\ Len(plog[d]) > 1
  /\ plog' = [plog EXCEPT ![d] = <<@[Len(@)]>>]
  /\ faults' = faults + 1
  /\ UNCHANGED <<started, pex, ppos, pimg, prst, replicaVars, blocked, gap, conn, streamVars, txCount, orphans, committed>>
  /\ H("Sweep", [db |-> d])

(* ---------------- what the nodes do on their own ---------------- *)
\* POST /stream: the request carries Store.PosMap() and the filter; the handler subscribes, reads the
\* map and builds the initial dirty set
Connect(r) ==
  /\ started /\ ~conn[r] /\ ~blocked[r]
  /\ conn' = [conn EXCEPT ![r] = TRUE]
  /\ bel' = [bel EXCEPT ![r] = [d \in DBs |-> IF has[r][d] THEN pos[r][d] ELSE ZeroPos]]
  /\ LET all == {d \in DBs : has[r][d] \/ pex[d]}
         leak == IF DropFrameFiltered THEN {} ELSE {d \in DBs : has[r][d] /\ ~pex[d]}
     IN dirty' = [dirty EXCEPT ![r] = Restrict(r, all) \cup leak]
  /\ pend' = [pend EXCEPT ![r] = {}]
  /\ cur' = [cur EXCEPT ![r] = None]
  /\ inflight' = [inflight EXCEPT ![r] = <<>>]
  /\ UNCHANGED <<started, primaryVars, replicaVars, blocked, gap, txCount, faults, orphans, committed>>
  /\ NoH

FileAt(d, t) == {i \in 1..Len(plog[d]) : plog[d][i].t = t}

\* one iteration of streamDB(d) for the stream of replica r
Send(r, d) ==
  /\ conn[r] /\ d \in dirty[r] /\ (cur[r] = None \/ cur[r] = d) /\ Len(inflight[r]) < Wire
  /\ IF ~pex[d]
     THEN \* the primary does not have this database: DropDB frame, forget the entry
          /\ inflight' = [inflight EXCEPT ![r] = Append(@, [k |-> "drop", d |-> d, snap |-> FALSE, t |-> 0, pre |-> Z, post |-> Z])]
          /\ bel' = [bel EXCEPT ![r][d] = ZeroPos]
          /\ dirty' = [dirty EXCEPT ![r] = @ \ {d}]
          /\ cur' = [cur EXCEPT ![r] = None]
     ELSE LET dp == ppos[d]
              cp0 == IF OwnEntry THEN bel[r][d] ELSE bel[r][Other(d)]
              cp == IF cp0.t > dp.t \/ (ChkCompare /\ cp0.t = dp.t /\ cp0.c # dp.c) THEN ZeroPos ELSE cp0
              nxt == cp.t + 1
              F == FileAt(d, nxt)
          IN IF cp.t >= dp.t
             THEN \* caught up: streamDB returns
                  /\ dirty' = [dirty EXCEPT ![r] = @ \ {d}]
                  /\ cur' = [cur EXCEPT ![r] = None]
                  /\ UNCHANGED <<bel, inflight>>
             ELSE /\ cur' = [cur EXCEPT ![r] = d]
                  /\ UNCHANGED dirty
                  /\ IF nxt = 1 \/ F = {} \/ (\E i \in F : plog[d][i].pre # cp.c)
                     THEN /\ inflight' = [inflight EXCEPT ![r] = Append(@, [k |-> "ltx", d |-> d, snap |-> TRUE, t |-> dp.t, pre |-> Z, post |-> pimg[d]])]
                          /\ bel' = [bel EXCEPT ![r][d] = dp]
                     ELSE LET f == plog[d][CHOOSE i \in F : TRUE] IN
                          /\ inflight' = [inflight EXCEPT ![r] = Append(@, [k |-> "ltx", d |-> d, snap |-> FALSE, t |-> f.t, pre |-> f.pre, post |-> f.post])]
                          /\ bel' = [bel EXCEPT ![r][d] = [t |-> f.t, c |-> f.post]]
  /\ UNCHANGED <<started, primaryVars, replicaVars, blocked, gap, conn, pend, txCount, faults, orphans, committed>>
  /\ NoH

\* the round is over; a change notification wakes the loop: dirty set := subscription.DirtySet()
Take(r) ==
  /\ conn[r] /\ dirty[r] = {} /\ pend[r] # {}
  /\ dirty' = [dirty EXCEPT ![r] = IF FilterEveryRound THEN Restrict(r, pend[r]) ELSE pend[r]]
  /\ pend' = [pend EXCEPT ![r] = {}]
  /\ UNCHANGED <<started, primaryVars, replicaVars, blocked, gap, conn, bel, cur, inflight, txCount, faults, orphans, committed>>
  /\ NoH

\* the replica takes the next frame off the stream
Deliver(r) ==
  /\ conn[r] /\ inflight[r] # <<>>
  /\ LET f == Head(inflight[r]) IN
     IF f.k = "drop"
     THEN /\ IF ApplyDropFrame
             THEN /\ has' = [has EXCEPT ![r][f.d] = FALSE]
                  /\ pos' = [pos EXCEPT ![r][f.d] = ZeroPos]
                  /\ img' = [img EXCEPT ![r][f.d] = Z]
             ELSE UNCHANGED <<has, pos, img>>
          /\ inflight' = [inflight EXCEPT ![r] = Tail(@)]
          /\ UNCHANGED <<conn, dirty, pend, cur, bel>>
     ELSE IF f.snap \/ pos[r][f.d] = [t |-> f.t - 1, c |-> f.pre]
     THEN /\ has' = [has EXCEPT ![r][f.d] = TRUE]              \* CreateDBIfNotExists
          \* a snapshot replaces the image; a file is a delta: on any other image than the one it was cut
          \* from it yields garbage
          /\ img' = [img EXCEPT ![r][f.d] = IF f.snap \/ @ = f.pre THEN f.post ELSE [d |-> "corrupt", v |-> -2]]
          /\ pos' = [pos EXCEPT ![r][f.d] = [t |-> f.t, c |-> f.post]]
          /\ inflight' = [inflight EXCEPT ![r] = Tail(@)]
          /\ UNCHANGED <<conn, dirty, pend, cur, bel>>
     ELSE \* position mismatch: the replica gives the stream up (the database has been created, though)
          /\ has' = [has EXCEPT ![r][f.d] = TRUE]
          /\ UNCHANGED <<pos, img>>
          /\ CutStream({r})
  /\ UNCHANGED <<started, primaryVars, foreign, blocked, gap, txCount, faults, orphans, committed>>
  /\ NoH

Control == \/ \E r \in R, d \in DBs, k \in OrphanTx : Orphan(r, d, k)
           \/ \E d \in DBs : Commit(d) \/ Drop(d) \/ Sweep(d)
           \/ \E r \in R : Block(r) \/ Unblock(r)
           \/ \E n \in R \cup {P} : Restart(n)
Auto == \/ Start
        \/ \E r \in R : Connect(r) \/ Take(r) \/ Deliver(r)
        \/ \E r \in R, d \in DBs : Send(r, d)
Next == Control \/ Auto
Spec == Init /\ [][Next]_vars
Fair == /\ WF_vars(Start)
        /\ \A r \in R : WF_vars(Connect(r)) /\ WF_vars(Take(r)) /\ WF_vars(Deliver(r)) /\ WF_vars(Unblock(r))
        /\ \A r \in R, d \in DBs : WF_vars(Send(r, d))
LiveSpec == Spec /\ Fair

(* ---------------- properties ---------------- *)
\* C01: the image a replica holds of a database is the image of the position it reports for it
ChkIsImage == \A r \in R, d \in DBs : pos[r][d].c = img[r][d]
\* C01: every position a replica reports for a database is one the primary committed FOR THAT DATABASE
\* (or the untouched position of a database it brought along)
OnHistory == \A r \in R, d \in DBs : pos[r][d] \in committed[d] \/ pos[r][d] = foreign[r][d]
\* filter: a replica with a filter never creates or advances a database outside its filter ...
FilterRespected == \A r \in R, d \in DBs : ~Passes(r, d) => (pos[r][d] = foreign[r][d] /\ has[r][d] = (foreign[r][d] # ZeroPos))
\* ... and no frame that names such a database is ever put on its stream
NoFrameOutsideFilter == \A r \in R : \A i \in 1..Len(inflight[r]) : Passes(r, inflight[r][i].d)
Quiescent(r) == conn[r] /\ inflight[r] = <<>> /\ dirty[r] = {} /\ pend[r] = {}
ConvergedOn(r, d) ==
  IF Passes(r, d) /\ pex[d] /\ ppos[d].t > 0
  THEN has[r][d] /\ pos[r][d] = ppos[d]
  ELSE IF ApplyDropFrame /\ Passes(r, d) /\ ~pex[d] THEN ~has[r][d]
  ELSE pos[r][d] = foreign[r][d]
Converged(r) == \A d \in DBs : ConvergedOn(r, d)
\* convergence as an 'at quiescence' invariant: a connected replica whose stream has nothing left to do
\* holds every database that passes its filter at the primary's position (incl. drops and re-creations)
QuiescentConverged == \A r \in R : Quiescent(r) => Converged(r)
\* a database dropped on the primary (possibly while the replica was away) is dropped on the replica
\* iff it passes the filter
DropFollows == \A r \in R, d \in DBs : (Quiescent(r) /\ pex[d] /\ ppos[d].c = E)
                  => IF Passes(r, d) THEN (pos[r][d] = ppos[d] /\ img[r][d] = E) ELSE pos[r][d] = foreign[r][d]
\* liveness: once control actions stop every replica converges on every database (weak fairness of
\* connect / send / take / deliver / unblock)
EventuallyConverged == <>[](\A r \in R : Converged(r))

\* emission of control scripts: the control actions of every distinct final state, with the model's
\* prediction of the converged state
Pred == [p |-> [d \in DBs |-> [ex |-> pex[d], t |-> ppos[d].t, empty |-> (ppos[d].c = E)]],
         r |-> [r \in R |-> [d \in DBs |->
                   IF Passes(r, d) /\ pex[d] /\ ppos[d].t > 0 THEN [held |-> TRUE, t |-> ppos[d].t, src |-> "primary"]
                   ELSE [held |-> (foreign[r][d] # ZeroPos), t |-> foreign[r][d].t, src |-> "own"]]]]
\* (only at states in which every stream is idle or cut: every control script reaches one, and the
\* output stays small)
EmitInv == (Emit = "final" /\ started /\ txCount = MaxTx /\ faults = MaxFaults /\ hist # <<>>
            /\ \A r \in R : Quiescent(r) \/ (~conn[r] /\ blocked[r]))
           => PrintT("SCRIPT " \o ToJson([h |-> hist, filter |-> Filter, pred |-> Pred]))
====
