SPECIFICATION Spec
CONSTANTS
  Reps = {"n2","n3"}
  DBs = {"a","b","c"}
  Filter = {"a","b"}
  MaxTx = 3
  MaxFaults = 1
  MaxOrphans = 0
  OrphanTx = {1}
  AllowDrop = TRUE
  AllowSweep = TRUE
  AllowRestart = TRUE
  FilterEveryRound = TRUE
  DropFrameFiltered = TRUE
  OwnEntry = TRUE
  ChkCompare = TRUE
  ApplyDropFrame = FALSE
  Wire = 2
  Emit = "none"
VIEW view
INVARIANTS ChkIsImage OnHistory FilterRespected NoFrameOutsideFilter QuiescentConverged DropFollows EmitInv

CHECK_DEADLOCK FALSE
