\* C18 relevance: chunk.Reader modelled exactly as coded (io.EOF of io.ReadFull passed on). TLC must report ChunkPrefixRejected violated (counterexample: Write(3), Close, Cut(2 cells), Read -> "eof").
SPECIFICATION Spec
CONSTANTS
  MaxPayload = 7
  Limit = 3
  ReadSizes = {1, 2, 3, 4}
  Splits = {1, 2, 99}
  FixChunkEOF = FALSE
  StrLens = {0, 1, 255, 70000}
  IntVals = {"zero", "one", "maxu64", "maxi64", "neg"}
  PosEntries <- Entries5
  MaxEntries = 3
  RFAMax = 3
  Parts = {"chunk"}
  Emit = FALSE
VIEW view
INVARIANTS TypeOK WriterShape ChunkRoundTrip ChunkPrefixRejected ChunkNoExtra ChunkCompleteOK FrameOK PosOK RFAOK
PROPERTIES ReadProgress
CHECK_DEADLOCK FALSE
