\* C18 relevance: frames are assembled in a shared buffer that only a successful write drains. TLC must report StreamIsItsFrames violated (a write to stream 1 fails after k bytes, the next write to stream 2 starts with the rest of that frame)
SPECIFICATION SSpec
CONSTANTS
  Streams = {1, 2}
  MaxWrites = 3
  MaxFaults = 1
  Pooled = TRUE
  EmitS = FALSE
  MaxPayload = 1
  Limit = 3
  ReadSizes = {1}
  Splits = {99}
  FixChunkEOF = TRUE
  StrLens = {0, 255}
  IntVals = {"maxu64"}
  PosEntries <- Entries5
  MaxEntries = 0
  RFAMax = 0
  Parts = {}
  Emit = FALSE
VIEW sview
INVARIANTS StreamIsItsFrames FailedIsProperPrefix HealthyStreamReadsBack
PROPERTIES WriteIsLocal
CHECK_DEADLOCK FALSE
