SPECIFICATION Spec
CONSTANTS
  MaxPg = 3
  Ops = {"restore"}
  MaxCrash = 2
  WalTxs = 3
  StreamRenameFirst = TRUE
  SnapRenameFirst = TRUE
  RestoreRenameFirst = TRUE
  PagesBeforeTrunc = TRUE
  CkptWalLast = TRUE
  RollbackRmLast = TRUE
  DropRenameFirst = TRUE
  OpenSyncsWal = TRUE
  OpenRollsBack = TRUE
  OpenCheckpoints = TRUE
  OpenReapplies = TRUE
  Emit = TRUE
VIEW view
INVARIANTS EmitInv
CHECK_DEADLOCK FALSE
