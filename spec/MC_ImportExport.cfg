SPECIFICATION Spec
CONSTANTS
  ValidateFirst = TRUE
  CheckPageSize = TRUE
  Emit = TRUE
INVARIANTS Atomic EmitCase
CHECK_DEADLOCK FALSE
