\* relevance: guard dropped (neverClose); TLC must find ClosedUnlessHandedOff violated
SPECIFICATION Spec
CONSTANTS
  Candidate = TRUE
  LocalInit = "A"
  TTL = 300
  MaxCalls = 7
  MaxStim = 1
  Stim = {"demote", "ho1", "ho1x", "ho9"}
  StimAnywhere = FALSE
  Focus = "all"
  Mute = "never"
  CheckAfterAcquire = FALSE
  Mut = "neverClose"
  Emit = "none"
VIEW view
INVARIANTS ClosedUnlessHandedOff
CHECK_DEADLOCK FALSE
