SPECIFICATION Spec
CONSTANTS
  EmitEdges = TRUE
  MaxReq = 2
  Mut = "none"
VIEW view
INVARIANTS TypeOK StateSane
PROPERTIES InvalidChangesNothing ReadOnlyChangesNothing OnlyPrimaryChanges
CHECK_DEADLOCK FALSE
