SPECIFICATION Spec
CONSTANTS
  MaxTx = 3
  MaxFaults = 1
  MaxErrs = 1
  MaxFork = 2
  W = 2
  HwmLag = {0, 1}
  AllowTouch = TRUE
  MidSyncFaults = TRUE
  SweepUsesHWM = TRUE
  HwmFromAnswer = TRUE
  ServiceChecks = TRUE
  RestoreOnAhead = TRUE
  RestoreOnMismatch = TRUE
  FixPosZero = FALSE
  ExcusePosZero = TRUE
  MaxCrash = 0
  RestoreRecovers = TRUE
  Emit = FALSE
VIEW view
INVARIANTS TypeOK ChainContig Progress RetentionSafe HwmAcked EmitInv
PROPERTIES PrefixPreserved AppendOnly UploadsOwnHistory AdoptProp RestoreAdopts
CHECK_DEADLOCK FALSE
