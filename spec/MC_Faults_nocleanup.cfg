SPECIFICATION Spec
CONSTANTS
  UndoOnFailure = TRUE
  CleanupOnFailure = FALSE
  ReportFailure = TRUE
  Emit = FALSE
INVARIANTS Clean EmitCase
CHECK_DEADLOCK FALSE
