---- MODULE Proxy ----
(***************************************************************************)
(* The application proxy of LiteFS (http/proxy_server.go) handling ONE     *)
(* request on ONE node while replication goes on around it.                *)
(*                                                                         *)
(* One action per decision point / loop iteration of the Go code:          *)
(*   Classify   serveHTTP: passthrough?, health endpoint?, read / non-read,*)
(*              always-forward override                                    *)
(*   Health     serveGetHealth (lag above / below MaxLag)                  *)
(*   Read       serveRead up to the loop: cookie lookup + ParseTXID,       *)
(*              "txid == 0", "db == nil"                                   *)
(*   Check      one evaluation of `db.Pos().TXID >= txid`                  *)
(*   Tick / Timeout   the select{} of the loop (ticker.C / ctx.Done())     *)
(*   NonRead    serveNonRead: first look of PrimaryInfoWithContext         *)
(*   PLook / PTimeout  its polling loop (ticker / ctx.Done())              *)
(*   Forward    proxyToTarget: the request reaches the application         *)
(*   AppHandle  the application runs (on a primary it may commit)          *)
(*   Respond    proxyToTarget after RoundTrip: cookie from db.Pos()        *)
(* Environment: Apply (replica applies the next transaction), OtherCommit  *)
(* (another client commits on the primary), LearnPrimary (a node without a *)
(* known primary finds one).                                               *)
(*                                                                         *)
(* Positions are TXIDs 0..MaxPos of the tracked database; 0 <=> the        *)
(* tracked database does not exist on this node.  Paths and cookie values  *)
(* are CLASSES (which patterns match; absent / malformed / TXID t), not    *)
(* strings.  The property classes ReadReq / WriteReq are stated            *)
(* independently of the algorithm's own classification.                    *)
(*                                                                         *)
(* Deviations from the code that are named, not hidden:                    *)
(*  - the application answers after it has finished writing (a handler that*)
(*    flushes headers and commits afterwards is outside the model);        *)
(*  - a node's role only changes noprimary -> replica during a request;    *)
(*  - RoundTrip failures (502) are not modelled: the application is up.    *)
(***************************************************************************)
EXTENDS Integers, Sequences, FiniteSets, TLC, Json

CONSTANTS MaxPos,   \* highest TXID
          Methods,  \* subset of {"GET","HEAD","OPTIONS","POST","PUT","DELETE","PATCH"}
          Paths,    \* subset of {"plain","pt","af","both","health","healthpt","healthaf"}
          Mut,      \* "none", or the guard that is deliberately broken (relevance configurations only)
          Emit      \* TRUE: print one CASE line per distinct terminal state (replayed on the real ProxyServer)

VARIABLES role,   \* "primary" | "replica" (primary known) | "noprimary"
          dbx,    \* the tracked database exists on this node
          pos,    \* its TXID (0 iff ~dbx)
          src,    \* TXID of the primary's copy (what a replica can still receive)
          req,    \* [m |-> method, p |-> path class, c |-> cookie [k, t]]
          pc,     \* control point
          ro, pt, \* serveHTTP's isReadOnly, and the passthrough flag handed to proxyToTarget
          txid,   \* serveRead's parsed cookie
          obs,    \* what the handler looked at (needed to replay the schedule): see Init
          app,    \* what the application saw and did
          out,    \* the response
          init,   \* the node state when the request arrived (constant along a behaviour)
          hist    \* action names from Init (history, hidden by VIEW)

vars == <<role, dbx, pos, src, req, pc, ro, pt, txid, obs, app, out, init, hist>>
view == <<role, dbx, pos, src, req, pc, ro, pt, txid, obs, app, out, init>>

ReadMethods  == {"GET", "HEAD"}
WriteMethods == {"POST", "PUT", "DELETE", "PATCH"}

Cookies == {[k |-> "absent", t |-> 0], [k |-> "malformed", t |-> 0]} \cup {[k |-> "wf", t |-> n] : n \in 0..(MaxPos + 1)}

(* which configured patterns a path class matches; the health endpoint is the fixed path /litefs/health *)
PtMatch(p)  == p \in {"pt", "both", "healthpt"}
AfMatch(p)  == p \in {"af", "both", "healthaf"}
IsHealth(p) == p \in {"health", "healthpt", "healthaf"}

(* ---------------- the property's own request classes (C19) ---------------- *)
\* the proxy's own endpoint is neither a read nor a write of the application
OwnEndpoint(r) == r.m = "GET" /\ IsHealth(r.p) /\ ~PtMatch(r.p)
\* a read: GET/HEAD that the configuration neither exempts (passthrough) nor declares a write (always-forward)
ReadReq(r)  == r.m \in ReadMethods /\ ~PtMatch(r.p) /\ ~AfMatch(r.p) /\ ~OwnEndpoint(r)
\* a write that the configuration does not exempt: a modifying method, or a path declared always-forward
WriteReq(r) == /\ ~PtMatch(r.p) /\ ~OwnEndpoint(r)
               /\ (r.m \in WriteMethods \/ (r.m \in ReadMethods /\ AfMatch(r.p)))
WellFormed(r) == r.c.k = "wf"

NoOut == [kind |-> "none", status |-> 0, cookie |-> -1]
NoApp == [got |-> FALSE, pos |-> 0, dbx |-> FALSE, w |-> 0, wpos |-> 0]

Init ==
  /\ role \in {"primary", "replica", "noprimary"}
  /\ dbx \in BOOLEAN
  /\ pos \in 0..MaxPos /\ (dbx <=> pos >= 1)
  /\ src \in 0..MaxPos
  /\ (role = "primary" => src = pos)
  /\ (role # "primary" => src >= pos /\ (~dbx => src = 0))
  /\ req \in [m : Methods, p : Paths, c : Cookies]
  /\ pc = "classify" /\ ro = FALSE /\ pt = FALSE /\ txid = 0
  /\ obs = [parr |-> pos,     \* position when serveRead looked the database up
            dbxl |-> dbx,     \* whether it existed then
            pdec |-> pos,     \* position seen by the last Check
            look |-> "none",  \* role seen by the last PrimaryInfo look
            pfw  |-> 0,       \* position when the request was handed to the application
            lag  |-> FALSE]   \* health: lag above MaxLag
  /\ app = NoApp /\ out = NoOut
  /\ init = [role |-> role, dbx |-> dbx, pos |-> pos, src |-> src]
  /\ hist = <<>>

H(name) == hist' = Append(hist, name)

(* ------------------------------ serveHTTP ------------------------------ *)
IsReadMethod(m) == m \in ReadMethods \/ (Mut = "patch_read" /\ m = "PATCH")

Classify ==
  /\ pc = "classify"
  /\ IF PtMatch(req.p)
     THEN pc' = "fwd" /\ pt' = TRUE /\ ro' = ro
     ELSE IF req.m = "GET" /\ IsHealth(req.p)
     THEN pc' = "health" /\ UNCHANGED <<pt, ro>>
     ELSE LET r == IsReadMethod(req.m) /\ ~(AfMatch(req.p) /\ Mut # "no_always_forward")
          IN ro' = r /\ pt' = FALSE /\ pc' = IF r THEN "read" ELSE "nonread"
  /\ UNCHANGED <<role, dbx, pos, src, req, txid, obs, app, out, init>>
  /\ H("Classify")

Health ==
  /\ pc = "health"
  /\ \E lag \in BOOLEAN :
       /\ (role = "primary" => ~lag)          \* Store.Lag() is 0 on a primary
       /\ obs' = [obs EXCEPT !.lag = lag]
       /\ out' = [kind |-> "health", status |-> IF lag THEN 503 ELSE 200, cookie |-> -1]
  /\ pc' = "done"
  /\ UNCHANGED <<role, dbx, pos, src, req, ro, pt, txid, app, init>>
  /\ H("Health")

(* ------------------------------ serveRead ------------------------------ *)
ParseTXID(c) == IF c.k = "wf" THEN c.t ELSE 0     \* absent cookie / ParseTXID error => 0

Read ==
  /\ pc = "read"
  /\ txid' = ParseTXID(req.c)
  /\ obs' = [obs EXCEPT !.parr = pos, !.dbxl = dbx, !.pdec = pos]
  /\ pc' = IF txid' = 0 \/ ~dbx THEN "fwd" ELSE "check"
  /\ UNCHANGED <<role, dbx, pos, src, req, ro, pt, app, out, init>>
  /\ H("Read")

Reached == IF Mut = "gt" THEN pos > txid ELSE IF Mut = "off_by_one" THEN pos + 1 >= txid ELSE pos >= txid

Check ==
  /\ pc = "check"
  /\ obs' = [obs EXCEPT !.pdec = pos]
  /\ pc' = IF Reached THEN "fwd" ELSE "select"
  /\ UNCHANGED <<role, dbx, pos, src, req, ro, pt, txid, app, out, init>>
  /\ H("Check")

Tick ==
  /\ pc = "select" /\ pc' = "check"
  /\ UNCHANGED <<role, dbx, pos, src, req, ro, pt, txid, obs, app, out, init>>
  /\ H("Tick")

Timeout ==
  /\ pc = "select"
  /\ IF Mut = "fwd_on_timeout"
     THEN pc' = "fwd" /\ out' = out
     ELSE pc' = "done" /\ out' = [kind |-> "e504", status |-> 504, cookie |-> -1]
  /\ UNCHANGED <<role, dbx, pos, src, req, ro, pt, txid, obs, app, init>>
  /\ H("Timeout")

(* ----------------------------- serveNonRead ---------------------------- *)
Look(from) ==
  /\ pc = from
  /\ obs' = [obs EXCEPT !.look = role]
  /\ CASE role = "primary" \/ Mut = "no_replica_guard" -> pc' = "fwd" /\ out' = out
       [] role = "replica" /\ Mut # "no_replica_guard" ->
            pc' = "done" /\ out' = [kind |-> "redirect", status |-> 200, cookie |-> -1]
       [] OTHER -> pc' = "pwait" /\ out' = out
  /\ UNCHANGED <<role, dbx, pos, src, req, ro, pt, txid, app, init>>

NonRead == Look("nonread") /\ H("NonRead")
\* a poll that still sees no primary changes nothing: only the polls that see one are steps
PLook   == role # "noprimary" /\ Look("pwait") /\ H("PLook")

PTimeout ==
  /\ pc = "pwait"
  /\ pc' = "done" /\ out' = [kind |-> "e503", status |-> 503, cookie |-> -1]
  /\ UNCHANGED <<role, dbx, pos, src, req, ro, pt, txid, obs, app, init>>
  /\ H("PTimeout")

(* ----------------------------- proxyToTarget --------------------------- *)
Forward ==
  /\ pc = "fwd"
  /\ app' = [got |-> TRUE, pos |-> pos, dbx |-> dbx, w |-> 0, wpos |-> 0]
  /\ obs' = [obs EXCEPT !.pfw = pos]
  /\ pc' = "app"
  /\ UNCHANGED <<role, dbx, pos, src, req, ro, pt, txid, out, init>>
  /\ H("Forward")

\* the application: on a primary a modifying request (or one on a path the operator declared a write)
\* may commit one transaction (creating the database if need be) before it answers
AppMayWrite == role = "primary" /\ (req.m \in WriteMethods \/ req.p \in {"af", "both"})

AppHandle ==
  /\ pc = "app"
  /\ \E w \in 0..1 :
       /\ (w = 1 => AppMayWrite /\ pos < MaxPos)
       /\ pos' = pos + w /\ src' = IF role = "primary" THEN pos + w ELSE src
       /\ dbx' = (dbx \/ w = 1)
       /\ app' = [app EXCEPT !.w = w, !.wpos = IF w = 1 THEN pos + 1 ELSE 0]
  /\ pc' = "resp"
  /\ UNCHANGED <<role, req, ro, pt, txid, obs, out, init>>
  /\ H("AppHandle")

Respond ==
  /\ pc = "resp"
  /\ LET issue == ~pt /\ req.m \notin ReadMethods /\ dbx       \* isWriteRequest is by method only
         c     == IF Mut = "cookie_before" THEN obs.pfw ELSE pos
     IN out' = [kind |-> "fwd", status |-> 200, cookie |-> IF issue THEN c ELSE -1]
  /\ pc' = "done"
  /\ UNCHANGED <<role, dbx, pos, src, req, ro, pt, txid, obs, app, init>>
  /\ H("Respond")

(* ------------------------------ environment ---------------------------- *)
Waiting == pc \in {"check", "select", "pwait"}

Apply ==
  /\ Waiting \/ pc = "fwd"
  /\ role = "replica" /\ dbx /\ pos < src
  /\ pos' = pos + 1
  /\ UNCHANGED <<role, dbx, src, req, pc, ro, pt, txid, obs, app, out, init>>
  /\ H("Apply")

OtherCommit ==
  /\ Waiting \/ pc \in {"fwd", "resp"}
  /\ role = "primary" /\ dbx /\ pos < MaxPos
  /\ pos' = pos + 1 /\ src' = pos + 1
  /\ UNCHANGED <<role, dbx, req, pc, ro, pt, txid, obs, app, out, init>>
  /\ H("OtherCommit")

LearnPrimary ==
  /\ Waiting
  /\ role = "noprimary" /\ role' = "replica"
  /\ UNCHANGED <<dbx, pos, src, req, pc, ro, pt, txid, obs, app, out, init>>
  /\ H("LearnPrimary")

Next == \/ Classify \/ Health \/ Read \/ Check \/ Tick \/ Timeout
        \/ NonRead \/ PLook \/ PTimeout \/ Forward \/ AppHandle \/ Respond
        \/ Apply \/ OtherCommit \/ LearnPrimary

Spec == Init /\ [][Next]_vars

(* ------------------------------ properties ----------------------------- *)
TypeOK ==
  /\ role \in {"primary", "replica", "noprimary"}
  /\ dbx \in BOOLEAN /\ pos \in 0..MaxPos /\ (dbx <=> pos >= 1) /\ src \in 0..MaxPos
  /\ pc \in {"classify", "health", "read", "check", "select", "nonread", "pwait", "fwd", "app", "resp", "done"}
  /\ out.cookie \in -1..MaxPos
  /\ (pc = "done" <=> out.kind # "none")

Forwarded == app.got

(* P1: a read with a well-formed cookie for TXID t reaches the application only when the tracked   *)
(* database has reached t (a); if it does not reach the application it ends in 504 (b); and it     *)
(* times out only if at the last look the database had NOT reached t ("until ... otherwise") (c).  *)
(* The code forwards at once when the tracked database does not exist (`db == nil`), whatever the  *)
(* cookie says: P1a therefore holds only where the database exists; P1aStrict is the clause as the *)
(* property states it and is violated (recorded finding, reproduced on the real code by the check).*)
P1a       == (ReadReq(req) /\ WellFormed(req) /\ Forwarded /\ app.dbx) => app.pos >= req.c.t
P1aStrict == (ReadReq(req) /\ WellFormed(req) /\ Forwarded) => app.pos >= req.c.t
P1b == (pc = "done" /\ ReadReq(req) /\ WellFormed(req) /\ ~Forwarded) => out.status = 504
P1c == (pc = "done" /\ ReadReq(req) /\ out.status = 504) => (WellFormed(req) /\ obs.pdec < req.c.t)

(* P2: a write on a node that is not the primary, unless passthrough, never reaches the            *)
(* application; it is redirected to the primary, or is an error when the last look saw no primary. *)
P2a == (WriteReq(req) /\ Forwarded) => role = "primary"
P2b == (pc = "done" /\ WriteReq(req) /\ role # "primary") =>
          \/ out.kind = "redirect" /\ role = "replica"
          \/ out.kind = "e503" /\ obs.look = "noprimary"

(* P3: the cookie issued after a write on the primary names a position at or after that write. *)
P3 == (pc = "done" /\ role = "primary" /\ app.w = 1 /\ out.cookie >= 0) => out.cookie >= app.wpos

(* nothing but a time-out or the application's answer ends a request that was classified a read,   *)
(* and only time-outs / redirects / the health endpoint end a request without the application      *)
Shape == (pc = "done") => (Forwarded <=> out.kind = "fwd")

(* emission: one line per distinct terminal state (TLC evaluates an invariant once per distinct state) *)
EmitCase == (Emit /\ pc = "done") =>
  PrintT("CASE " \o ToJson([init |-> init, role |-> role, req |-> req, obs |-> obs, app |-> app, out |-> out,
                           pt |-> pt, hist |-> hist]))
====
