\* DBLocks.tla: model of the candidate repair proposed_fixes/C11-wal-owner.diff (WalOwnerTest = TRUE): WalWriteByHolder holds
SPECIFICATION Spec
CONSTANTS
  Clients = {"a", "b"}
  Internals = {"i"}
  Mode = "wal"
  ReadMarks = {2}
  DbOpsInWal = FALSE
  WithSnapshot = FALSE
  CkptGate = TRUE
  SkipLock = "none"
  TxNoLock = FALSE
  WalGuard = TRUE
  WalOwnerTest = TRUE
  FlushAll = FALSE
  Exclude = {"DmsW", "RecovW", "RecovU"}
  Gated = FALSE
  EmitEdges = FALSE
VIEW view
INVARIANTS TypeOK NothingLost LockConsistent WriteSetHeld Exclusion NoBegin SnapshotExcluded EmitInv
PROPERTIES RefusedWhileWriting EnterOnlyWhenFree WritesInsideSection CkptNeverGrantedUnderForeignWrite WalWriteNeedsWriteLock SingleLockPosix WalWriteByHolder
CHECK_DEADLOCK FALSE
