\* thorough tier: two requests per script, attached to any call (also where they are refused or have no effect)
SPECIFICATION Spec
CONSTANTS
  Candidate = FALSE
  LocalInit = "A"
  TTL = 300
  MaxCalls = 5
  MaxStim = 2
  Stim = {"demote", "ho1", "ho1x", "ho9"}
  StimAnywhere = TRUE
  Focus = "all"
  Mute = "never"
  CheckAfterAcquire = FALSE
  Mut = "none"
  Emit = "edge"
VIEW view
INVARIANTS TypeOK PrimaryOnlyInTenure CtxFollowsLease StopsAfterLeaseLost ClosedUnlessHandedOff NonCandidateNeverAcquires OwnClusterAcquire OwnClusterStream HandoffOnlyToRequested
CHECK_DEADLOCK FALSE
