\* the code as written: SetClusterID reads, then puts unconditionally. EXPECTED: TLC finds ClusterIDSetOnce violated (a competitor sets the id between the two requests)
SPECIFICATION Spec
CONSTANTS
  Nodes = {"n1"}
  MaxSess = 2
  Ops = {"acquire","setcid","cid"}
  Faults = {"err","lost"}
  EnvActs = {"expire","xacq","xcid"}
  UseCAS = FALSE
  Mut = "none"
  Emit = "none"
VIEW view
INVARIANTS ClusterIDSetOnce
CHECK_DEADLOCK FALSE
