---- MODULE Replication ----
(***************************************************************************)
(* Replication of one database between N nodes (C01, C06, C09, C15).       *)
(*                                                                         *)
(* Each node has an image, a position (txid, checksum) and an on-disk log  *)
(* of transaction files.  A checksum is modelled as the image itself       *)
(* (collision-free).  The primary's stream handler keeps a per-connection  *)
(* belief about the replica's position (posMap in http/server.go) and      *)
(* decides between the next file and a snapshot exactly as streamDB /      *)
(* streamLTX do; the replica applies a frame as processLTXStreamFrame      *)
(* does.  Frames in flight model the HTTP/2 stream.                        *)
(*                                                                         *)
(* Control actions (Promote, Demote, Commit, Drop, Block, Unblock, Sweep,  *)
(* Restart) are what the harness scripts on a real cluster; Send / Recv    *)
(* are what the real goroutines do on their own.                           *)
(***************************************************************************)
EXTENDS Integers, Sequences, FiniteSets, TLC, Json

CONSTANTS Nodes,       \* set of node names (strings)
          MaxTx,       \* budget of commits (incl. drops)
          MaxFaults,   \* budget of faults (demote, block, restart, sweep)
          AllowSplit,  \* two nodes may believe they are primary at once
          AllowDrop,   \* the database may be dropped (and written again)
          SrvCheck,    \* primary compares the file's pre-checksum with its belief (streamLTX)
          RepCheck,    \* replica compares the file with its own position (processLTXStreamFrame)
          Emit         \* "none" | "final"

Pages == {1, 2}
NoNode == "none"
ZeroImg == [size |-> 0, pg |-> [p \in Pages |-> 0]]
ZeroPos == [t |-> 0, c |-> ZeroImg]

VARIABLES isPrimary, img, pos, log, conn, blocked, belief, inflight, txCount, faults, committed, hist
vars == <<isPrimary, img, pos, log, conn, blocked, belief, inflight, txCount, faults, committed, hist>>
view == <<isPrimary, img, pos, log, conn, blocked, belief, inflight, txCount, faults, committed>>

Init ==
  /\ isPrimary = [n \in Nodes |-> FALSE]
  /\ img = [n \in Nodes |-> ZeroImg]
  /\ pos = [n \in Nodes |-> ZeroPos]
  /\ log = [n \in Nodes |-> <<>>]
  /\ conn = [n \in Nodes |-> NoNode]
  /\ blocked = [n \in Nodes |-> FALSE]
  /\ belief = [n \in Nodes |-> ZeroPos]
  /\ inflight = [n \in Nodes |-> <<>>]
  /\ txCount = 0 /\ faults = 0
  /\ committed = {ZeroPos}
  /\ hist = <<>>

H(a, args) == hist' = Append(hist, [a |-> a, g |-> args])
NoH == UNCHANGED hist

Apply(im, e) == [size |-> e.size, pg |-> [p \in Pages |-> IF p > e.size THEN 0 ELSE IF p \in DOMAIN e.delta THEN e.delta[p] ELSE im.pg[p]]]

(* ---------------- control actions (scripted on the real cluster) ---------------- *)
Promote(n) ==
  /\ ~isPrimary[n]
  /\ (AllowSplit \/ \A m \in Nodes : ~isPrimary[m])
  /\ isPrimary' = [isPrimary EXCEPT ![n] = TRUE]
  /\ conn' = [conn EXCEPT ![n] = NoNode]
  /\ inflight' = [inflight EXCEPT ![n] = <<>>]
  /\ UNCHANGED <<img, pos, log, blocked, belief, txCount, faults, committed>>
  /\ H("Promote", [n |-> n])

Demote(n) ==
  /\ isPrimary[n] /\ faults < MaxFaults
  /\ isPrimary' = [isPrimary EXCEPT ![n] = FALSE]
  /\ conn' = [m \in Nodes |-> IF conn[m] = n THEN NoNode ELSE conn[m]]
  /\ inflight' = [m \in Nodes |-> IF conn[m] = n THEN <<>> ELSE inflight[m]]
  /\ faults' = faults + 1
  /\ UNCHANGED <<img, pos, log, blocked, belief, txCount, committed>>
  /\ H("Demote", [n |-> n])

Commit(p) ==
  /\ isPrimary[p] /\ txCount < MaxTx
  /\ \E size \in {1, 2}, W \in (SUBSET Pages) \ {{}} :
       /\ 1 \in W /\ W \subseteq 1..size
       /\ (img[p].size < size => (img[p].size + 1)..size \subseteq W)
       /\ LET v == txCount + 1
              e == [min |-> pos[p].t + 1, max |-> pos[p].t + 1, pre |-> pos[p].c, size |-> size,
                    delta |-> [q \in W |-> v], snap |-> FALSE]
              ni == Apply(img[p], e)
              e2 == e @@ [post |-> ni]
          IN /\ img' = [img EXCEPT ![p] = ni]
             /\ pos' = [pos EXCEPT ![p] = [t |-> e.max, c |-> ni]]
             /\ log' = [log EXCEPT ![p] = Append(@, e2)]
             /\ committed' = committed \cup {[t |-> e.max, c |-> ni]}
             /\ txCount' = txCount + 1
             /\ UNCHANGED <<isPrimary, conn, blocked, belief, inflight, faults>>
             /\ H("Commit", [n |-> p, size |-> size, W |-> W, v |-> v])

\* deleting the database on the primary is a transaction with size zero and the empty checksum
Drop(p) ==
  /\ AllowDrop /\ isPrimary[p] /\ txCount < MaxTx /\ img[p].size > 0
  /\ LET e2 == [min |-> pos[p].t + 1, max |-> pos[p].t + 1, pre |-> pos[p].c, size |-> 0,
                delta |-> <<>>, snap |-> FALSE, post |-> ZeroImg]
     IN /\ img' = [img EXCEPT ![p] = ZeroImg]
        /\ pos' = [pos EXCEPT ![p] = [t |-> e2.max, c |-> ZeroImg]]
        /\ log' = [log EXCEPT ![p] = Append(@, e2)]
        /\ committed' = committed \cup {[t |-> e2.max, c |-> ZeroImg]}
  /\ txCount' = txCount + 1
  /\ UNCHANGED <<isPrimary, conn, blocked, belief, inflight, faults>>
  /\ H("Drop", [n |-> p])

\* the harness cuts a replica off (its stream is closed and new connections fail) ...
Block(r) ==
  /\ ~blocked[r] /\ faults < MaxFaults
  /\ blocked' = [blocked EXCEPT ![r] = TRUE]
  /\ conn' = [conn EXCEPT ![r] = NoNode]
  /\ inflight' = [inflight EXCEPT ![r] = <<>>]
  /\ faults' = faults + 1
  /\ UNCHANGED <<isPrimary, img, pos, log, belief, txCount, committed>>
  /\ H("Block", [n |-> r])

\* ... and lets it connect again
Unblock(r) ==
  /\ blocked[r]
  /\ blocked' = [blocked EXCEPT ![r] = FALSE]
  /\ UNCHANGED <<isPrimary, img, pos, log, conn, belief, inflight, txCount, faults, committed>>
  /\ H("Unblock", [n |-> r])

\* process restart: connections are lost, durable state (image, position, log) is kept
Restart(n) ==
  /\ faults < MaxFaults
  /\ isPrimary' = [isPrimary EXCEPT ![n] = FALSE]
  /\ conn' = [m \in Nodes |-> IF conn[m] = n \/ m = n THEN NoNode ELSE conn[m]]
  /\ inflight' = [m \in Nodes |-> IF conn[m] = n \/ m = n THEN <<>> ELSE inflight[m]]
  /\ faults' = faults + 1
  /\ UNCHANGED <<img, pos, log, blocked, belief, txCount, committed>>
  /\ H("Restart", [n |-> n])

\* retention sweep keeps only the newest file
Sweep(p) ==
  /\ Len(log[p]) > 1 /\ faults < MaxFaults
  /\ log' = [log EXCEPT ![p] = <<@[Len(@)]>>]
  /\ faults' = faults + 1
  /\ UNCHANGED <<isPrimary, img, pos, conn, blocked, belief, inflight, txCount, committed>>
  /\ H("Sweep", [n |-> p])

(* ---------------- what the nodes do on their own ---------------- *)
Connect(r, p) ==      \* replica sends its position map (monitorLeaseAsReplica, handlePostStream)
  /\ r # p /\ ~isPrimary[r] /\ isPrimary[p] /\ conn[r] = NoNode /\ ~blocked[r]
  /\ conn' = [conn EXCEPT ![r] = p]
  /\ belief' = [belief EXCEPT ![r] = pos[r]]
  /\ inflight' = [inflight EXCEPT ![r] = <<>>]
  /\ UNCHANGED <<isPrimary, img, pos, log, blocked, txCount, faults, committed>>
  /\ NoH

Lost(r) ==            \* the primary went away: the stream ends
  /\ conn[r] # NoNode /\ ~isPrimary[conn[r]]
  /\ conn' = [conn EXCEPT ![r] = NoNode]
  /\ inflight' = [inflight EXCEPT ![r] = <<>>]
  /\ UNCHANGED <<isPrimary, img, pos, log, blocked, belief, txCount, faults, committed>>
  /\ NoH

FileAt(p, t) == {i \in 1..Len(log[p]) : log[p][i].min = t /\ log[p][i].max = t}
SnapshotOf(p) == [snap |-> TRUE, min |-> 1, max |-> pos[p].t, pre |-> ZeroImg, post |-> img[p], size |-> img[p].size, delta |-> <<>>]

Send(p, r) ==         \* streamDB / streamLTX / streamLTXSnapshot (http/server.go)
  /\ conn[r] = p /\ isPrimary[p] /\ Len(inflight[r]) < 2
  /\ LET dp == pos[p]
         cp0 == belief[r]
         cp == IF cp0.t > dp.t \/ (cp0.t = dp.t /\ cp0.c # dp.c) THEN ZeroPos ELSE cp0
         nxt == cp.t + 1
         F == FileAt(p, nxt)
     IN /\ cp.t < dp.t
        /\ IF nxt = 1 \/ F = {} \/ (SrvCheck /\ \E i \in F : log[p][i].pre # cp.c)
           THEN /\ inflight' = [inflight EXCEPT ![r] = Append(@, SnapshotOf(p))]
                /\ belief' = [belief EXCEPT ![r] = dp]
           ELSE LET i == CHOOSE i \in F : TRUE IN
                /\ inflight' = [inflight EXCEPT ![r] = Append(@, log[p][i])]
                /\ belief' = [belief EXCEPT ![r] = [t |-> log[p][i].max, c |-> log[p][i].post]]
  /\ UNCHANGED <<isPrimary, img, pos, log, conn, blocked, txCount, faults, committed>>
  /\ NoH

Recv(r) ==            \* processLTXStreamFrame (store.go)
  /\ conn[r] # NoNode /\ inflight[r] # <<>>
  /\ LET f == Head(inflight[r]) IN
     IF f.snap
     THEN /\ img' = [img EXCEPT ![r] = f.post]
          /\ pos' = [pos EXCEPT ![r] = [t |-> f.max, c |-> f.post]]
          /\ log' = [log EXCEPT ![r] = <<f>>]
          /\ inflight' = [inflight EXCEPT ![r] = Tail(@)]
          /\ UNCHANGED conn
     ELSE IF ~RepCheck \/ pos[r] = [t |-> f.min - 1, c |-> f.pre]
     THEN /\ img' = [img EXCEPT ![r] = Apply(@, f)]
          /\ pos' = [pos EXCEPT ![r] = [t |-> f.max, c |-> f.post]]
          /\ log' = [log EXCEPT ![r] = Append(@, f)]
          /\ inflight' = [inflight EXCEPT ![r] = Tail(@)]
          /\ UNCHANGED conn
     ELSE /\ conn' = [conn EXCEPT ![r] = NoNode]
          /\ inflight' = [inflight EXCEPT ![r] = <<>>]
          /\ UNCHANGED <<img, pos, log>>
  /\ UNCHANGED <<isPrimary, blocked, belief, txCount, faults, committed>>
  /\ NoH

Control == \E n \in Nodes : Promote(n) \/ Demote(n) \/ Commit(n) \/ Drop(n) \/ Block(n) \/ Unblock(n) \/ Restart(n) \/ Sweep(n)
Auto == \/ \E n \in Nodes : Recv(n) \/ Lost(n)
        \/ \E r, p \in Nodes : Connect(r, p) \/ Send(p, r)
Next == Control \/ Auto
Spec == Init /\ [][Next]_vars
Fair == /\ \A r, p \in Nodes : WF_vars(Connect(r, p)) /\ WF_vars(Send(p, r))
        /\ \A r \in Nodes : WF_vars(Recv(r)) /\ WF_vars(Lost(r)) /\ WF_vars(Unblock(r))
        /\ \A n \in Nodes : WF_vars(Promote(n))
LiveSpec == Spec /\ Fair

(* ---------------- properties ---------------- *)
\* C01: the image a node holds is the image of the position it reports
ChkIsImage == \A n \in Nodes : pos[n].c = img[n]
\* C01/C06: every reported position is a position some primary committed
OnHistory == \A n \in Nodes : pos[n] \in committed
\* C09: the on-disk log is one contiguous chain ending at the position
ChainOK == \A n \in Nodes : /\ \A i \in 2..Len(log[n]) : log[n][i].min = log[n][i - 1].max + 1 /\ log[n][i].pre = log[n][i - 1].post
                            /\ (Len(log[n]) > 0 => log[n][Len(log[n])].max = pos[n].t /\ log[n][Len(log[n])].post = pos[n].c)
\* C06: an incremental file is only ever applied on exactly the position it extends
NoPatch == [][\A r \in Nodes : (pos'[r] # pos[r] /\ ~isPrimary[r] /\ inflight[r] # <<>> /\ ~Head(inflight[r]).snap)
                 => pos[r] = [t |-> Head(inflight[r]).min - 1, c |-> Head(inflight[r]).pre]]_vars
\* C15: a dropped database has the empty checksum and no pages
DropIsEmpty == \A n \in Nodes : img[n].size = 0 => pos[n].c = ZeroImg
\* C01 liveness: once faults stop and one primary stays up every unblocked replica converges
Converged == \A r, p \in Nodes : (isPrimary[p] /\ ~isPrimary[r] /\ pos[p].t > 0) => pos[r] = pos[p]
EventuallyConverged == <>[]Converged

\* emission of fault scripts: the control actions of every distinct final state
EmitInv == (Emit = "final" /\ txCount = MaxTx /\ faults = MaxFaults /\ hist # <<>>)
           => PrintT("SCRIPT " \o ToJson([h |-> hist]))
====
