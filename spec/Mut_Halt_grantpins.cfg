\* relevance: GrantPins = FALSE (seeded mutation) must violate Exclusive
SPECIFICATION Spec
CONSTANTS
  TxHolderCheck = TRUE
  UnsetFix = TRUE
  CatchUpKeeps = TRUE
  GrantPins = FALSE
  IdemCheck = TRUE
  WaitPos = TRUE
  FwdFirst = TRUE
  MaxDrop = 0
  DropExcluded = TRUE
  ExpiryUnlocks = TRUE
  MaxTx = 2
  MaxFaults = 1
  MaxHandles = 1
  MaxExpire = 1
  MaxPChange = 0
  MaxRogue = 0
  MaxBlock = 0
  MaxCkpt = 1
  MaxIdle = 1
  MaxSteps = 0
  Eager = FALSE
  Emit = "none"
VIEW view
INVARIANTS Exclusive
CHECK_DEADLOCK FALSE
