SPECIFICATION Spec
CONSTANTS
  Part = "journal"
  Emit = FALSE
  Plans <- PlansQuick
  Mutate = FALSE
  Rule = "oneseg"
  WN0 = 2
  WPages = {1, 2, 3}
  WCommits = {0, 2, 3}
  WHdrs <- WHdrsAll
  MaxFrames = 1
  MaxBad = 1
  Scan = "sqlite"
INVARIANTS RollbackRestores
CHECK_DEADLOCK FALSE
