---- MODULE MC_DBFile ----
EXTENDS DBFile
BlockL0 == <<0, 0, 0, 0, 0>>     \* all model pages in one checksum block
BlockL1 == <<0, 0, 1, 1, 2>>     \* pages {1,2} {3,4} {5}: block-straddling layout
====
