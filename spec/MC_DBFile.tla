---- MODULE MC_DBFile ----
EXTENDS DBFile
BlockL0 == <<0, 0, 0, 0, 0>>     \* all model pages in one checksum block
BlockL1 == <<0, 0, 1, 1, 2>>     \* pages {1,2} {3,4} {5}: block-straddling layout
BlockL2 == <<0, 1, 1, 1, 2>>     \* pages {1} {2,3,4} {5}: sizes 2 and 3 differ by one page inside block 1
BlockL3 == <<0, 1, 1, 2, 2>>     \* pages {1} {2,3} {4,5}: page 3 (and 5) is the last page of its block
\* the lock-page layout L4 (64 KiB pages): real pages 1, 16384, 16385 = lock page, 16386, 16641
BlockL4 == <<0, 63, 64, 64, 65>>
====
