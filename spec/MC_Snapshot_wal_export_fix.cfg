\* candidate repair (WRITE kept until the READ locks are held): OnePosition must hold for Export
SPECIFICATION Spec
CONSTANTS
  Mode = "wal"
  SelfCheck = FALSE
  N0 = 2
  MaxPg = 2
  MaxTx = 2
  MaxCkpt = 1
  MaxLCkpt = 1
  AllowRollback = TRUE
  InitWals = {{}, {1, 2}}
  HoldWrite = TRUE
  TakeRead = TRUE
  CopyOffsets = TRUE
  CkptGate = TRUE
  TrackSig = FALSE
  Emit = FALSE
VIEW view
INVARIANTS TypeOK ViewIsRef OnePosition
CHECK_DEADLOCK FALSE
