\* scripts: message faults
SPECIFICATION Spec
CONSTANTS
  TxHolderCheck = FALSE
  UnsetFix = FALSE
  CatchUpKeeps = FALSE
  GrantPins = TRUE
  IdemCheck = TRUE
  WaitPos = TRUE
  FwdFirst = TRUE
  MaxDrop = 0
  DropExcluded = TRUE
  ExpiryUnlocks = TRUE
  MaxTx = 2
  MaxFaults = 2
  MaxHandles = 2
  MaxExpire = 1
  MaxPChange = 0
  MaxRogue = 0
  MaxBlock = 0
  MaxCkpt = 0
  MaxIdle = 1
  MaxSteps = 6
  Eager = TRUE
  Emit = "end"
VIEW view
INVARIANTS TypeOK EmitInv
CHECK_DEADLOCK FALSE
