\* thorough: two leasers, three sessions, everything enabled; invariants only (4.46 M distinct states measured)
SPECIFICATION Spec
CONSTANTS
  Nodes = {"n1","n2"}
  MaxSess = 3
  Ops = {"acquire","acqx","renew","close","info","cid","setcid","handoff"}
  Faults = {"err","lost","stale"}
  EnvActs = {"expire","delay","xacq","xcid","xhand"}
  UseCAS = FALSE
  Mut = "none"
  Emit = "none"
VIEW view
INVARIANTS TypeOK OneLiveHolder LeaseHoldsKey LeaseOnlyWithKey ExpiredIsReported CloseDestroys HandoffExact
CHECK_DEADLOCK FALSE
