SPECIFICATION Spec
CONSTANTS
  MaxPg = 4
  Ops = {"inc", "snap", "rdrop", "ckpt", "pdrop", "hotj", "hotw"}
  MaxCrash = 2
  WalTxs = 2
  StreamRenameFirst = TRUE
  SnapRenameFirst = TRUE
  RestoreRenameFirst = TRUE
  PagesBeforeTrunc = TRUE
  CkptWalLast = TRUE
  RollbackRmLast = TRUE
  DropRenameFirst = TRUE
  OpenSyncsWal = TRUE
  OpenRollsBack = TRUE
  OpenCheckpoints = TRUE
  OpenReapplies = TRUE
  Emit = FALSE
VIEW view
INVARIANTS C05_RestartSucceeds C05_PosOfNewestLTX C05_BeforeOrAfter C05_ImageOfPos C05_NothingToReplay C05_AckKept OpCompletes EmitInv
CHECK_DEADLOCK FALSE
