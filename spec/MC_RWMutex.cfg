SPECIFICATION Spec
CONSTANTS
  Owners = {"a", "b", "c", "d"}
  EmitEdges = TRUE
VIEW view
INVARIANTS TypeOK OneOfThree QueriesArePosix
PROPERTIES CallsArePosix QueryPredictsAttempt
CHECK_DEADLOCK FALSE
