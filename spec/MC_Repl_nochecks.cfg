SPECIFICATION Spec
CONSTANTS
  Nodes = {"n1","n2","n3"}
  MaxTx = 3
  MaxFaults = 2
  AllowSplit = FALSE
  AllowDrop = FALSE
  SrvCheck = FALSE
  RepCheck = FALSE
  Emit = "none"
VIEW view
INVARIANTS ChkIsImage OnHistory ChainOK DropIsEmpty EmitInv
PROPERTIES NoPatch
CHECK_DEADLOCK FALSE
