\* C18 streams, thorough tier: 3 streams, 3 writes, up to two of them fail; measured 860 113 transitions (one EDGE line each), ~50 s with 4 workers
SPECIFICATION SSpec
CONSTANTS
  Streams = {1, 2, 3}
  MaxWrites = 3
  MaxFaults = 2
  Pooled = FALSE
  EmitS = TRUE
  MaxPayload = 1
  Limit = 3
  ReadSizes = {1}
  Splits = {99}
  FixChunkEOF = TRUE
  StrLens = {0, 255}
  IntVals = {"maxu64"}
  PosEntries <- Entries5
  MaxEntries = 0
  RFAMax = 0
  Parts = {}
  Emit = FALSE
VIEW sview
INVARIANTS StreamIsItsFrames FailedIsProperPrefix HealthyStreamReadsBack
PROPERTIES WriteIsLocal
CHECK_DEADLOCK FALSE
