---- MODULE Faults ----
(***************************************************************************)
(* Failure paths of LiteFS's own multi-step operations.  Every operation   *)
(* is a fixed sequence of phases in the order of the code; one phase of it *)
(* may be hit by one fault (an OS call that returns an error, a file that  *)
(* opens but cannot be read / written, a refused cache notification).  The *)
(* process keeps running unless the phase is one where the code stops the  *)
(* node on purpose (Store.Exit).  What the specification states is what    *)
(* the listed properties say about a failed operation: it reports the      *)
(* failure, the database image / position / log it leaves are those from   *)
(* before (C02-C05, C15, C16), every state LiteFS derives from the files   *)
(* (page checksums, WAL index) still describes the files (C04, C10), the   *)
(* internal locks are free and no halt lock is registered (C11, C12, C20), *)
(* a hot journal that was not played back completely is still there (C17), *)
(* and a repetition without the fault succeeds.  A node that stopped       *)
(* itself restarts into the state before or after (C05).                   *)
(*                                                                         *)
(* The harness (harness/faults) takes the (operation, target, kind) cases  *)
(* TLC enumerates and realises EVERY concrete fault point of the phase     *)
(* sequence on a real store: the k-th call through LiteFS's OS interface,  *)
(* for every k the fault-free run makes.                                   *)
(***************************************************************************)
EXTENDS Integers, Sequences, FiniteSets, TLC, Json

CONSTANTS UndoOnFailure,  \* TRUE = derived in-memory state is changed only after the step that can fail, or put back (the code); FALSE = changed first and left (relevance)
          CleanupOnFailure, \* TRUE = the deferred cleanup runs on every error return (the code); FALSE = skipped (relevance)
          ReportFailure,  \* TRUE = an error of a step is returned to the caller (the code); FALSE = swallowed (relevance)
          Emit

Ops     == {"rb_commit", "wal_commit", "import", "halt", "recover", "drop", "backup_sync", "set_cluster_id",
            "replica_apply", "replica_snapshot", "open", "role_change"}
Targets == {"rb", "rb_hot", "wal_frames", "wal_clean"}
Kinds   == {"error", "unreadable", "unwritable", "notify", "cut", "lease"}   \* cut = the replication stream breaks after n bytes

Applies(o, t) ==
  CASE o = "rb_commit"      -> t = "rb"
    [] o = "wal_commit"     -> t \in {"wal_frames", "wal_clean"}
    [] o = "import"         -> TRUE
    [] o = "halt"           -> TRUE
    [] o = "recover"        -> t \in {"rb_hot", "wal_frames"}
    [] o = "drop"           -> t \in {"rb", "wal_frames", "wal_clean"}
    [] o = "backup_sync"    -> t \in {"rb", "wal_frames"}
    [] o = "set_cluster_id" -> t = "rb"
    [] o = "replica_apply"    -> t \in {"rb", "wal_frames"}   \* a replica applies one streamed transaction file
    [] o = "replica_snapshot" -> t \in {"rb", "wal_frames"}   \* a replica is given a snapshot (it joins, or it left the history)
    [] o = "open"             -> TRUE                          \* the store is opened on an existing data directory (restart)
    [] o = "role_change"      -> t \in {"rb_hot", "wal_frames"} \* a primary loses its lease through a failing renewal and becomes a replica

\* the phases of each operation, in the order of the code
Phases(o) ==
  CASE o = "rb_commit"      -> <<"lock_held", "validate", "ltx_tmp", "clear_tail", "publish", "setpos">>
    [] o = "wal_commit"     -> <<"read_frames", "ltx_tmp", "publish", "setpos">>
    [] o = "import"         -> <<"lock", "ltx_tmp", "publish", "rollback_journal", "checkpoint", "apply", "setpos">>
    [] o = "halt"           -> <<"lock", "recover", "register">>
    [] o = "recover"        -> <<"open_journal", "open_db", "playback", "truncate", "remove_journal">>
    [] o = "drop"           -> <<"ltx_tmp", "publish", "remove_files", "setpos">>
    [] o = "backup_sync"    -> <<"fetch_pos", "open_ltx", "upload">>
    [] o = "set_cluster_id" -> <<"validate", "write_tmp", "rename", "store_mem">>
    [] o = "replica_apply"    -> <<"position_check", "ltx_tmp", "publish", "apply", "setpos">>
    [] o = "replica_snapshot" -> <<"ltx_tmp", "publish", "remove_old_files", "apply", "setpos">>
    [] o = "open"             -> <<"read_header", "remove_shm", "trim_wal_to_ltx", "rollback_journal", "checkpoint",
                                   "init_checksums", "reapply_last_ltx">>
    [] o = "role_change"      -> <<"renew", "cancel_primary_context", "rollback_journal", "checkpoint", "follow_new_primary">>

\* phases whose failure stops the node on purpose (there is no way to tell SQLite / the state is half written)
Fatal(o, ph) == \/ o = "wal_commit"
                \/ (o = "import" /\ ph \in {"apply", "setpos"})
                \/ (o = "drop" /\ ph \in {"remove_files", "setpos"})
                \/ (o \in {"replica_apply", "replica_snapshot"} /\ ph \in {"apply", "setpos"})
\* phases that change state LiteFS derives from the files and keeps in memory
TouchesMem(o, ph) == \/ (o = "rb_commit" /\ ph = "clear_tail")
                     \/ (o = "import" /\ ph = "checkpoint")
                     \/ (o = "set_cluster_id" /\ ph = "store_mem")
                     \/ (o = "halt" /\ ph = "register")
\* phases after which the operation has taken effect
Publishing(o, ph) == \/ (o \in {"rb_commit", "wal_commit", "import", "drop", "replica_apply", "replica_snapshot"} /\ ph = "setpos")
                     \/ (o = "halt" /\ ph = "register")
                     \/ (o = "recover" /\ ph = "remove_journal")
                     \/ (o = "backup_sync" /\ ph = "upload")
                     \/ (o = "set_cluster_id" /\ ph = "store_mem")
                     \/ (o = "open" /\ ph = "reapply_last_ltx")
                     \/ (o = "role_change" /\ ph = "follow_new_primary")

VARIABLES op, target, kind, at,  \* the case: fault of this kind in phase number `at` (0 = none)
          pc,        \* next phase (Len+1 = finished)
          effect,    \* the operation's effect is visible (position advanced / lock registered / journal gone / service extended / ID stored)
          mem,       \* "sync" = derived in-memory state describes the files | "ahead" = changed although the files were not
          lock,      \* internal write lock: "free" | "held"
          hot,       \* a hot journal is present
          exited, result, retried
vars == <<op, target, kind, at, pc, effect, mem, lock, hot, exited, result, retried>>

NPh == Len(Phases(op))
Ph  == Phases(op)[pc]

\* a refused cache notification is considered where LiteFS itself rewrites pages an application may have cached
KindApplies(o, k) == /\ (k = "notify" => o \in {"recover", "halt", "import", "replica_apply", "replica_snapshot"})
                     /\ (k = "cut" => o \in {"replica_apply", "replica_snapshot"})
                     /\ (k = "lease" <=> o = "role_change")   \* lease = a call to the lease service fails (renewal answered "expired")

Init == /\ op \in Ops /\ target \in Targets /\ Applies(op, target) /\ kind \in Kinds /\ KindApplies(op, kind)
        /\ at \in 0..Len(Phases(op))
        /\ pc = 1 /\ effect = FALSE /\ mem = "sync" /\ lock = "free"
        /\ hot = (target = "rb_hot") /\ exited = FALSE /\ result = "pending" /\ retried = FALSE

TakesLock(o) == o \in {"import", "halt", "drop"}

\* one phase succeeds
StepOK ==
  /\ result = "pending" /\ pc <= NPh /\ at # pc
  /\ lock' = (IF TakesLock(op) /\ pc = 1 THEN "held" ELSE IF pc = NPh /\ op # "halt" THEN "free" ELSE lock)
  /\ effect' = (effect \/ Publishing(op, Ph))
  /\ hot' = (IF (op = "recover" /\ Ph = "remove_journal") \/ (op \in {"halt", "import", "open", "role_change"} /\ Ph \in {"recover", "rollback_journal"}) THEN FALSE ELSE hot)
  /\ pc' = pc + 1
  /\ result' = (IF pc = NPh THEN "ok" ELSE result)
  /\ UNCHANGED <<op, target, kind, at, mem, exited, retried>>

\* the phase `at` fails
StepFail ==
  /\ result = "pending" /\ pc <= NPh /\ at = pc
  /\ IF Fatal(op, Ph)
     THEN exited' = TRUE /\ result' = "error" /\ UNCHANGED <<mem, lock, effect, hot>>
     ELSE /\ exited' = FALSE
          /\ mem' = (IF ~UndoOnFailure /\ TouchesMem(op, Ph) THEN "ahead" ELSE mem)
          /\ lock' = (IF CleanupOnFailure THEN "free" ELSE lock)
          /\ IF ReportFailure
             THEN result' = "error" /\ UNCHANGED <<effect, hot>>
             ELSE \* the error is dropped: the caller is told the operation worked (and a rollback discards its journal)
                  /\ result' = "ok" /\ hot' = FALSE /\ UNCHANGED effect
  /\ pc' = NPh + 1
  /\ UNCHANGED <<op, target, kind, at, retried>>

\* the node stopped itself: a restart recovers the files
Restart ==
  /\ exited /\ ~retried
  /\ retried' = TRUE /\ mem' = "sync" /\ lock' = "free" /\ hot' = FALSE
  /\ UNCHANGED <<op, target, kind, at, pc, effect, exited, result>>

Next == StepOK \/ StepFail \/ Restart
Spec == Init /\ [][Next]_vars

Done == pc = NPh + 1 /\ (exited => retried)

(* ---- what the properties say about the end of every case ---- *)
FailureIsReported == Done /\ at # 0 /\ ~exited => result = "error"
NothingHalfDone   == Done /\ result = "error" /\ ~exited => ~effect /\ mem = "sync"
LocksReleased     == Done /\ (result = "error" \/ op # "halt") => lock = "free"
JournalKept       == Done /\ target = "rb_hot" /\ op = "recover" /\ ~effect /\ ~exited => hot
SuccessHasEffect  == Done /\ result = "ok" => effect
Clean == FailureIsReported /\ NothingHalfDone /\ LocksReleased /\ JournalKept /\ SuccessHasEffect

EmitCase == (Emit /\ Done /\ at = 0)
            => PrintT("CASE " \o ToJson([op |-> op, target |-> target, kind |-> kind, phases |-> Phases(op)]))
====
