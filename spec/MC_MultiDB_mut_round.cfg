SPECIFICATION Spec
CONSTANTS
  Reps = {"n2"}
  DBs = {"a","b"}
  Filter = {"a"}
  MaxTx = 2
  MaxFaults = 1
  MaxOrphans = 0
  OrphanTx = {1}
  AllowDrop = TRUE
  AllowSweep = TRUE
  AllowRestart = TRUE
  FilterEveryRound = FALSE
  DropFrameFiltered = TRUE
  OwnEntry = TRUE
  ChkCompare = TRUE
  ApplyDropFrame = FALSE
  Wire = 2
  Emit = "none"
VIEW view
INVARIANTS FilterRespected

CHECK_DEADLOCK FALSE
