\* relevance: ExpiryUnlocks = FALSE (seeded mutation) must violate WritableAgain
SPECIFICATION Spec
CONSTANTS
  TxHolderCheck = TRUE
  UnsetFix = TRUE
  CatchUpKeeps = TRUE
  GrantPins = TRUE
  IdemCheck = TRUE
  WaitPos = TRUE
  FwdFirst = TRUE
  MaxDrop = 0
  DropExcluded = TRUE
  ExpiryUnlocks = FALSE
  MaxTx = 2
  MaxFaults = 1
  MaxHandles = 1
  MaxExpire = 1
  MaxPChange = 0
  MaxRogue = 0
  MaxBlock = 0
  MaxCkpt = 1
  MaxIdle = 1
  MaxSteps = 0
  Eager = FALSE
  Emit = "none"
VIEW view
INVARIANTS WritableAgain
CHECK_DEADLOCK FALSE
