\* the primary's application may unlink the database (LDrop) - repaired variant (/tx holder check, re-entrant unset), every clause of C13 is an invariant
SPECIFICATION Spec
CONSTANTS
  TxHolderCheck = TRUE
  UnsetFix = TRUE
  CatchUpKeeps = TRUE
  GrantPins = TRUE
  IdemCheck = TRUE
  WaitPos = TRUE
  FwdFirst = TRUE
  MaxDrop = 1
  DropExcluded = FALSE
  ExpiryUnlocks = TRUE
  MaxTx = 3
  MaxFaults = 1
  MaxHandles = 1
  MaxExpire = 1
  MaxPChange = 1
  MaxRogue = 1
  MaxBlock = 0
  MaxCkpt = 0
  MaxIdle = 1
  MaxSteps = 0
  Eager = FALSE
  Emit = "none"
VIEW view
INVARIANTS TypeOK Exclusive HaltPins StartsAtLockPos AckedIsOnPrimary ReachesThird OnlyFromHolder SameIdSameLock WritableAgain FormerCannotPublish NoWedge
CHECK_DEADLOCK FALSE
