\* EXPECTED VIOLATION (known finding clusterid-not-rechecked-after-acquire): code as written, Acquire path
SPECIFICATION Spec
CONSTANTS
  Candidate = TRUE
  LocalInit = "A"
  TTL = 300
  MaxCalls = 6
  MaxStim = 1
  Stim = {}
  StimAnywhere = FALSE
  Focus = "all"
  Mute = "never"
  CheckAfterAcquire = FALSE
  Mut = "none"
  Emit = "none"
VIEW view
INVARIANTS OwnClusterTenure
CHECK_DEADLOCK FALSE
