\* relevance: guard dropped (handoffWithoutRenew); TLC must find HandoffOnlyToRequested violated
SPECIFICATION Spec
CONSTANTS
  Candidate = TRUE
  LocalInit = "A"
  TTL = 300
  MaxCalls = 7
  MaxStim = 1
  Stim = {"demote", "ho1", "ho1x", "ho9"}
  StimAnywhere = FALSE
  Focus = "all"
  Mute = "never"
  CheckAfterAcquire = FALSE
  Mut = "handoffWithoutRenew"
  Emit = "none"
VIEW view
INVARIANTS HandoffOnlyToRequested
CHECK_DEADLOCK FALSE
