\* DBLocks.tla: RELEVANCE: TryAcquireWriteLock skips READ2 => Exclusion must be violated
SPECIFICATION Spec
CONSTANTS
  Clients = {"a", "b"}
  Internals = {"i"}
  Mode = "wal"
  ReadMarks = {2}
  DbOpsInWal = FALSE
  WithSnapshot = FALSE
  CkptGate = TRUE
  SkipLock = "READ2"
  TxNoLock = FALSE
  WalGuard = TRUE
  WalOwnerTest = FALSE
  FlushAll = FALSE
  Exclude = {"DmsW", "RecovW", "RecovU"}
  Gated = FALSE
  EmitEdges = FALSE
VIEW view
INVARIANTS Exclusion
PROPERTIES EnterOnlyWhenFree
CHECK_DEADLOCK FALSE
