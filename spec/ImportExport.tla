---- MODULE ImportExport ----
(***************************************************************************)
(* Import / export of a database image (C16).  The target database is in   *)
(* one of a few abstract states, the offered image belongs to one of a few *)
(* classes; DB.Import is modelled step by step in the order of the code    *)
(* (db.go Import / importToLTX / ApplyLTXNoLock) so that a failure part    *)
(* way through shows what has already been changed.  Export returns the    *)
(* committed image.                                                        *)
(***************************************************************************)
EXTENDS Integers, Sequences, FiniteSets, TLC, Json

CONSTANTS ValidateFirst,   \* TRUE = the input is validated and written to the new LTX file before journal / WAL are touched (repaired)
          CheckPageSize,   \* TRUE = an image with another page size is refused up front (repaired)
          Emit

\* "rb_open_tx": a connection has a write transaction open when the import arrives; the import waits
\* for the write lock, the transaction commits, then the import runs on top of it (valid inputs only:
\* for the others "unchanged" would have to be taken between two concurrent steps)
Targets == {"absent", "empty", "dropped", "rb", "rb_hot_journal", "wal_frames", "wal_clean", "rb_open_tx"}
Inputs  == {"valid_rb", "valid_wal", "valid_bigger", "valid_smaller", "other_page_size", "truncated", "garbage", "empty"}
Ifaces  == {"api", "http"}

VARIABLES target,   \* abstract state of the named database before the import
          img,      \* "old" | "new" | "reverted" (WAL content lost) | "mixed" | "none"
          pos,      \* 0 = unchanged, 1 = advanced by one
          newLtx,   \* an import LTX file was renamed into the log
          exited,   \* LiteFS stopped itself
          result,   \* "pending" | "ok" | "error"
          input, iface, pc
vars == <<target, img, pos, newLtx, exited, result, input, iface, pc>>

Init == /\ target \in Targets /\ input \in Inputs /\ iface \in Ifaces
        /\ (target = "rb_open_tx" => input \in {"valid_rb", "valid_bigger", "valid_smaller"})
        /\ img = (IF target \in {"absent", "empty", "dropped"} THEN "none" ELSE "old")
        /\ pos = 0 /\ newLtx = FALSE /\ exited = FALSE /\ result = "pending" /\ pc = "start"

HeaderOK == input \in {"valid_rb", "valid_wal", "valid_bigger", "valid_smaller", "other_page_size", "truncated"}
BodyOK == input \in {"valid_rb", "valid_wal", "valid_bigger", "valid_smaller", "other_page_size"}
HasPages == target \in {"rb", "rb_hot_journal", "wal_frames", "wal_clean", "rb_open_tx"}
\* the page size is known for a database that has (or had) pages
PageSizeKnown == target \in {"rb", "rb_hot_journal", "wal_frames", "wal_clean", "dropped", "rb_open_tx"}

Fail == result' = "error" /\ pc' = "done"

\* step 1 (as coded): journal invalidated, WAL truncated - before the input is looked at
Prepare ==
  /\ pc = "start"
  /\ IF ValidateFirst
     THEN UNCHANGED <<img>>
     ELSE img' = (IF target = "wal_frames" THEN "reverted" ELSE IF target = "rb_hot_journal" THEN "mixed" ELSE img)
  /\ pc' = "to_ltx"
  /\ UNCHANGED <<target, pos, newLtx, exited, result, input, iface>>

\* step 2: importToLTX - header, then every page, into <txid>.ltx.tmp, then rename
ToLTX ==
  /\ pc = "to_ltx"
  /\ IF ~HeaderOK \/ ~BodyOK \/ (CheckPageSize /\ PageSizeKnown /\ input = "other_page_size")
     THEN Fail /\ UNCHANGED <<img, pos, newLtx, exited>>
     ELSE /\ newLtx' = TRUE /\ pc' = "apply"
          /\ img' = (IF ValidateFirst /\ target = "wal_frames" THEN img ELSE img)
          /\ UNCHANGED <<pos, exited, result>>
  /\ UNCHANGED <<target, input, iface>>

\* step 3: ApplyLTXNoLock(fatalOnError)
Apply ==
  /\ pc = "apply"
  /\ IF input = "other_page_size" /\ PageSizeKnown
     THEN \* page writes of the wrong length are refused: fatal
          /\ exited' = TRUE /\ Fail /\ UNCHANGED <<img, pos, newLtx>>
     ELSE /\ img' = "new" /\ pos' = 1 /\ result' = "ok" /\ pc' = "done"
          /\ UNCHANGED <<newLtx, exited>>
  /\ UNCHANGED <<target, input, iface>>

Next == Prepare \/ ToLTX \/ Apply
Spec == Init /\ [][Next]_vars

(* ---- the property on the model ---- *)
Atomic == pc = "done" =>
            /\ (result = "ok" => img = "new" /\ pos = 1)
            /\ (result = "error" => /\ img = (IF HasPages THEN "old" ELSE "none")
                                    /\ pos = 0 /\ ~newLtx /\ ~exited)

EmitCase == (Emit /\ pc = "done")
            => PrintT("CASE " \o ToJson([target |-> target, input |-> input, iface |-> iface, result |-> result,
                                         img |-> img, pos |-> pos, exited |-> exited]))
====
