\* DBLocks.tla: RELEVANCE: TryAcquireWriteLock skips the exclusive PENDING => NoBegin must be violated
SPECIFICATION Spec
CONSTANTS
  Clients = {"a", "b"}
  Internals = {"i"}
  Mode = "rollback"
  ReadMarks = {}
  DbOpsInWal = FALSE
  WithSnapshot = FALSE
  CkptGate = TRUE
  SkipLock = "PENDING"
  TxNoLock = FALSE
  WalGuard = TRUE
  WalOwnerTest = FALSE
  FlushAll = FALSE
  Exclude = {}
  Gated = FALSE
  EmitEdges = FALSE
VIEW view
INVARIANTS NoBegin
PROPERTIES EnterOnlyWhenFree
CHECK_DEADLOCK FALSE
