---- MODULE MC_Codec ----
EXTENDS Codec
\* position-map entries in ascending name order (the harness builds the name as n copies of id):
\* "" < "a" < "bbb..." (255) < "ccc..." (70000) < "d"
Entries5 == << [id |-> "e", n |-> 0,     t |-> "zero",   c |-> "maxu64"],
               [id |-> "a", n |-> 1,     t |-> "one",    c |-> "zero"],
               [id |-> "b", n |-> 255,   t |-> "maxu64", c |-> "neg"],
               [id |-> "c", n |-> 70000, t |-> "maxi64", c |-> "one"],
               [id |-> "d", n |-> 1,     t |-> "neg",    c |-> "maxi64"] >>
====
