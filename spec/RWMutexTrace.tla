---- MODULE RWMutexTrace ----
(***************************************************************************)
(* Trace validation for concurrent use of one RWMutex (impl -> spec).      *)
(* The harness records, with one process-wide atomic sequence number, a    *)
(* "call" event before and a "ret" event after every guard method call of  *)
(* every goroutine (one goroutine per owner).  The lock is lock-free from  *)
(* the caller's point of view, so the state change is an internal step of  *)
(* the specification (Lin) that TLC places between call and ret.  The      *)
(* trace is accepted iff some placement explains every returned result.    *)
(* Several traces are concatenated with "reset" events.                    *)
(***************************************************************************)
EXTENDS RWMutex, IOUtils

Trace == ndJsonDeserialize(IOEnv.TRACE_FILE)

VARIABLES l,      \* next trace line
          pend    \* per owner: None, or the call in flight [op, lin, res]
tvars == <<vars, l, pend>>
traceView == <<sharedN, excl, g, l, pend>>

NoCall == [op |-> "none", lin |-> FALSE, res |-> FALSE]

TraceInit == Init /\ l = 1 /\ pend = [o \in Owners |-> NoCall]

Ev == Trace[l]

TCall == /\ l <= Len(Trace) /\ Ev.ev = "call"
         /\ pend[Ev.o].op = "none"
         /\ pend' = [pend EXCEPT ![Ev.o] = [op |-> Ev.op, lin |-> FALSE, res |-> FALSE]]
         /\ l' = l + 1
         /\ UNCHANGED vars

Apply(o, op) == CASE op = "TryLock"  -> TryLock(o)
                  [] op = "TryRLock" -> TryRLock(o)
                  [] op = "Unlock"   -> Unlock(o)
                  [] op = "CanLock"  -> CanLock(o)
                  [] op = "CanRLock" -> CanRLock(o)

\* internal step: the critical section of the call in flight takes effect
Lin(o) == /\ pend[o].op # "none" /\ ~pend[o].lin
          /\ Apply(o, pend[o].op)
          /\ pend' = [pend EXCEPT ![o] = [@ EXCEPT !.lin = TRUE, !.res = last'.res]]
          /\ UNCHANGED l

TRet == /\ l <= Len(Trace) /\ Ev.ev = "ret"
        /\ pend[Ev.o].lin
        /\ pend[Ev.o].res = Ev.res              \* the logged result must be the specification's
        /\ pend' = [pend EXCEPT ![Ev.o] = NoCall]
        /\ l' = l + 1
        /\ UNCHANGED vars

TReset == /\ l <= Len(Trace) /\ Ev.ev = "reset"
          /\ \A o \in Owners : pend[o].op = "none"
          /\ sharedN' = 0 /\ excl' = None /\ g' = [o \in Owners |-> "unlocked"]
          /\ last' = [op |-> "Init", o |-> None, res |-> TRUE, mstate |-> "unlocked"]
          /\ hist' = <<>>
          /\ pend' = pend /\ l' = l + 1

TraceNext == TCall \/ TRet \/ TReset \/ \E o \in Owners : Lin(o)
TraceSpec == TraceInit /\ [][TraceNext]_tvars

\* "violated" exactly when the whole trace has been consumed, i.e. the trace is accepted
NotAccepted == l <= Len(Trace)
====
