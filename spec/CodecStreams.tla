---- MODULE CodecStreams ----
(***************************************************************************)
(* Several outgoing streams and writes that fail (property C18).           *)
(*                                                                         *)
(* A primary writes frames (WriteStreamFrame, client.go) to one connection *)
(* per replica.  A connection can die in the middle of a frame: the write  *)
(* then returns an error after the transport took only the first k bytes   *)
(* of what it was offered, and the stream is dead from then on (further    *)
(* writes to it fail at once and add nothing).  C18                        *)
(* ("read back by the peer as the identical value ... never a silently     *)
(* different value") requires that this concerns that stream only:         *)
(*                                                                         *)
(*   the byte sequence of every stream is the concatenation of the         *)
(*   encodings of the frames successfully written to it, followed - on a   *)
(*   dead stream - by a proper prefix of the one frame whose write failed. *)
(*                                                                         *)
(* Byte sequences are sequences of SEGMENTS [v, a, b]: bytes a..b-1 of the *)
(* encoding EncFrame(v) of Codec.tla, so that a complete frame is the      *)
(* segment [v, 0, WireLen(EncFrame(v))] and is decoded by DecFrame.        *)
(*                                                                         *)
(* Pooled = FALSE: WriteStreamFrame as coded (no state between calls).     *)
(* Pooled = TRUE : relevance variant - the frame is assembled in a buffer  *)
(* shared by all streams that is drained only by a successful write; what  *)
(* a failed write leaves in it is sent in front of the next frame.  TLC    *)
(* must refute StreamIsItsFrames.                                          *)
(* Every transition prints one EDGE line (p = "stream") with the complete  *)
(* sequence of writes; the harness replays it on the real code through     *)
(* writers that fail after k bytes.                                        *)
(***************************************************************************)
EXTENDS MC_Codec

CONSTANTS Streams,    \* 1..n
          MaxWrites,  \* writes per behaviour
          MaxFaults,  \* failing writes per behaviour
          Pooled,     \* FALSE: as coded; TRUE: shared encode buffer not reset on failure
          EmitS       \* TRUE: print one EDGE line per explored transition

VARIABLES wire,    \* per stream: the bytes the transport took, as a sequence of segments
          acked,   \* per stream: frames whose write returned nil
          failed,  \* per stream: <<>> or <<[v, k]>> - the write that returned an error; the stream is dead
          pool,    \* Pooled: what is left in the shared buffer
          ops      \* the writes so far (history; hidden by VIEW)

svars == <<vars, wire, acked, failed, pool, ops>>
sview == <<wire, acked, failed, pool>>

Seg(v, a, b) == [v |-> v, a |-> a, b |-> b]
FLen(v) == WireLen(EncFrame(v))
Full(v) == Seg(v, 0, FLen(v))

RECURSIVE ByteLen(_)
ByteLen(w) == IF w = <<>> THEN 0 ELSE (Head(w).b - Head(w).a) + ByteLen(Tail(w))

\* first k bytes / everything after the first k bytes of a segment sequence (no empty segments)
RECURSIVE Take(_, _)
Take(w, k) == IF k = 0 \/ w = <<>> THEN <<>>
              ELSE LET n == Head(w).b - Head(w).a IN
                   IF k >= n THEN <<Head(w)>> \o Take(Tail(w), k - n)
                   ELSE <<Seg(Head(w).v, Head(w).a, Head(w).a + k)>>
RECURSIVE Drop(_, _)
Drop(w, k) == IF w = <<>> THEN <<>>
              ELSE IF k = 0 THEN w
              ELSE LET n == Head(w).b - Head(w).a IN
                   IF k >= n THEN Drop(Tail(w), k - n)
                   ELSE <<Seg(Head(w).v, Head(w).a + k, Head(w).b)>> \o Tail(w)

SInit == /\ Init
         /\ wire = [s \in Streams |-> <<>>]
         /\ acked = [s \in Streams |-> <<>>]
         /\ failed = [s \in Streams |-> <<>>]
         /\ pool = <<>>
         /\ ops = <<>>

Faults == Cardinality({s \in Streams : failed[s] # <<>>})

\* what one call of WriteStreamFrame(w, v) offers to the transport, in order
Offered(v) == IF Pooled THEN pool \o <<Full(v)>> ELSE <<Full(v)>>

\* failure offsets: before the first byte, after the first, in the middle, before the last
Offsets(n) == {k \in {0, 1, n \div 2, n - 1} : k >= 0 /\ k < n}

WriteOK(s, v) ==
  /\ Len(ops) < MaxWrites /\ failed[s] = <<>>
  /\ wire' = [wire EXCEPT ![s] = @ \o Offered(v)]
  /\ acked' = [acked EXCEPT ![s] = Append(@, v)]
  /\ pool' = <<>>
  /\ ops' = Append(ops, [s |-> s, v |-> v, k |-> -1])
  /\ UNCHANGED <<vars, failed>>

\* the transport of s takes k bytes of what it is offered and reports an error
WriteFail(s, v, k) ==
  /\ Len(ops) < MaxWrites /\ failed[s] = <<>> /\ Faults < MaxFaults
  /\ k \in Offsets(ByteLen(Offered(v)))
  /\ wire' = [wire EXCEPT ![s] = @ \o Take(Offered(v), k)]
  /\ failed' = [failed EXCEPT ![s] = <<[v |-> v, k |-> k]>>]
  /\ pool' = IF Pooled THEN Drop(Offered(v), k) ELSE <<>>
  /\ ops' = Append(ops, [s |-> s, v |-> v, k |-> k])
  /\ UNCHANGED <<vars, acked>>

\* one more write to a stream that is already dead (e.g. the End frame a handler sends when it gives
\* up): the transport takes nothing and reports an error
WriteDead(s, v) ==
  /\ Len(ops) < MaxWrites /\ failed[s] # <<>>
  /\ pool' = IF Pooled THEN Offered(v) ELSE <<>>
  /\ ops' = Append(ops, [s |-> s, v |-> v, k |-> 0])
  /\ UNCHANGED <<vars, wire, acked, failed>>

StreamEdge == [p |-> "stream", ops |-> ops',
               wlen |-> [s \in Streams |-> ByteLen(wire'[s])],
               nack |-> [s \in Streams |-> Len(acked'[s])]]

SNext == /\ \E s \in Streams, v \in FrameValues :
              \/ WriteOK(s, v)
              \/ \E k \in Offsets(ByteLen(Offered(v))) : WriteFail(s, v, k)
              \/ WriteDead(s, v)
         /\ (EmitS => PrintT("EDGE " \o ToJson(StreamEdge)))

SSpec == SInit /\ [][SNext]_svars

(* ========================= properties (C18) ============================ *)

RECURSIVE Fulls(_)
Fulls(q) == IF q = <<>> THEN <<>> ELSE <<Full(Head(q))>> \o Fulls(Tail(q))

\* every stream is the concatenation of the frames written to it, plus a proper prefix of the one
\* failed frame on a dead stream - whatever happened on the other streams
StreamIsItsFrames ==
  \A s \in Streams :
     wire[s] = Fulls(acked[s]) \o (IF failed[s] = <<>> THEN <<>>
                                   ELSE Take(<<Full(failed[s][1].v)>>, failed[s][1].k))

FailedIsProperPrefix == \A s \in Streams : failed[s] # <<>> => failed[s][1].k < FLen(failed[s][1].v)

\* the peer of a healthy stream reads back exactly the frames written to it (DecFrame of Codec.tla on
\* each complete segment; a segment that is not a complete frame is not a frame the primary wrote)
DecSeg(g) == IF g.a = 0 /\ g.b = FLen(g.v) THEN DecFrame(EncFrame(g.v), g.b)
             ELSE [ok |-> FALSE, vals |-> <<>>, err |-> "foreign"]
HealthyStreamReadsBack ==
  \A s \in Streams : failed[s] = <<>> =>
     /\ Len(wire[s]) = Len(acked[s])
     /\ \A i \in 1..Len(wire[s]) : DecSeg(wire[s][i]).ok /\ DecSeg(wire[s][i]).vals = acked[s][i].f
                                   /\ wire[s][i].v.t = acked[s][i].t

\* a write changes the bytes of its own stream only
WriteIsLocal ==
  [][ \A t \in Streams : (ops' # ops /\ ops'[Len(ops')].s # t) => wire'[t] = wire[t] ]_svars
====
