\* relevance: FwdFirst = FALSE (seeded mutation) must violate AckedIsOnPrimary
SPECIFICATION Spec
CONSTANTS
  TxHolderCheck = TRUE
  UnsetFix = TRUE
  CatchUpKeeps = TRUE
  GrantPins = TRUE
  IdemCheck = TRUE
  WaitPos = TRUE
  FwdFirst = FALSE
  MaxDrop = 0
  DropExcluded = TRUE
  ExpiryUnlocks = TRUE
  MaxTx = 2
  MaxFaults = 1
  MaxHandles = 1
  MaxExpire = 1
  MaxPChange = 0
  MaxRogue = 0
  MaxBlock = 0
  MaxCkpt = 1
  MaxIdle = 1
  MaxSteps = 0
  Eager = FALSE
  Emit = "none"
VIEW view
INVARIANTS AckedIsOnPrimary
CHECK_DEADLOCK FALSE
