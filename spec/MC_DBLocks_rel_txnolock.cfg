\* DBLocks.tla: RELEVANCE and model-level reproduction of the known defect: /tx writes with no lock => WritesInsideSection must be violated
SPECIFICATION Spec
CONSTANTS
  Clients = {"a", "b"}
  Internals = {"i"}
  Mode = "rollback"
  ReadMarks = {}
  DbOpsInWal = FALSE
  WithSnapshot = FALSE
  CkptGate = TRUE
  SkipLock = "none"
  TxNoLock = TRUE
  WalGuard = TRUE
  WalOwnerTest = FALSE
  FlushAll = FALSE
  Exclude = {}
  Gated = FALSE
  EmitEdges = FALSE
VIEW view
INVARIANTS TypeOK
PROPERTIES WritesInsideSection
CHECK_DEADLOCK FALSE
