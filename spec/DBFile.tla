---- MODULE DBFile ----
(***************************************************************************)
(* One LiteFS database on one writable node: SQLite's pager (environment)  *)
(* issuing file operations, and LiteFS's reaction to each of them          *)
(* (implementation model, transcribed from db.go).                         *)
(*                                                                         *)
(* Page contents are records [v, sz, wal]: v is a version number, page 1   *)
(* additionally carries the database size in pages (sz) and the journal    *)
(* mode flag of the SQLite header (wal).  A checksum is the SET of         *)
(* <<page, content>> pairs (XOR of injective page hashes = symmetric       *)
(* difference).  BlockOf / LockPg are the layout constants (DESIGN 3.2).   *)
(*                                                                         *)
(* Every action is one FUSE-visible operation of the pager or one internal *)
(* LiteFS operation, so a behaviour IS a replay script: `hist` records the *)
(* action names and arguments plus the predicted observables.              *)
(***************************************************************************)
EXTENDS Integers, Sequences, FiniteSets, TLC, Json

CONSTANTS MaxPg,      \* model pages 1..MaxPg
          MaxOps,     \* budget of environment operations (transactions, checkpoints, ...)
          BlockOf,    \* model page -> checksum block (layout)
          LockPg,     \* model page number of SQLite's lock page (0 = none in range)
          AllowWAL,   \* WAL mode reachable
          FinModes,   \* subset of {"DELETE","TRUNCATE","PERSIST"}
          AllowSpill, \* rollback-journal transactions may spill / roll back after writing
          AllowBeyond,\* transactions may write pages beyond their committed size (spill, then free: incremental vacuum)
          FixBeyond,  \* TRUE = CommitWAL leaves frames of pages beyond the commit size out of the LTX file (as repaired)
          AllowNoSync,\* journal headers written with magic from the start (synchronous=OFF)
          FixOOB,     \* TRUE = checksum() bounds as repaired, FALSE = as originally written
          FixFirstRb, \* TRUE = CommitJournal treats an empty database file as "nothing to capture" (as repaired)
          AllowCrash, \* the LiteFS process may die (volatile state lost) and restart on the same data directory
          FixJournalNoPS, \* TRUE = restart with a journal but unknown page size just discards the journal (as repaired)
          AllowHoles,     \* a growing transaction may leave new pages unwritten (allocated and freed again: SQLite never
                          \* writes them, the file is extended over them)
          FixHoles,       \* TRUE = CommitJournal captures such pages from the file (as repaired, f24d514)
          AllowFailCommit,\* a committing journal transaction may fail at its publication (the LTX file cannot be renamed into
                          \* place, or the primary refuses a forwarded commit): SQLite gets an error and rolls the transaction back
          FixFailedCommit,\* TRUE = such a failure leaves the page checksums untouched (as repaired, bf4ca29); FALSE = as coded
                          \* before: the checksums of the pages behind the new size are already cleared when the commit fails
          AllowFreeReuse, \* transactions may overwrite free pages without journalling them (SQLite: free-list leaves)
          AllowFromWal,   \* journal-mode switch from WAL back to a rollback journal reachable
          FixModeSwitch,  \* TRUE = creating a journal puts the database in rollback mode (as repaired, fa80c49)
          FixModeOnOpen,  \* TRUE = restart re-derives the journal mode from the recovered header (as repaired)
          AllowDropDB,\* the database may be deleted (RootNode.Remove -> DB.Drop) and created again
          AllowRetain,\* retention sweeps (Store.EnforceRetention with a zero-length retention) between operations
          Emit        \* "none" | "idle" (print the path of every distinct idle state) | "end"

Pages == 1..MaxPg
ZERO == [v |-> 0, sz |-> 0, wal |-> FALSE]
\* a page of zero bytes that exists only because the file was extended over it (its checksum is not "unset")
ZP == [v |-> 0 - 1, sz |-> 0, wal |-> FALSE]
Max(S) == CHOOSE x \in S : \A y \in S : y <= x
SeqOfSet(S) == CHOOSE f \in [1..Cardinality(S) -> S] : \A a, b \in 1..Cardinality(S) : a < b => f[a] < f[b]
Range(f) == {f[x] : x \in DOMAIN f}

VARIABLES
  \* ---- durable files ----
  dbf,      \* Seq of page contents; file length = Len(dbf) pages
  jr,       \* journal: [ex, hdr ("none" zeroed/empty | "unsynced" no magic yet | "valid"), orig, recs]   recs : pg -> original content
  wal,      \* [ex, hdr (salt of header, 0 = no header), frames]
  ltxN,     \* number of LTX files written
  ltxLast,  \* newest LTX file [min,max,pre,post,commit,pages] (or NoLtx)
  \* ---- LiteFS volatile state ----
  psKnown, pageN, pos, mode, dirty, pchk, blk, woff, wsalt, foff, wchk, fault,
  \* ---- environment (SQLite) and reference semantics ----
  pc, plan, todo, refImg, ops, salts, mx, ckpted,
  \* ---- monitors accumulated over the behaviour (history, cheap) ----
  okDelta, okChain, okImage, okRecover, crashed,
  hist

lvars == <<psKnown, pageN, pos, mode, dirty, pchk, blk, woff, wsalt, foff, wchk, fault>>
dvars == <<dbf, jr, wal, ltxN, ltxLast>>
evars == <<pc, plan, todo, refImg, ops, salts, mx, ckpted>>
mvars == <<okDelta, okChain, okImage, okRecover, crashed>>
vars  == <<dvars, lvars, evars, mvars, hist>>
view  == <<dvars, lvars, evars, mvars>>

NoJr  == [ex |-> FALSE, hdr |-> "none", orig |-> 0, recs |-> <<>>]
NoWal == [ex |-> FALSE, hdr |-> 0, frames |-> <<>>]
NoLtx == [min |-> 0, max |-> 0, pre |-> {}, post |-> {}, commit |-> 0, pages |-> <<>>, wsalt |-> 0, woff |-> 0, wn |-> 0]
NoPlan == [kind |-> "none"]
EmptyChk == {}
INV == [ok |-> FALSE, agg |-> {}]
Val(a) == [ok |-> TRUE, agg |-> a]

Init ==
  /\ dbf = <<>> /\ jr = NoJr /\ wal = NoWal /\ ltxN = 0 /\ ltxLast = NoLtx
  /\ psKnown = FALSE /\ pageN = 0 /\ pos = [t |-> 0, c |-> EmptyChk] /\ mode = "rb" /\ dirty = {}
  /\ pchk = <<>> /\ blk = <<>> /\ woff = 0 /\ wsalt = 0 /\ foff = <<>> /\ wchk = <<>> /\ fault = "none"
  /\ pc = "idle" /\ plan = NoPlan /\ todo = <<>> /\ refImg = <<>> /\ ops = 0 /\ salts = 0 /\ mx = 0 /\ ckpted = FALSE
  /\ okDelta = TRUE /\ okChain = TRUE /\ okImage = TRUE /\ okRecover = "ok" /\ crashed = FALSE
  /\ hist = <<>>

(* ====================== LiteFS checksum machinery (db.go checksum()) ====================== *)
PChk(pc0, p) == IF p <= Len(pc0) THEN pc0[p] ELSE ZERO
BlockAgg(pc0, b) == {<<p, pc0[p]>> : p \in {q \in 1..Len(pc0) : BlockOf[q] = b /\ pc0[q] # ZERO}}

\* setDatabasePageChecksum: grow table, lock page forced to zero, clear cached block aggregate
SetPChk(pc0, bl0, p, c) ==
  LET c1 == IF p = LockPg THEN ZERO ELSE c
      grown == IF p > Len(pc0) THEN pc0 \o [i \in 1..(p - Len(pc0)) |-> ZERO] ELSE pc0
      b == BlockOf[p]
  IN <<[grown EXCEPT ![p] = c1], IF b + 1 <= Len(bl0) THEN [bl0 EXCEPT ![b + 1] = INV] ELSE bl0>>

\* resetDatabasePageChecksumsAfter(n)
ResetAfter(pc0, bl0, n) ==
  LET idx == {p \in 1..Len(pc0) : p > n}
  IN <<[p \in 1..Len(pc0) |-> IF p \in idx THEN ZERO ELSE pc0[p]],
       [b \in 1..Len(bl0) |-> IF \E p \in idx : BlockOf[p] + 1 = b THEN INV ELSE bl0[b]]>>

RECURSIVE SetHoles(_, _, _)
SetHoles(pc0, bl0, S) == IF S = {} THEN <<pc0, bl0>>
                         ELSE LET p == CHOOSE x \in S : TRUE  r == SetPChk(pc0, bl0, p, dbf[p]) IN SetHoles(r[1], r[2], S \ {p})

\* the cached aggregate of block b: the cache holds a value only if not invalidated; a cached value
\* is whatever was computed when it was filled.  Filling happens inside checksum(); we keep the
\* cache as INV or Val(aggregate set).
CachedAgg(pc0, bl0, b) ==
  IF b + 1 <= Len(bl0) /\ bl0[b + 1].ok THEN bl0[b + 1].agg ELSE BlockAgg(pc0, b)
FillCache(pc0, bl0, bs) ==   \* blocks in bs were (re)computed by blockChksum
  LET n == IF bs = {} THEN Len(bl0) ELSE Max({Len(bl0)} \cup {b + 1 : b \in bs})
  IN [i \in 1..n |-> IF (i - 1) \in bs /\ (i > Len(bl0) \/ ~bl0[i].ok) THEN Val(BlockAgg(pc0, i - 1))
                     ELSE IF i <= Len(bl0) THEN bl0[i] ELSE INV]

PageChk(pc0, p, n, newW) ==       \* pageChecksum: <<content, ok>>
  IF p = LockPg THEN <<ZERO, TRUE>>
  ELSE IF p > n THEN <<ZERO, FALSE>>
  ELSE IF p \in DOMAIN newW THEN <<newW[p], TRUE>>
  ELSE IF p \in DOMAIN wchk /\ Len(wchk[p]) > 0 THEN <<wchk[p][Len(wchk[p])], TRUE>>
  ELSE <<PChk(pc0, p), PChk(pc0, p) # ZERO>>

\* checksum(n, newW) over table pc0/cache bl0: [c, err, blk]
Checksum(pc0, bl0, n, newW) ==
  IF n = 0 THEN [c |-> EmptyChk, err |-> "none", blk |-> bl0] ELSE
  LET blockN == BlockOf[n] + 1
      ign0 == {BlockOf[p] : p \in (DOMAIN wchk) \cup (DOMAIN newW)}
      ign == IF FixOOB THEN {b \in ign0 : b < blockN} ELSE ign0
  IN IF \E b \in ign : b >= blockN THEN [c |-> EmptyChk, err |-> "oob", blk |-> bl0] ELSE
     LET useCache(b) == b \notin ign /\ CachedAgg(pc0, bl0, b) # {}
         perPage(b) == {p \in 1..n : BlockOf[p] = b /\ p # LockPg}
         missing == \E b \in 0..(blockN - 1) : ~useCache(b) /\ \E p \in perPage(b) : ~PageChk(pc0, p, n, newW)[2]
         parts == UNION {IF useCache(b) THEN CachedAgg(pc0, bl0, b)
                         ELSE {<<p, PageChk(pc0, p, n, newW)[1]>> : p \in {q \in perPage(b) : PageChk(pc0, q, n, newW)[1] # ZERO}} : b \in 0..(blockN - 1)}
     IN [c |-> parts, err |-> IF missing THEN "missing" ELSE "none",
         blk |-> FillCache(pc0, bl0, {b \in 0..(blockN - 1) : b \notin ign})]

(* ====================== reference semantics ====================== *)
FrameAt(i) == wal.frames[i]
Logical(n) == [p \in 1..n |-> IF p \in DOMAIN foff THEN FrameAt(foff[p]).c ELSE IF p <= Len(dbf) THEN dbf[p] ELSE ZERO]
FromScratch(n) == {<<p, Logical(n)[p]>> : p \in {q \in 1..n : q # LockPg}}
CurSize == Len(refImg)
EnvWal == refImg # <<>> /\ refImg[1].wal      \* the journal mode SQLite reads from the database header
ApplyL(img, e) == [p \in 1..e.commit |-> IF p \in DOMAIN e.pages THEN e.pages[p] ELSE IF p <= Len(img) THEN img[p] ELSE ZERO]
SameImage(a, b) == Len(a) = Len(b) /\ \A p \in 1..Len(a) : p # LockPg => a[p] = b[p]

NewContent(p) == [v |-> plan.v, sz |-> IF p = 1 THEN plan.ns ELSE 0, wal |-> IF p = 1 THEN plan.wal ELSE FALSE]
FreeContent(p) == [v |-> plan.v + 300, sz |-> 0, wal |-> FALSE]
\* what SQLite sees after a rollback: the previous image, except the reused free pages
RolledBackImage == [p \in 1..Len(refImg) |-> IF p \in plan.F THEN FreeContent(p) ELSE refImg[p]]
PlanU == IF plan.kind = "j" THEN plan.U ELSE {}
NewImage == [p \in 1..plan.ns |-> IF p \in plan.M THEN NewContent(p) ELSE IF p <= Len(refImg) THEN refImg[p]
                                   ELSE IF p \in PlanU THEN ZP ELSE ZERO]

(* ====================== history ====================== *)
Obs == [t |-> pos'.t, n |-> pageN', m |-> mode', f |-> fault', nl |-> ltxN', i |-> (pc' = "idle")]
H(a, args) == hist' = Append(hist, [a |-> a, g |-> args, o |-> Obs])

(* ====================== environment: start an operation ====================== *)
Live == fault = "none"

\* SQLite leaves WAL mode (PRAGMA journal_mode=DELETE|TRUNCATE|PERSIST) with the log fully checkpointed
\* and cut (sqlite3WalClose under the exclusive lock); it deletes the log and then rewrites the header
\* in an ordinary rollback-journal transaction - while the header LiteFS last saw still says WAL
WalGone == ~wal.ex \/ (wal.frames = <<>> /\ mx = 0)
BeginJ ==
  /\ pc = "idle" /\ ops < MaxOps /\ Live /\ (~EnvWal \/ (AllowFromWal /\ WalGone))
  /\ pc' = (IF EnvWal THEN "j_rmwal" ELSE "j_create") /\ todo' = <<>> /\ ops' = ops + 1
  /\ UNCHANGED <<dvars, lvars, refImg, salts, mx, ckpted, mvars>>
  \* (the domains of M, E and F are written as narrow as their constraints allow: in simulation mode TLC
  \* enumerates every successor of a state before it picks one)
  /\ \E ns \in 1..MaxPg, out \in ({"commit", "rb_early", "rb_spill"} \cup (IF AllowFailCommit THEN {"fail_rb"} ELSE {})),
        fin \in FinModes, nosync \in BOOLEAN, toWal \in BOOLEAN :
     \E M \in SUBSET (1..ns) :
     \E E \in (IF AllowBeyond /\ out = "commit" THEN SUBSET ((ns + 1)..MaxPg) ELSE {{}}),
        F \in (IF AllowFreeReuse /\ out = "rb_spill" THEN SUBSET ((2..CurSize) \ M) ELSE {{}}),
        U \in (IF AllowHoles /\ out = "commit" /\ ns > CurSize + 1 THEN SUBSET (((CurSize + 1)..(ns - 1)) \ (M \cup {LockPg})) ELSE {{}}) :
       \* U: new pages that the transaction allocated and freed again: never written, the file grows over them
       \* (the last page is always written, that is what extends the file)
       /\ 1 \in M /\ M \subseteq 1..ns /\ (((CurSize + 1)..ns) \ {LockPg}) \subseteq (M \cup U) /\ LockPg \notin M
       /\ (U # {} => E = {} /\ ~toWal)
       /\ ns # LockPg          \* SQLite never ends a database on the lock page (it skips it when it grows)
       \* E: pages beyond the committed size that were spilled to the file during the transaction and
       \* then freed again (incremental vacuum): written, but not part of the committed database
       /\ E \subseteq (ns + 1)..MaxPg /\ LockPg \notin E
       /\ (E # {} => AllowBeyond /\ out = "commit" /\ \A q \in (Max({CurSize, ns}) + 1)..Max(E) : q \in E \/ q = LockPg)
       /\ (nosync => AllowNoSync)
       /\ (out = "rb_spill" => AllowSpill)
       \* fail_rb: every step of a committing transaction, then the publication fails and SQLite rolls back
       /\ (out = "fail_rb" => AllowFailCommit /\ ~nosync /\ ~toWal /\ CurSize > 0)
       \* F: free-list leaf pages the transaction reuses. SQLite neither reads nor journals them (their
       \* content is "don't care"), so a rollback does not restore them: after it the file differs from
       \* the pre-transaction file in exactly these pages (observed with real SQLite, T3 tier). In a
       \* committing transaction they are ordinary members of M, so F matters for rollbacks only.
       /\ F \subseteq (2..CurSize) \ (M \cup {LockPg}) /\ (F # {} => AllowFreeReuse /\ out = "rb_spill")
       /\ (toWal => AllowWAL /\ out = "commit" /\ ~EnvWal)      \* in WAL mode a journal transaction is the one that leaves it
       \* SQLite removes the journal file when it enters WAL mode, whatever the previous mode was (observed
       \* with real SQLite in the T3 tier): no journal file exists while the database is in WAL mode
       /\ (toWal => fin = "DELETE")
       /\ plan' = [kind |-> "j", ns |-> ns, M |-> M, out |-> out, fin |-> fin, nosync |-> nosync,
                   wal |-> toWal, v |-> ops + 1, E |-> E, F |-> F, U |-> U,
                   \* whether the journal file existed already (left by PERSIST / TRUNCATE): LiteFS then sees an
                   \* open, not a create - kept in the plan so that both ways of reaching a state are emitted
                   jpre |-> jr.ex]
       /\ H("BeginJ", [ns |-> ns, M |-> M, out |-> out, fin |-> fin, nosync |-> nosync, wal |-> toWal, v |-> ops + 1, E |-> E, F |-> F, U |-> U])

(* ---------------- rollback-journal protocol ---------------- *)
\* leaving WAL mode: the (empty) log is unlinked; RemoveWAL clears LiteFS's frame bookkeeping
JRmWal ==
  /\ pc = "j_rmwal"
  /\ wal' = [ex |-> FALSE, hdr |-> 0, frames |-> <<>>] /\ foff' = <<>> /\ wchk' = <<>> /\ mx' = 0 /\ ckpted' = FALSE
  /\ pc' = "j_create"
  /\ UNCHANGED <<dbf, jr, ltxN, ltxLast, psKnown, pageN, pos, mode, dirty, pchk, blk, woff, wsalt, fault,
                 plan, todo, refImg, ops, salts, mvars>>
  /\ H("JRmWal", [x |-> 0])

\* journal created (or re-opened in TRUNCATE/PERSIST mode), header + records of the pre-existing pages in M
JCreate ==
  /\ pc = "j_create"
  /\ jr' = [ex |-> TRUE, hdr |-> IF plan.nosync THEN "valid" ELSE "unsynced", orig |-> CurSize,
            recs |-> [p \in {q \in plan.M \cup plan.E : q <= CurSize} |-> refImg[p]]]
  /\ psKnown' = TRUE                 \* WriteJournalAt takes the page size from the header
  /\ mode' = (IF FixModeSwitch THEN "rb" ELSE mode)     \* CreateJournal: only a rollback-mode connection creates a journal
  /\ pc' = IF plan.out = "rb_early" THEN "j_final" ELSE "j_sync"
  /\ UNCHANGED <<dbf, wal, ltxN, ltxLast, pageN, pos, dirty, pchk, blk, woff, wsalt, foff, wchk, fault,
                 plan, todo, refImg, ops, salts, mx, ckpted, mvars>>
  /\ H("JCreate", [x |-> 0])

JSync ==     \* fsync + magic/nRec written into the header, before the first database write
  /\ pc = "j_sync"
  /\ jr' = [jr EXCEPT !.hdr = "valid"]
  /\ pc' = "j_pages"
  /\ todo' = IF plan.out \in {"commit", "fail_rb"} THEN SeqOfSet(plan.M \cup plan.E)
             ELSE <<Head(SeqOfSet(plan.M))>> \o SeqOfSet(plan.F)   \* spill: the first page and the reused free pages reach the file
  /\ UNCHANGED <<dbf, wal, ltxN, ltxLast, lvars, plan, refImg, ops, salts, mx, ckpted, mvars>>
  /\ H("JSync", [x |-> 0])

\* WriteDatabaseAt -> writeDatabasePage (client write: dirty set only in rollback mode)
DBWriteEff(p, c) ==
  LET r == SetPChk(pchk, blk, p, c) IN
  /\ dbf' = IF p <= Len(dbf) THEN [dbf EXCEPT ![p] = c]
            ELSE dbf \o [i \in 1..(p - Len(dbf)) |-> IF Len(dbf) + i = p THEN c ELSE IF (Len(dbf) + i) \in PlanU THEN ZP ELSE ZERO]
  /\ pchk' = r[1] /\ blk' = r[2]
  /\ dirty' = IF mode = "rb" THEN dirty \cup {p} ELSE dirty

JPage ==
  /\ pc = "j_pages" /\ todo # <<>>
  /\ DBWriteEff(Head(todo), IF Head(todo) \in plan.E THEN [NewContent(Head(todo)) EXCEPT !.v = plan.v + 200]
                             ELSE IF Head(todo) \in plan.F THEN FreeContent(Head(todo)) ELSE NewContent(Head(todo)))
  /\ todo' = Tail(todo)
  /\ pc' = IF Tail(todo) # <<>> THEN "j_pages" ELSE IF plan.out = "commit" THEN "j_final"
           ELSE IF plan.out = "fail_rb" THEN "j_fail" ELSE "j_rb_trunc"
  /\ UNCHANGED <<jr, wal, ltxN, ltxLast, psKnown, pageN, pos, mode, woff, wsalt, foff, wchk, fault,
                 plan, refImg, ops, salts, mx, ckpted, mvars>>
  /\ H("JPage", [p |-> Head(todo), x |-> Head(todo) \in plan.E, fr |-> Head(todo) \in plan.F])

\* TruncateDatabase (db.go): only to LiteFS's own page count
TruncEff(n) ==
  IF ~psKnown THEN fault' = "trunc-nopagesize" /\ UNCHANGED <<dbf, pchk, blk>>
  ELSE IF n # pageN THEN fault' = "trunc-refused" /\ UNCHANGED <<dbf, pchk, blk>>
  ELSE LET r == ResetAfter(pchk, blk, n) IN
       /\ dbf' = IF n <= Len(dbf) THEN SubSeq(dbf, 1, n) ELSE dbf \o [i \in 1..(n - Len(dbf)) |-> ZERO]
       /\ pchk' = r[1] /\ blk' = r[2] /\ UNCHANGED fault

\* rollback after spill: SQLite first truncates the file back to the original size ...
JRbTrunc ==
  /\ pc = "j_rb_trunc"
  /\ IF Len(dbf) > jr.orig THEN TruncEff(jr.orig) ELSE UNCHANGED <<dbf, pchk, blk, fault>>
  /\ todo' = SeqOfSet(DOMAIN jr.recs)
  /\ pc' = IF DOMAIN jr.recs = {} THEN "j_final" ELSE "j_rb_pages"
  /\ UNCHANGED <<jr, wal, ltxN, ltxLast, psKnown, pageN, pos, mode, dirty, woff, wsalt, foff, wchk,
                 plan, refImg, ops, salts, mx, ckpted, mvars>>
  /\ H("JRbTrunc", [n |-> jr.orig])

\* ... then plays the journalled originals back
JRbPage ==
  /\ pc = "j_rb_pages" /\ todo # <<>>
  /\ DBWriteEff(Head(todo), jr.recs[Head(todo)])
  /\ todo' = Tail(todo)
  /\ pc' = IF Tail(todo) # <<>> THEN "j_rb_pages" ELSE "j_final"
  /\ UNCHANGED <<jr, wal, ltxN, ltxLast, psKnown, pageN, pos, mode, woff, wsalt, foff, wchk, fault,
                 plan, refImg, ops, salts, mx, ckpted, mvars>>
  /\ H("JRbPage", [p |-> Head(todo)])

\* CommitJournal fails when it publishes the transaction (rename of the LTX file refused by the OS, forwarded
\* commit refused by the primary): nothing of the transaction is in the log, the position stays, the journal stays.
\* As coded before bf4ca29 the checksums of the pages behind the transaction's size were cleared by then.
JFinalFail ==
  /\ pc = "j_fail"
  /\ LET commit == dbf[1].sz
         r == ResetAfter(pchk, blk, commit)
     IN IF FixFailedCommit THEN UNCHANGED <<pchk, blk>> ELSE pchk' = r[1] /\ blk' = r[2]
  /\ pc' = "j_rb_trunc"
  /\ UNCHANGED <<dbf, jr, wal, ltxN, ltxLast, psKnown, pageN, pos, mode, dirty, woff, wsalt, foff, wchk, fault,
                 plan, todo, refImg, ops, salts, mx, ckpted, mvars>>
  /\ H("JFinalFail", [fin |-> plan.fin])

JournalGone == IF plan.fin = "DELETE" THEN NoJr
               ELSE IF plan.fin = "TRUNCATE" THEN [NoJr EXCEPT !.ex = TRUE]
               ELSE [jr EXCEPT !.hdr = "none"]

\* CommitJournal (db.go), reached by unlink / truncate / zeroed header
JFinal ==
  /\ pc = "j_final"
  /\ LET newRef == IF plan.out = "commit" THEN NewImage ELSE IF plan.out = "rb_spill" THEN RolledBackImage ELSE refImg IN
     IF jr.hdr # "valid" \/ (FixFirstRb /\ dbf = <<>>)
     THEN \* invalid header (or, as repaired, still-empty database file): only invalidates the journal
          /\ jr' = JournalGone /\ dirty' = {}
          /\ okImage' = (okImage /\ plan.out # "commit")
          /\ UNCHANGED <<ltxN, ltxLast, pageN, pos, mode, pchk, blk, fault, okDelta, okChain, okRecover, crashed>>
          /\ refImg' = refImg
     ELSE IF dbf = <<>>
     THEN \* "cannot read database size: EOF"
          /\ fault' = "dbsize-eof"
          /\ UNCHANGED <<jr, dirty, ltxN, ltxLast, pageN, pos, mode, pchk, blk, mvars, refImg>>
     ELSE LET commit == dbf[1].sz
              \* as repaired: pages the database grew over without a write are taken from the file
              holes == IF FixHoles THEN {p \in (pageN + 1)..commit : p \notin dirty /\ p # LockPg /\ p <= Len(dbf)} ELSE {}
              hp == SetHoles(pchk, blk, holes)
              pgs == {p \in dirty \cup holes : p <= commit /\ p # LockPg}
              readErr == \E p \in pgs : p > Len(dbf)
              mismatch == \E p \in pgs : p <= Len(dbf) /\ PChk(hp[1], p) # dbf[p]
              snapBad == pos.t = 0 /\ pgs # {q \in 1..commit : q # LockPg}
              r == ResetAfter(hp[1], hp[2], commit)
              cs == Checksum(r[1], r[2], commit, <<>>)
              newMode == IF 1 \in pgs /\ dbf[1].wal THEN "wal" ELSE "rb"
              e == [min |-> pos.t + 1, max |-> pos.t + 1, pre |-> pos.c, post |-> cs.c, commit |-> commit,
                    pages |-> [p \in pgs |-> dbf[p]], wsalt |-> 0, woff |-> 0, wn |-> 0]
          IN IF readErr \/ mismatch \/ snapBad \/ cs.err # "none" \/ commit = 0
             THEN /\ fault' = (IF commit = 0 THEN "commit-zero" ELSE IF readErr THEN "read-short" ELSE IF mismatch THEN "chk-mismatch"
                               ELSE IF snapBad THEN "snapshot-pages" ELSE cs.err)
                  /\ UNCHANGED <<jr, dirty, ltxN, ltxLast, pageN, pos, mode, pchk, blk, mvars, refImg>>
             ELSE /\ ltxLast' = e /\ ltxN' = ltxN + 1
                  /\ jr' = JournalGone /\ dirty' = {} /\ pchk' = r[1] /\ blk' = cs.blk
                  /\ pageN' = commit /\ mode' = newMode /\ pos' = [t |-> pos.t + 1, c |-> cs.c]
                  /\ refImg' = newRef
                  /\ okDelta' = (okDelta /\ SameImage(ApplyL(refImg, e), newRef)
                                         /\ \A p \in DOMAIN e.pages : p <= e.commit /\ p # LockPg)
                  /\ okChain' = (okChain /\ e.pre = pos.c)
                  /\ okImage' = okImage
                  /\ UNCHANGED <<fault, okRecover, crashed>>
  /\ pc' = IF plan.out = "commit" /\ plan.ns < Len(dbf) THEN "j_trunc" ELSE "idle"
  /\ UNCHANGED <<dbf, wal, psKnown, woff, wsalt, foff, wchk, plan, todo, ops, salts, mx, ckpted>>
  /\ H("JFinal", [fin |-> plan.fin])

\* shrink: SQLite truncates the database file AFTER the journal is finalised
JTrunc ==
  /\ pc = "j_trunc"
  /\ TruncEff(plan.ns)
  /\ pc' = "idle"
  /\ UNCHANGED <<jr, wal, ltxN, ltxLast, psKnown, pageN, pos, mode, dirty, woff, wsalt, foff, wchk,
                 plan, todo, refImg, ops, salts, mx, ckpted, mvars>>
  /\ H("JTrunc", [n |-> plan.ns])

(* ---------------- WAL protocol ---------------- *)
\* a write transaction in WAL mode: frames for the pages of M in page order, optionally preceded by an
\* early (spilled) version of page `dup`; out = "commit" | "rollback" (frames without commit frame)
BeginW ==
  /\ pc = "idle" /\ ops < MaxOps /\ Live /\ EnvWal
  /\ pc' = "w_hdr" /\ todo' = <<>> /\ ops' = ops + 1
  /\ UNCHANGED <<dvars, lvars, refImg, salts, mx, ckpted, mvars>>
  /\ \E ns \in 1..MaxPg, out \in {"commit", "rollback"} :
     \E M \in SUBSET (1..ns) :
     \E dup \in (IF AllowSpill THEN {0} \cup M ELSE {0}),
        E \in (IF AllowBeyond /\ out = "commit" THEN SUBSET ((ns + 1)..MaxPg) ELSE {{}}) :
       /\ 1 \in M /\ M \subseteq 1..ns /\ (((CurSize + 1)..ns) \ {LockPg}) \subseteq M /\ LockPg \notin M
       /\ ns # LockPg          \* SQLite never ends a database on the lock page (it skips it when it grows)
       /\ (dup # 0 => dup \in M /\ AllowSpill)
       \* E: frames of pages beyond the committed size (spilled, then freed before the commit)
       /\ E \subseteq (ns + 1)..MaxPg /\ LockPg \notin E /\ (E # {} => AllowBeyond /\ out = "commit" /\ dup = 0)
       /\ plan' = [kind |-> "w", ns |-> ns, M |-> M, out |-> out, dup |-> dup, wal |-> TRUE, v |-> ops + 1, E |-> E]
       /\ H("BeginW", [ns |-> ns, M |-> M, out |-> out, dup |-> dup, v |-> ops + 1, E |-> E])

\* WRITE lock taken; if the log is empty or fully checkpointed SQLite restarts it: new header, new salt.
\* LiteFS writeWALHeader resets offset / salt / frameOffsets / wal checksums.
WHdr ==
  /\ pc = "w_hdr"
  /\ todo' = (IF plan.dup # 0 THEN <<plan.dup>> ELSE <<>>) \o (IF plan.E = {} THEN <<>> ELSE SeqOfSet(plan.E)) \o SeqOfSet(plan.M)
  /\ pc' = "w_frames"
  /\ UNCHANGED <<dbf, jr, ltxN, ltxLast, psKnown, pageN, pos, mode, dirty, pchk, blk, fault, plan, refImg, ops, mvars>>
  /\ IF ~wal.ex \/ wal.hdr = 0 \/ (mx = 0) \/ ckpted
     THEN /\ salts' = IF wal.hdr = 0 \/ ckpted \/ ~wal.ex THEN salts + 1 ELSE salts
          /\ wal' = [ex |-> TRUE, hdr |-> salts', frames |-> wal.frames]   \* stale frames stay behind the header
          /\ woff' = 0 /\ wsalt' = salts' /\ foff' = <<>> /\ wchk' = <<>> /\ mx' = 0 /\ ckpted' = FALSE
          /\ H("WHdr", [salt |-> salts'])
     ELSE /\ UNCHANGED <<salts, wal, woff, wsalt, foff, wchk, mx, ckpted>>
          /\ H("WHdr", [salt |-> 0])

NFrames == (IF plan.dup # 0 THEN 1 ELSE 0) + Cardinality(plan.E) + Cardinality(plan.M)
\* frame k of the transaction is written at index mx + k (the pager appends after the last commit it knows)
WFrame ==
  /\ pc = "w_frames" /\ todo # <<>>
  /\ todo' = Tail(todo) /\ pc' = IF Tail(todo) = <<>> THEN "w_end" ELSE "w_frames"
  /\ UNCHANGED <<dbf, jr, ltxN, ltxLast, lvars, plan, refImg, ops, salts, mx, ckpted, mvars>>
  /\ LET k == NFrames - Len(todo) + 1
         i == mx + k
         p == Head(todo)
         early == plan.dup # 0 /\ k = 1
         last == Tail(todo) = <<>>
         beyond == p \in plan.E
         c == IF early THEN [NewContent(p) EXCEPT !.v = plan.v + 100]
              ELSE IF beyond THEN [NewContent(p) EXCEPT !.v = plan.v + 200] ELSE NewContent(p)
         prev == IF i = 1 THEN [tx |-> 0, k |-> wal.hdr] ELSE [tx |-> wal.frames[i - 1].tx, k |-> wal.frames[i - 1].k]
         f == [pg |-> p, c |-> c, commit |-> IF last /\ plan.out = "commit" THEN plan.ns ELSE 0,
               salt |-> wal.hdr, tx |-> plan.v, k |-> k, ptx |-> prev.tx, pk |-> prev.k]
     IN /\ wal' = [wal EXCEPT !.frames = IF i <= Len(@) THEN [@ EXCEPT ![i] = f] ELSE Append(@, f)]
        /\ H("WFrame", [p |-> p, i |-> i, commit |-> f.commit, early |-> early, x |-> beyond])

\* frames LiteFS accepts when scanning from woff: matching salt and unbroken checksum chain
ChainOKAt(fr, i) == /\ fr[i].salt = wsalt
                    /\ IF i = 1 THEN fr[i].ptx = 0 /\ fr[i].pk = wal.hdr
                       ELSE fr[i].ptx = fr[i - 1].tx /\ fr[i].pk = fr[i - 1].k
\* Unlock(WRITE) -> CommitWAL (db.go)
WEnd ==
  /\ pc = "w_end" /\ pc' = "idle"
  /\ LET fr == wal.frames
         good(j) == \A i \in (woff + 1)..j : ChainOKAt(fr, i)
         cidx == {j \in (woff + 1)..Len(fr) : fr[j].commit # 0 /\ good(j)}
     IN IF cidx = {}
        THEN /\ okImage' = (okImage /\ plan.out # "commit")
             /\ UNCHANGED <<ltxN, ltxLast, pageN, pos, woff, foff, wchk, fault, blk, refImg, okDelta, okChain, okRecover, crashed, mx>>
        ELSE LET e0 == CHOOSE i \in cidx : \A j \in cidx : i <= j
                 txi == (woff + 1)..e0
                 commit == fr[e0].commit
                 lastOf(p) == Max({i \in txi : fr[i].pg = p})
                 pgs == {q \in {fr[i].pg : i \in txi} \ {LockPg} : ~FixBeyond \/ q <= commit}
                 gone == {q \in (commit + 1)..pageN : q # LockPg}
                 \* truncated pages are re-read and compared with the remembered checksum
                 goneBad == \E q \in gone : PageChk(pchk, q, pageN, <<>>)[1] # Logical(pageN)[q]
                 newW == [p \in pgs \cup gone |-> IF p \in pgs THEN fr[lastOf(p)].c ELSE ZERO]
                 cs == Checksum(pchk, blk, commit, newW)
                 snapBad == pos.t = 0
                 e == [min |-> pos.t + 1, max |-> pos.t + 1, pre |-> pos.c, post |-> cs.c, commit |-> commit,
                       pages |-> [p \in {q \in pgs : q <= commit} |-> fr[lastOf(p)].c],
                       wsalt |-> wsalt, woff |-> woff, wn |-> e0 - woff]
                 tooBig == ~FixBeyond /\ \E p \in pgs : p > commit      \* ltx encoder refuses pages beyond commit
                 newRef == IF plan.out = "commit" THEN NewImage ELSE refImg
             IN IF goneBad \/ cs.err # "none" \/ snapBad \/ tooBig
                THEN /\ fault' = (IF goneBad THEN "trunc-page-mismatch" ELSE IF snapBad THEN "snapshot-pages"
                                  ELSE IF tooBig THEN "page-beyond-commit" ELSE cs.err)
                     /\ UNCHANGED <<ltxN, ltxLast, pageN, pos, woff, foff, wchk, blk, refImg, mvars, mx>>
                ELSE /\ ltxLast' = e /\ ltxN' = ltxN + 1
                     /\ foff' = [p \in (DOMAIN foff) \cup pgs |-> IF p \in pgs THEN lastOf(p) ELSE foff[p]]
                     /\ wchk' = [p \in (DOMAIN wchk) \cup (DOMAIN newW) |->
                                   IF p \in DOMAIN newW THEN (IF p \in DOMAIN wchk THEN Append(wchk[p], newW[p]) ELSE <<newW[p]>>)
                                   ELSE wchk[p]]
                     /\ pageN' = commit /\ woff' = e0 /\ pos' = [t |-> pos.t + 1, c |-> cs.c] /\ blk' = cs.blk
                     /\ mx' = e0
                     /\ refImg' = newRef
                     /\ okDelta' = (okDelta /\ SameImage(ApplyL(refImg, e), newRef)
                                            /\ \A p \in DOMAIN e.pages : p <= e.commit /\ p # LockPg)
                     /\ okChain' = (okChain /\ e.pre = pos.c)
                     /\ okImage' = (okImage /\ plan.out = "commit")
                     /\ UNCHANGED <<fault, okRecover, crashed>>
  /\ UNCHANGED <<dbf, jr, wal, psKnown, mode, dirty, pchk, wsalt, plan, todo, ops, salts, ckpted>>
  /\ H("WEnd", [x |-> 0])

\* client checkpoint (PASSIVE/FULL shape): the last committed version of every page in the log is copied
\* into the database file, the file is cut to the committed size; the log itself stays (it is restarted
\* by the next writer).  kind = "TRUNCATE" additionally cuts the log to zero bytes.
Ckpt ==
  /\ pc = "idle" /\ ops < MaxOps /\ Live /\ EnvWal /\ wal.ex /\ mx > 0 /\ ~ckpted
  /\ ops' = ops + 1
  /\ UNCHANGED <<jr, ltxN, ltxLast, psKnown, pageN, pos, mode, dirty, woff, wsalt, fault, pc, plan, todo, refImg, salts, mvars>>
  /\ \E kind \in {"PASSIVE", "TRUNCATE"} :
     LET img == Logical(pageN)
         cp == DOMAIN foff
         r0 == [p \in 1..Max({Len(pchk), pageN}) |->
                  IF p \in cp /\ p <= pageN THEN (IF p = LockPg THEN ZERO ELSE img[p]) ELSE PChk(pchk, p)]
         b0 == [b \in 1..Len(blk) |-> IF \E p \in cp : BlockOf[p] + 1 = b THEN INV ELSE blk[b]]
         r == ResetAfter(r0, b0, pageN)
     IN /\ dbf' = [p \in 1..pageN |-> IF p \in cp THEN img[p] ELSE IF p <= Len(dbf) THEN dbf[p] ELSE ZERO]
        /\ pchk' = r[1] /\ blk' = r[2]
        /\ IF kind = "TRUNCATE"
           THEN wal' = [wal EXCEPT !.frames = <<>>, !.hdr = 0] /\ foff' = <<>> /\ wchk' = <<>> /\ mx' = 0 /\ ckpted' = FALSE
           ELSE UNCHANGED <<wal, foff, wchk, mx>> /\ ckpted' = TRUE
        /\ H("Ckpt", [kind |-> kind, pages |-> {p \in cp : p <= pageN}, n |-> pageN])

\* LiteFS's own checkpoint (DB.Checkpoint: role change, halt, recovery): WALReader's valid committed
\* prefix is copied into the database file, the log is truncated to zero, WAL bookkeeping is cleared.
LCkpt ==
  /\ pc = "idle" /\ ops < MaxOps /\ Live /\ wal.ex /\ dbf # <<>>
  /\ LET fr == wal.frames
         valid(j) == wal.hdr # 0 /\ \A i \in 1..j : /\ fr[i].salt = wal.hdr
                                                      /\ IF i = 1 THEN fr[i].ptx = 0 /\ fr[i].pk = wal.hdr
                                                         ELSE fr[i].ptx = fr[i - 1].tx /\ fr[i].pk = fr[i - 1].k
         cset == {j \in 1..Len(fr) : fr[j].commit # 0 /\ valid(j)}
     IN IF cset = {}
        THEN /\ UNCHANGED <<dbf, pchk, blk, pageN>>
        ELSE LET last == Max(cset)
                 commit == fr[last].commit
                 lastOf(p) == Max({i \in 1..last : fr[i].pg = p})
                 pgs == {fr[i].pg : i \in 1..last}
                 d1 == [p \in 1..Max({Len(dbf), commit} \cup pgs) |->
                          IF p \in pgs THEN fr[lastOf(p)].c ELSE IF p <= Len(dbf) THEN dbf[p] ELSE ZERO]
                 p1 == [p \in 1..Max({Len(pchk), commit} \cup pgs) |->
                          IF p \in pgs THEN (IF p = LockPg THEN ZERO ELSE fr[lastOf(p)].c) ELSE PChk(pchk, p)]
                 b1 == [b \in 1..Len(blk) |-> IF \E p \in pgs : BlockOf[p] + 1 = b THEN INV ELSE blk[b]]
                 r == ResetAfter(p1, b1, commit)
             IN /\ dbf' = SubSeq(d1, 1, commit) /\ pchk' = r[1] /\ blk' = r[2] /\ pageN' = commit
  /\ wal' = [wal EXCEPT !.frames = <<>>, !.hdr = 0] /\ foff' = <<>> /\ wchk' = <<>> /\ mx' = 0 /\ ckpted' = FALSE
  /\ ops' = ops + 1
  /\ UNCHANGED <<jr, ltxN, ltxLast, psKnown, pos, mode, dirty, woff, wsalt, fault, pc, plan, todo, refImg, salts, mvars>>
  /\ H("LCkpt", [x |-> 0])


(* ====================== crash and restart (DB.Open, db.go) ====================== *)
Min2(a, b) == IF a < b THEN a ELSE b
\* valid committed prefix of a WAL as WALReader sees it: [pgs, commit, lastOf]
WalCommitted(w) ==
  LET fr == w.frames
      valid(j) == w.hdr # 0 /\ \A i \in 1..j : /\ fr[i].salt = w.hdr
                                                /\ IF i = 1 THEN fr[i].ptx = 0 /\ fr[i].pk = w.hdr
                                                   ELSE fr[i].ptx = fr[i - 1].tx /\ fr[i].pk = fr[i - 1].k
      cset == {j \in 1..Len(fr) : fr[j].commit # 0 /\ valid(j)}
  IN IF cset = {} THEN [any |-> FALSE, commit |-> 0, img |-> <<>>]
     ELSE LET last == Max(cset)
              lastOf(p) == Max({i \in 1..last : fr[i].pg = p})
          IN [any |-> TRUE, commit |-> fr[last].commit, img |-> [p \in {fr[i].pg : i \in 1..last} |-> fr[lastOf(p)].c]]

\* write pages m (function pg -> content) into file d, extending it with ZERO as needed
WritePages(d, m) ==
  LET top == IF DOMAIN m = {} THEN Len(d) ELSE Max({Len(d)} \cup DOMAIN m)
  IN [p \in 1..top |-> IF p \in DOMAIN m THEN m[p] ELSE IF p <= Len(d) THEN d[p] ELSE ZERO]
Resize(d, n) == IF n <= Len(d) THEN SubSeq(d, 1, n) ELSE d \o [i \in 1..(n - Len(d)) |-> ZERO]

\* The result of Store.Open on durable state (d = database file, j = journal, w = WAL, last = newest LTX file).
\* Returns [fault, dbf, wal, pageN, mode, psKnown, pchk, pos].
Reopen(d, j, w, last, n) ==
  LET psHdr == d # <<>>
      mode0 == IF psHdr /\ d[1].wal THEN "wal" ELSE "rb"
      \* syncWALToLTX
      walShort == n > 0 /\ w.ex /\ w.hdr # 0 /\ w.hdr = last.wsalt /\ Len(w.frames) < last.woff
      w1 == IF n > 0 /\ w.ex /\ w.hdr # 0
            THEN IF w.hdr # last.wsalt THEN NoWal
                 ELSE [w EXCEPT !.frames = SubSeq(@, 1, Min2(Len(@), last.woff + last.wn))]
            ELSE w
      \* rollbackJournal
      jPlay == j.ex /\ j.hdr # "none"
      jNoPS == jPlay /\ ~psHdr
      d1 == IF jPlay /\ psHdr THEN Resize(WritePages(d, j.recs), j.orig) ELSE d
      \* CheckpointNoLock
      wc == WalCommitted(w1)
      d2 == IF w1.ex /\ d1 # <<>> /\ wc.any THEN Resize(WritePages(d1, wc.img), wc.commit) ELSE d1
      \* initDatabaseFile
      n3 == IF d2 = <<>> THEN 0 ELSE d2[1].sz
      mode3 == IF FixModeOnOpen THEN (IF d2 # <<>> /\ d2[1].wal THEN "wal" ELSE "rb") ELSE mode0
      \* apply the newest LTX file again
      d4 == IF n > 0 THEN (IF last.commit > 0 THEN Resize(WritePages(d2, last.pages), last.commit) ELSE <<>>) ELSE d2
      n4 == IF n > 0 THEN last.commit ELSE n3
      mode4 == IF n > 0 /\ 1 \in DOMAIN last.pages /\ last.pages[1].wal THEN "wal"
               ELSE IF n > 0 /\ last.commit = 0 THEN "rb" ELSE mode3
      pc4 == [p \in 1..Max({n4, Len(d4)}) |-> IF p <= Len(d4) /\ p # LockPg THEN d4[p] ELSE ZERO]
      chk4 == {<<p, pc4[p]>> : p \in {q \in 1..n4 : q # LockPg /\ pc4[q] # ZERO}}
      missing == \E q \in 1..n4 : q # LockPg /\ pc4[q] = ZERO
      flt == IF walShort THEN "wal-short"
             ELSE IF jNoPS /\ ~FixJournalNoPS THEN "journal-no-pagesize"
             ELSE IF n > 0 /\ (missing \/ chk4 # last.post) THEN "recover-chk-mismatch"
             ELSE "none"
  IN [fault |-> flt, dbf |-> d4, wal |-> [w1 EXCEPT !.frames = <<>>, !.hdr = 0], pageN |-> n4, mode |-> mode4,
      psKnown |-> (d4 # <<>>) \/ (d2 # <<>>), pchk |-> pc4,
      pos |-> IF n > 0 THEN [t |-> last.max, c |-> last.post] ELSE [t |-> 0, c |-> EmptyChk]]

\* The process dies.  mid = "none": between two operations of the pager (any pc);
\* mid = "jfinal": inside CommitJournal after the LTX file was renamed and before the journal was invalidated;
\* mid = "ckpt" / "lckpt": inside a client / LiteFS checkpoint after the pages in S were copied.
Crash ==
  /\ AllowCrash /\ ~crashed /\ Live /\ ops < MaxOps
  /\ \E mid \in {"none", "jfinal", "ckpt", "lckpt"}, S \in SUBSET Pages :
     LET jOK == /\ pc = "j_final" /\ jr.hdr = "valid" /\ dbf # <<>>
                /\ \A p \in dirty : p <= dbf[1].sz => p <= Len(dbf)
         commitJ == dbf[1].sz
         pgsJ == {p \in dirty : p <= commitJ /\ p # LockPg}
         rJ == ResetAfter(pchk, blk, commitJ)
         csJ == Checksum(rJ[1], rJ[2], commitJ, <<>>)
         eJ == [min |-> pos.t + 1, max |-> pos.t + 1, pre |-> pos.c, post |-> csJ.c, commit |-> commitJ,
                pages |-> [p \in pgsJ |-> dbf[p]], wsalt |-> 0, woff |-> 0, wn |-> 0]
         wcNow == WalCommitted(wal)
         ckOK == pc = "idle" /\ EnvWal /\ wal.ex /\ wcNow.any /\ S # {} /\ S \subseteq DOMAIN wcNow.img
         \* durable state at the moment of death
         dD == IF mid \in {"ckpt", "lckpt"} THEN WritePages(dbf, [p \in S |-> wcNow.img[p]]) ELSE dbf
         lastD == IF mid = "jfinal" THEN eJ ELSE ltxLast
         nD == IF mid = "jfinal" THEN ltxN + 1 ELSE ltxN
         expect == IF mid = "jfinal" THEN (IF plan.out = "commit" THEN NewImage ELSE refImg) ELSE refImg
         r == Reopen(dD, jr, wal, lastD, nD)
     IN /\ (mid = "none" => S = {})
        /\ (mid = "jfinal" => S = {} /\ jOK /\ csJ.err = "none" /\ ~(pos.t = 0 /\ pgsJ # {q \in 1..commitJ : q # LockPg}))
        /\ (mid \in {"ckpt", "lckpt"} => ckOK)
        /\ dbf' = r.dbf /\ jr' = NoJr /\ wal' = r.wal /\ ltxLast' = lastD /\ ltxN' = nD
        /\ psKnown' = r.psKnown /\ pageN' = r.pageN /\ pos' = r.pos /\ mode' = r.mode /\ dirty' = {}
        /\ pchk' = r.pchk /\ blk' = <<>> /\ woff' = 0 /\ wsalt' = 0 /\ foff' = <<>> /\ wchk' = <<>>
        /\ fault' = r.fault
        /\ pc' = "idle" /\ plan' = NoPlan /\ todo' = <<>> /\ refImg' = expect /\ ops' = ops + 1
        /\ mx' = 0 /\ ckpted' = FALSE /\ UNCHANGED salts
        /\ crashed' = TRUE
        /\ okRecover' = (IF r.fault # "none" THEN "fault:" \o r.fault
                         ELSE IF ~(r.pageN = Len(expect) /\ SameImage([p \in 1..r.pageN |-> IF p <= Len(r.dbf) THEN r.dbf[p] ELSE ZERO], expect))
                              THEN "image-not-of-newest-ltx"
                         ELSE IF nD > 0 /\ r.pos.c # {<<p, expect[p]>> : p \in {q \in 1..Len(expect) : q # LockPg}} THEN "checksum"
                         ELSE "ok")
        /\ UNCHANGED <<okDelta, okChain, okImage>>
        /\ H("Crash", [mid |-> mid, S |-> S, at |-> pc])

\* unlink of the database file on the primary: DB.Drop writes a transaction with commit size zero and the
\* empty checksum, removes the four files and resets the per-database state - but NOT the page size and
\* NOT the per-page checksum table (as coded); the same DB object is reused when the name is created again
DropDB ==
  /\ AllowDropDB /\ pc = "idle" /\ ops < MaxOps /\ Live /\ dbf # <<>> /\ pageN > 0
  /\ LET e == [min |-> pos.t + 1, max |-> pos.t + 1, pre |-> pos.c, post |-> EmptyChk, commit |-> 0,
                pages |-> <<>>, wsalt |-> 0, woff |-> 0, wn |-> 0]
     IN /\ ltxLast' = e /\ ltxN' = ltxN + 1
        /\ okChain' = (okChain /\ e.pre = pos.c)
        /\ okDelta' = okDelta /\ okImage' = okImage /\ UNCHANGED <<okRecover, crashed>>
  /\ dbf' = <<>> /\ jr' = NoJr /\ wal' = NoWal
  /\ mode' = "rb" /\ pageN' = 0 /\ woff' = 0 /\ foff' = <<>> /\ wchk' = <<>>
  /\ pos' = [t |-> pos.t + 1, c |-> EmptyChk]
  /\ refImg' = <<>> /\ mx' = 0 /\ ckpted' = FALSE /\ ops' = ops + 1
  /\ UNCHANGED <<psKnown, dirty, pchk, blk, wsalt, fault, pc, plan, todo, salts>>
  /\ H("DropDB", [x |-> 0])

\* retention sweep with a retention period that has already passed for every file: all but the
\* newest file are removed (db.go EnforceRetention; no backup client configured)
Retain ==
  /\ AllowRetain /\ pc = "idle" /\ ops < MaxOps /\ Live /\ ltxN > 1
  /\ ltxN' = 1 /\ ops' = ops + 1
  /\ UNCHANGED <<dbf, jr, wal, ltxLast, lvars, pc, plan, todo, refImg, salts, mx, ckpted, mvars>>
  /\ H("Retain", [x |-> 0])

\* an interrupted receive (or any crashed writer) leaves temporary files behind in the ltx directory;
\* they are never transaction files (C09), so nothing in the model changes
Litter ==
  /\ AllowRetain /\ pc = "idle" /\ ops < MaxOps /\ Live /\ ltxN > 0
  /\ ops' = ops + 1
  /\ UNCHANGED <<dvars, lvars, pc, plan, todo, refImg, salts, mx, ckpted, mvars>>
  /\ H("Litter", [x |-> 0])

Step == \/ Crash \/ Retain \/ Litter \/ DropDB \/ BeginJ \/ JRmWal \/ JCreate \/ JSync \/ JPage \/ JRbTrunc \/ JRbPage \/ JFinalFail \/ JFinal \/ JTrunc
        \/ BeginW \/ WHdr \/ WFrame \/ WEnd \/ Ckpt \/ LCkpt
\* Emit = "edge": one behaviour per explored TRANSITION into an idle state (the path on which TLC first
\* reached the source state, plus this step), not one per distinct idle state: two ways of reaching the same
\* state (e.g. a LiteFS checkpoint with and without uncommitted frames in the log) are both replayed.
Next == /\ Step
        /\ (Emit = "edge" /\ pc' = "idle" /\ hist' # <<>>)
             => PrintT("TRACE " \o ToJson([h |-> hist', img |-> <<>>, ref |-> refImg']))
Spec == Init /\ [][Next]_vars

(* ====================== properties ====================== *)
Idle == pc = "idle" /\ fault = "none"
\* faults that are recorded findings of the real code are excluded by configuration constants
NoFault == fault = "none"
C04_Checksum == Idle => pos.c = FromScratch(pageN)
C02_Image == Idle => /\ pageN = Len(refImg)
                     /\ SameImage(Logical(pageN), refImg)
C02_Delta == okDelta
C02_Outcome == okImage          \* committed transactions are captured, rolled-back ones are not
C09_Chain == okChain /\ (ltxN > 0 => ltxLast.post = pos.c /\ ltxLast.max = pos.t)
C02_AtMostOne == [][pos'.t \in {pos.t, pos.t + 1}]_vars
C05_Recover == okRecover = "ok"
\* after a restart the journal mode LiteFS believes is the one in the database header
C05_ModeAfterRestart == (crashed /\ pc = "idle" /\ fault = "none" /\ dbf # <<>>) => (mode = "wal") = refImg[1].wal
CacheSound == \A b \in 1..Len(blk) : blk[b].ok => blk[b].agg = BlockAgg(pchk, b - 1)

\* emission of replay scripts (one per distinct idle state / per finished behaviour)
EmitInv == (/\ Emit \notin {"none", "edge"} /\ pc = "idle" /\ hist # <<>>
            /\ (Emit = "end" => (ops = MaxOps \/ fault # "none")))
           => PrintT("TRACE " \o ToJson([h |-> hist, img |-> Logical(pageN), ref |-> refImg]))
====
