---- MODULE Codec ----
(***************************************************************************)
(* Wire codecs of LiteFS (property C18).                                   *)
(*                                                                         *)
(* (a) internal/chunk/chunk.go: chunk.Writer / chunk.Reader as a state     *)
(*     machine.  Lengths are counted in UNITS; the chunk limit is `Limit`  *)
(*     units.  The harness concretises 1 unit = 21845 bytes, so Limit = 3  *)
(*     IS the real limit of 65535 bytes.  The encoded stream is a sequence *)
(*     of CELLS: every chunk contributes two header cells (one byte each   *)
(*     on the wire) and `size` data cells (one unit each); Close appends   *)
(*     the two header cells of the zero-length end marker.  A truncated    *)
(*     stream is a prefix of `cut` cells.  The consumer calls Read with a  *)
(*     buffer of k units; the transport underneath hands out at most       *)
(*     `split` cells per call (Fill loops like io.ReadFull).               *)
(*                                                                         *)
(* (b) client.go ReadStreamFrame/WriteStreamFrame (seven frame types) and  *)
(*     http/http.go ReadPosMapFrom/WritePosMapTo as TOKEN SEQUENCES: a     *)
(*     4-byte tag/count/length, 8-byte integers, and bodies whose width is *)
(*     the value of the preceding length token.  The decoder is driven by  *)
(*     an independently stated grammar and by the lengths found ON THE     *)
(*     WIRE; it sees only the first `cut` bytes.                           *)
(*                                                                         *)
(* (c) internal.ReadFullAt as io.ReadFull over a ReaderAt that may return  *)
(*     short counts.                                                       *)
(*                                                                         *)
(* The invariants state C18 on the model: decode(encode(v)) = v for every  *)
(* split, and every proper prefix (and every length prefix that promises   *)
(* more than the wire holds) is rejected, never reported as a clean end.   *)
(* `FixChunkEOF = FALSE` models chunk.Reader exactly as coded (io.ReadFull *)
(* 's io.EOF is passed on when a stream ends right after a size header):   *)
(* TLC then refutes ChunkPrefixRejected (relevance configuration and model *)
(* level reproduction of the recorded defect).                             *)
(***************************************************************************)
EXTENDS Integers, Sequences, FiniteSets, TLC, Json

CONSTANTS MaxPayload,   \* largest payload in units (7)
          Limit,        \* chunk limit in units (3 = 65535 bytes)
          ReadSizes,    \* consumer buffer sizes in units
          Splits,       \* transport: at most this many cells per underlying Read
          FixChunkEOF,  \* TRUE: reader as the property requires; FALSE: as coded
          StrLens,      \* name / lease id lengths in bytes
          IntVals,      \* symbolic 64-bit values (TLC integers are 32 bit)
          PosEntries,   \* tuple of position-map entries, sorted by name (MC module)
          MaxEntries,   \* position maps hold 0..MaxEntries of them
          RFAMax,       \* ReadFullAt: source/buffer sizes 0..RFAMax units
          Parts,        \* subset of {"chunk","frame","posmap","rfa"} to explore
          Emit          \* TRUE: print one EDGE line per explored transition

Min(a, b) == IF a < b THEN a ELSE b
Max(a, b) == IF a > b THEN a ELSE b

RECURSIVE SumSeq(_)
SumSeq(s) == IF s = <<>> THEN 0 ELSE Head(s) + SumSeq(Tail(s))

(* ======================= (a) chunked body ============================== *)

VARIABLES ph,      \* "start" | "writing" | "closed" | "reading" | "done"
          chunks,  \* chunk sizes written so far (a final 0 is the end marker)
          cut,     \* number of cells of the stream the reader gets
          split,   \* transport split of this case
          pos,     \* cells consumed by the reader
          buf,     \* units buffered in the reader (len(r.buf))
          eof,     \* reader saw the end marker (r.eof)
          out,     \* units delivered to the consumer
          status,  \* "open" | "eof" (clean end reported) | "err"
          cs,      \* the single-step case of parts (b), (c) ("done" states)
          last,    \* observable result of the last call (output only)
          hw, hr   \* history: write sizes, read sizes (hidden by VIEW)

vars == <<ph, chunks, cut, split, pos, buf, eof, out, status, cs, last, hw, hr>>
view == <<ph, chunks, cut, split, pos, buf, eof, out, status, cs>>

NoCase == [p |-> "none"]
Written == SumSeq(chunks)
NCells(ch) == 2 * Len(ch) + SumSeq(ch)

\* cell index (0-based offset) at which chunk j starts
RECURSIVE StartOf(_, _)
StartOf(ch, j) == IF j = 1 THEN 0 ELSE StartOf(ch, j - 1) + 2 + ch[j - 1]

\* the chunk whose header starts at cell offset p (reader is always header-aligned when it asks)
ChunkAt(ch, p) == CHOOSE j \in 1..Len(ch) : StartOf(ch, j) = p

\* a prefix of c cells, split into header bytes and data units (concretisation: h + 21845*d bytes)
RECURSIVE CutHD(_, _, _)
CutHD(ch, j, c) ==
  IF c = 0 \/ j > Len(ch) THEN [h |-> 0, d |-> 0]
  ELSE LET hh == Min(c, 2)
           dd == Min(c - hh, ch[j])
           r  == CutHD(ch, j + 1, c - hh - dd)
       IN [h |-> hh + r.h, d |-> dd + r.d]

\* io.ReadFull over a transport that returns at most m cells per call
RECURSIVE Fill(_, _, _)
Fill(avail, need, m) ==
  IF need = 0 \/ avail = 0 THEN 0
  ELSE LET g == Min(m, Min(avail, need)) IN g + Fill(avail - g, need - g, m)

\* chunk.Writer.Write(p), len(p) = n units: nothing for n = 0, else pieces of at most Limit
RECURSIVE Pieces(_)
Pieces(n) == IF n = 0 THEN <<>> ELSE <<Min(n, Limit)>> \o Pieces(n - Min(n, Limit))

Write(n) ==
  /\ ph \in {"start", "writing"} /\ "chunk" \in Parts
  /\ Written + n <= MaxPayload
  /\ chunks' = chunks \o Pieces(n)
  /\ ph' = "writing"
  /\ UNCHANGED <<cut, split, pos, buf, eof, out, status, cs, hr>>
  /\ hw' = Append(hw, n)
  /\ last' = [op |-> "Write", k |-> n, n |-> n, st |-> "ok"]

Close ==
  /\ ph \in {"start", "writing"} /\ "chunk" \in Parts
  /\ chunks' = Append(chunks, 0)
  /\ ph' = "closed"
  /\ UNCHANGED <<cut, split, pos, buf, eof, out, status, cs, hw, hr>>
  /\ last' = [op |-> "Close", k |-> 0, n |-> 0, st |-> "ok"]

\* the peer receives the first c cells (c = all of them: the complete stream)
Cut(c, m) ==
  /\ ph = "closed"
  /\ c \in 0..NCells(chunks)
  /\ cut' = c /\ split' = m /\ ph' = "reading"
  /\ UNCHANGED <<chunks, pos, buf, eof, out, status, cs, hw, hr>>
  /\ last' = [op |-> "Cut", k |-> c, n |-> 0, st |-> "ok"]

\* chunk.Reader.Read(p), len(p) = k units
Ret(k, n, st) == last' = [op |-> "Read", k |-> k, n |-> n, st |-> st]

Read(k) ==
  /\ ph = "reading" /\ status = "open"
  /\ hr' = Append(hr, k)
  /\ UNCHANGED <<ph, chunks, cut, split, cs, hw>>
  /\ IF buf > 0
     THEN /\ buf' = buf - Min(k, buf) /\ out' = out + Min(k, buf)
          /\ UNCHANGED <<pos, eof, status>> /\ Ret(k, Min(k, buf), "ok")
     ELSE IF eof
     THEN /\ status' = "eof" /\ UNCHANGED <<pos, buf, eof, out>> /\ Ret(k, 0, "eof")
     ELSE LET hgot == Fill(cut - pos, 2, split) IN
       IF hgot < 2                          \* no or half a size header: io.ErrUnexpectedEOF
       THEN /\ status' = "err" /\ pos' = pos + hgot
            /\ UNCHANGED <<buf, eof, out>> /\ Ret(k, 0, "err")
       ELSE LET size == chunks[ChunkAt(chunks, pos)]
                dgot == Fill(cut - pos - 2, size, split)
            IN IF size = 0                  \* end marker
               THEN /\ eof' = TRUE /\ status' = "eof" /\ pos' = pos + 2
                    /\ UNCHANGED <<buf, out>> /\ Ret(k, 0, "eof")
               ELSE IF dgot = size
               THEN /\ pos' = pos + 2 + size
                    /\ buf' = size - Min(k, size) /\ out' = out + Min(k, size)
                    /\ UNCHANGED <<eof, status>> /\ Ret(k, Min(k, size), "ok")
               ELSE \* truncated inside the chunk.  As coded, io.ReadFull's error is passed on
                    \* unchanged, and that is io.EOF when not a single data byte arrived.
                    /\ pos' = pos + 2 + dgot /\ UNCHANGED <<buf, eof, out>>
                    /\ IF dgot = 0 /\ ~FixChunkEOF
                       THEN status' = "eof" /\ Ret(k, 0, "eof")
                       ELSE status' = "err" /\ Ret(k, 0, "err")

(* ================= (b) frames and position maps ======================== *)

\* uniform value / token record (TLC cannot compare values of different kinds)
FV(k, s, n) == [k |-> k, s |-> s, n |-> n]
W(tok) == CASE tok.k \in {"tag", "cnt", "len"} -> 4
            [] tok.k = "u64" -> 8
            [] tok.k = "body" -> tok.n

\* grammar of the seven frame types, stated for the DECODER (client.go ReadFrom methods)
Grammar == << <<"u64", "str">>,     \* 1 LTX       Size, Name
              <<>>,                 \* 2 Ready
              <<>>,                 \* 3 End
              <<"str">>,            \* 4 DropDB    Name
              <<"str">>,            \* 5 Handoff   LeaseID
              <<"u64", "str">>,     \* 6 HWM       TXID, Name
              <<"u64">> >>          \* 7 Heartbeat Timestamp
FrameTypes == 1..7

U64s == {FV("u64", s, 0) : s \in IntVals}
Strs == {FV("str", "", n) : n \in StrLens}

\* frame values, stated for the ENCODER (WriteTo methods): type + field values in wire order
FrameValues ==
     {[t |-> t, f |-> <<a, b>>] : t \in {1, 6}, a \in U64s, b \in Strs}
  \cup {[t |-> t, f |-> <<>>] : t \in {2, 3}}
  \cup {[t |-> t, f |-> <<b>>] : t \in {4, 5}, b \in Strs}
  \cup {[t |-> 7, f |-> <<a>>] : a \in U64s}

RECURSIVE EncFields(_)
EncFields(f) ==
  IF f = <<>> THEN <<>>
  ELSE (IF Head(f).k = "u64" THEN <<Head(f)>>
        ELSE <<FV("len", "", Head(f).n), FV("body", "", Head(f).n)>>) \o EncFields(Tail(f))

EncFrame(v) == <<FV("tag", "", v.t)>> \o EncFields(v.f)

\* position maps: sets of indices into PosEntries; written in ascending name order = index order
PosMaps == {S \in SUBSET (1..Len(PosEntries)) : Cardinality(S) <= MaxEntries}
RECURSIVE SortedSeq(_)
SortedSeq(S) == IF S = {} THEN <<>>
                ELSE LET x == CHOOSE y \in S : \A z \in S : y <= z IN <<x>> \o SortedSeq(S \ {x})
EntryFields(i) == <<FV("str", PosEntries[i].id, PosEntries[i].n),
                    FV("u64", PosEntries[i].t, 0), FV("u64", PosEntries[i].c, 0)>>
RECURSIVE EncEntries(_)
EncEntries(q) ==
  IF q = <<>> THEN <<>>
  ELSE LET e == PosEntries[Head(q)] IN
       <<FV("len", "", e.n), FV("body", e.id, e.n), FV("u64", e.t, 0), FV("u64", e.c, 0)>> \o EncEntries(Tail(q))
EncPos(S) == <<FV("cnt", "", Cardinality(S))>> \o EncEntries(SortedSeq(S))
RECURSIVE PosVal(_)
PosVal(q) == IF q = <<>> THEN <<>> ELSE EntryFields(Head(q)) \o PosVal(Tail(q))

RECURSIVE RestW(_, _)
RestW(wire, i) == IF i > Len(wire) THEN 0 ELSE W(wire[i]) + RestW(wire, i + 1)
WireLen(wire) == RestW(wire, 1)

\* proper-prefix cut points: every offset inside a fixed-width integer, and first / second /
\* middle / last byte of a body (field boundaries are offset 0 of the next token)
Inner(tok) == IF tok.k = "body"
              THEN {d \in {0, 1, tok.n \div 2, tok.n - 1} : d >= 0 /\ d < tok.n}
              ELSE 0..(W(tok) - 1)
CutSet(wire) == UNION {{(WireLen(wire) - RestW(wire, i)) + d : d \in Inner(wire[i])} : i \in 1..Len(wire)}

\* error class when a read of `need` > 0 bytes finds only `have` < need
Short(have) == [ok |-> FALSE, vals |-> <<>>, err |-> IF have = 0 THEN "eof" ELSE "unexpected"]

\* grammar-driven decoder over the first `avail` bytes of the wire starting at token i.
\* j counts the remaining repetitions for position maps (g is restarted from g0).
RECURSIVE Parse(_, _, _, _, _)
Parse(wire, g, i, avail, acc) ==
  IF g = <<>> THEN [ok |-> TRUE, vals |-> acc, err |-> ""]
  ELSE IF Head(g) = "u64"
  THEN IF avail < 8 THEN Short(avail)
       ELSE Parse(wire, Tail(g), i + 1, avail - 8, Append(acc, FV("u64", wire[i].s, 0)))
  ELSE IF avail < 4 THEN Short(avail)
       ELSE LET n    == wire[i].n                                   \* the length found on the wire
                have == Min(avail - 4, RestW(wire, i + 1))          \* what the transport can still deliver
            IN IF n > 0 /\ have < n THEN Short(have)
               ELSE IF n = 0
               THEN Parse(wire, Tail(g), i + 2, avail - 4, Append(acc, FV("str", wire[i + 1].s, 0)))
               ELSE Parse(wire, Tail(g), i + 2, avail - 4 - n, Append(acc, FV("str", wire[i + 1].s, n)))

\* ReadStreamFrame: tag, then the fields; io.EOF is only passed on before the first tag byte
DecFrame(wire, avail) ==
  IF avail < 4 THEN Short(avail)
  ELSE IF wire[1].n \notin FrameTypes THEN [ok |-> FALSE, vals |-> <<>>, err |-> "badtype"]
  ELSE LET r == Parse(wire, Grammar[wire[1].n], 2, avail - 4, <<>>)
       IN IF r.ok THEN r ELSE [r EXCEPT !.err = "unexpected"]

\* ReadPosMapFrom: count, then `count` entries; errors are passed on as they come
RECURSIVE Rep(_, _)
Rep(g, n) == IF n = 0 THEN <<>> ELSE g \o Rep(g, n - 1)
DecPos(wire, avail) ==
  IF avail < 4 THEN Short(avail)
  ELSE Parse(wire, Rep(<<"str", "u64", "u64">>, wire[1].n), 2, avail - 4, <<>>)

FrameCase(v, c, m) ==
  LET wire == EncFrame(v) IN
  /\ ph = "start" /\ "frame" \in Parts
  /\ cs' = [p |-> "frame", v |-> v, wire |-> wire, len |-> WireLen(wire), cut |-> c, m |-> m,
            hostile |-> FALSE, res |-> DecFrame(wire, c)]

\* unknown type tag (0, 8, 255) followed by nothing or by a well-formed body
BadTagCase(t, m) ==
  /\ ph = "start" /\ "frame" \in Parts
  /\ LET wire == <<FV("tag", "", t)>> IN
     cs' = [p |-> "frame", v |-> [t |-> t, f |-> <<>>], wire |-> wire, len |-> 4, cut |-> 4, m |-> m,
            hostile |-> TRUE, res |-> DecFrame(wire, 4)]

\* a length prefix that promises more than the wire holds (complete wire handed over)
HostileLen(wire, i, n2) == [wire EXCEPT ![i] = FV("len", "", n2)]
FrameHostile(v, n2, m) ==
  LET w0 == EncFrame(v) IN
  /\ ph = "start" /\ "frame" \in Parts
  /\ Len(w0) >= 2 /\ w0[Len(w0) - 1].k = "len" /\ n2 > w0[Len(w0)].n
  /\ LET wire == HostileLen(w0, Len(w0) - 1, n2) IN
     cs' = [p |-> "frame", v |-> v, wire |-> wire, len |-> WireLen(wire), cut |-> WireLen(wire), m |-> m,
            hostile |-> TRUE, res |-> DecFrame(wire, WireLen(wire))]

PosCase(S, c, m) ==
  LET wire == EncPos(S) IN
  /\ ph = "start" /\ "posmap" \in Parts
  /\ cs' = [p |-> "posmap", v |-> SortedSeq(S), wire |-> wire, len |-> WireLen(wire), cut |-> c, m |-> m,
            hostile |-> FALSE, res |-> DecPos(wire, c)]

\* entry count larger than the number of entries that follow
PosHostileCnt(S, extra, m) ==
  LET w0 == EncPos(S)
      wire == [w0 EXCEPT ![1] = FV("cnt", "", Cardinality(S) + extra)] IN
  /\ ph = "start" /\ "posmap" \in Parts
  /\ cs' = [p |-> "posmap", v |-> SortedSeq(S), wire |-> wire, len |-> WireLen(wire), cut |-> WireLen(wire), m |-> m,
            hostile |-> TRUE, res |-> DecPos(wire, WireLen(wire))]

\* name length of the LAST entry larger than everything that follows it
PosHostileLen(S, n2, m) ==
  LET w0 == EncPos(S)
      i  == Len(w0) - 3 IN
  /\ ph = "start" /\ "posmap" \in Parts
  /\ S # {} /\ n2 > RestW(w0, i + 1)
  /\ LET wire == HostileLen(w0, i, n2) IN
     cs' = [p |-> "posmap", v |-> SortedSeq(S), wire |-> wire, len |-> WireLen(wire), cut |-> WireLen(wire), m |-> m,
            hostile |-> TRUE, res |-> DecPos(wire, WireLen(wire))]

(* ========================= (c) ReadFullAt ============================== *)

\* source of L units, buffer of N units, offset off; the ReaderAt returns at most m units per
\* call, and (ee) may or may not report io.EOF together with the last bytes.
RFA(L, off, N, m, ee) ==
  LET avail == Max(0, L - off)
      n == Fill(avail, N, m) IN
  /\ ph = "start" /\ "rfa" \in Parts
  /\ cs' = [p |-> "rfa", v |-> <<>>, wire |-> <<>>, len |-> L, cut |-> off, m |-> m, hostile |-> ee,
            res |-> [ok |-> n = N, vals |-> <<FV("n", "", n), FV("N", "", N)>>,
                     err |-> IF n = N THEN "" ELSE IF n = 0 THEN "eof" ELSE "unexpected"]]

CaseStep ==
  /\ ph = "start"                      \* first, so that TLC does not enumerate the cases in every state
  /\ \/ \E v \in FrameValues, m \in Splits : \E c \in CutSet(EncFrame(v)) \cup {WireLen(EncFrame(v))} : FrameCase(v, c, m)
     \/ \E t \in {0, 8, 255}, m \in Splits : BadTagCase(t, m)
     \/ \E v \in FrameValues, n2 \in StrLens, m \in Splits : FrameHostile(v, n2, m)
     \/ \E S \in PosMaps, m \in Splits : \E c \in CutSet(EncPos(S)) \cup {WireLen(EncPos(S))} : PosCase(S, c, m)
     \/ \E S \in PosMaps, x \in {1, 2}, m \in Splits : PosHostileCnt(S, x, m)
     \/ \E S \in PosMaps, n2 \in StrLens \cup {200000}, m \in Splits : PosHostileLen(S, n2, m)
     \/ \E L \in 0..RFAMax, off \in 0..(RFAMax + 1), N \in 0..RFAMax, m \in Splits, ee \in BOOLEAN : RFA(L, off, N, m, ee)
  /\ ph' = "done"
  /\ UNCHANGED <<chunks, cut, split, pos, buf, eof, out, status, hw, hr>>
  /\ last' = [op |-> "Case", k |-> 0, n |-> 0, st |-> "ok"]

(* ============================ behaviour ================================ *)

Init == /\ ph = "start" /\ chunks = <<>> /\ cut = 0 /\ split = 0 /\ pos = 0 /\ buf = 0
        /\ eof = FALSE /\ out = 0 /\ status = "open" /\ cs = NoCase
        /\ last = [op |-> "Init", k |-> 0, n |-> 0, st |-> "ok"]
        /\ hw = <<>> /\ hr = <<>>

ChunkStep == \/ \E n \in 0..MaxPayload : Write(n)
             \/ Close
             \/ \E c \in 0..(2 * (MaxPayload + 1) + MaxPayload), m \in Splits : Cut(c, m)
             \/ \E k \in ReadSizes : Read(k)

ChunkEdge == [p |-> "chunk", w |-> hw', ch |-> chunks', closed |-> ph' \notin {"start", "writing"},
              cutb |-> CutHD(chunks', 1, cut'), cells |-> cut', total |-> NCells(chunks'),
              m |-> split', r |-> hr, act |-> last', out |-> out', payload |-> SumSeq(chunks')]

Next == \/ /\ ChunkStep
           /\ cs' = cs
           /\ (Emit => PrintT("EDGE " \o ToJson(ChunkEdge)))
        \/ /\ CaseStep
           /\ (Emit => PrintT("EDGE " \o ToJson(cs')))

Spec == Init /\ [][Next]_vars

(* ========================= properties (C18) ============================ *)

TypeOK == /\ ph \in {"start", "writing", "closed", "reading", "done"}
          /\ \A j \in 1..Len(chunks) : chunks[j] \in 0..Limit
          /\ pos \in 0..cut /\ buf \in 0..Limit /\ out \in 0..MaxPayload
          /\ status \in {"open", "eof", "err"}

\* what the writer puts on the wire: every chunk within the limit, sizes add up to what was
\* written, and the only zero-size header is the end marker written by Close
WriterShape ==
  /\ \A j \in 1..Len(chunks) : (chunks[j] = 0) <=> (j = Len(chunks) /\ ph \notin {"start", "writing"})
  /\ Written = SumSeq(hw) /\ Written <= MaxPayload

\* the value delivered is always a prefix of the payload (cells are delivered in order, so
\* "different value" reduces to "different length"), and a clean end is reported only for the
\* complete stream and only after the whole payload
ChunkRoundTrip == (status = "eof" /\ cut = NCells(chunks)) => out = Written
ChunkPrefixRejected == (ph = "reading" /\ cut < NCells(chunks)) => status # "eof"
ChunkNoExtra == out + buf <= Written
\* the complete stream never fails
ChunkCompleteOK == (ph = "reading" /\ cut = NCells(chunks)) => status # "err"

\* every Read makes progress: it delivers data or ends the stream (no (0, nil) forever)
ReadProgress == [][(ph = "reading" /\ ph' = "reading" /\ last'.op = "Read") => (out' > out \/ status' # "open")]_vars

\* the transport split is irrelevant for what io.ReadFull obtains
SplitIndependent == \A a \in 0..(Limit + 2), n \in 0..(Limit + 2), m \in Splits : Fill(a, n, m) = Min(a, n)
ASSUME SplitIndependent

FrameOK ==
  cs.p = "frame" =>
    IF ~cs.hostile /\ cs.cut = cs.len
    THEN cs.res.ok /\ cs.res.vals = cs.v.f                       \* decode(encode(v)) = v
    ELSE /\ ~cs.res.ok                                           \* proper prefix / hostile: rejected
         /\ (cs.res.err = "eof" <=> cs.cut = 0)                  \* "no frame" only before the first byte

PosOK ==
  cs.p = "posmap" =>
    IF ~cs.hostile /\ cs.cut = cs.len
    THEN cs.res.ok /\ cs.res.vals = PosVal(cs.v)
    ELSE ~cs.res.ok

RFAOK ==
  cs.p = "rfa" =>
    LET n == cs.res.vals[1].n
        N == cs.res.vals[2].n IN
    /\ n = Min(N, Max(0, cs.len - cs.cut))                       \* independent of the split
    /\ cs.res.ok <=> n = N
====
