---- MODULE LeaseTrace ----
(***************************************************************************)
(* Trace validation for the election loop (impl -> spec).  The scripted     *)
(* lease service / client of checks/c08 logs, from INSIDE every call it     *)
(* receives, the call, the answer it gives, the request the environment     *)
(* made meanwhile and what the store reports at that instant (IsPrimary,    *)
(* PrimaryCtx(ctx).Err(), PrimaryInfo(), ClusterID()).  A trace is accepted *)
(* iff it is a behaviour of Lease.tla with exactly these observables; the   *)
(* steps between calls (setLease, select branches, sleeps) are silent.      *)
(* Traces of many scripts are concatenated with "reset" events; the         *)
(* constants (Candidate, LocalInit, TTL) are those of the batch.            *)
(***************************************************************************)
EXTENDS Lease, IOUtils

Trace == ndJsonDeserialize(IOEnv.TRACE_FILE)

VARIABLE l
tvars == <<vars, l>>
traceView == <<s, l>>

Ev == Trace[l]
More == l <= Len(Trace)

ObsOK == Ev.prim = s.prim /\ Ev.done = s.done /\ Ev.pinfo = s.pinfo /\ Ev.local = s.local

TCall ==
  /\ More /\ Ev.ev = "call" /\ ObsOK /\ Ev.sr = StimRes(Ev.s)
  /\ \/ Ev.c = "CID" /\ (LoopCID(Ev.a, Ev.s) \/ TenureCID(Ev.a, Ev.s))
     \/ Ev.c = "INFO" /\ (InfoOnly(Ev.a, Ev.s) \/ Info1(Ev.a, Ev.s) \/ Info2(Ev.a, Ev.s))
     \/ Ev.c = "ACQ" /\ Acquire(Ev.a, Ev.s)
     \/ Ev.c = "ACQX" /\ AcqX(Ev.a, Ev.s)
     \/ Ev.c = "SETCID" /\ SetCID(Ev.a, Ev.s)
     \/ Ev.c = "RENEW" /\ Ev.t >= s.now + s.wait /\ RenewTick(Ev.a, Ev.s, Ev.t)     \* a timer never fires early
     \/ Ev.c = "RENEW" /\ Ev.t >= s.now /\ HoRenew(Ev.a, Ev.s, Ev.t)
     \/ Ev.c = "STREAM" /\ Stream(Ev.a, Ev.s)
  /\ l' = l + 1

TClose == More /\ Ev.ev = "close" /\ ObsOK /\ Close /\ l' = l + 1

\* calls that are not scripted but are observation points: where in the loop may they occur
ObsAt(c) == CASE c = "TTL"       -> s.pc \in {"primary", "giveup"}
              [] c = "RENEWEDAT" -> s.pc \in {"primary", "giveup"}
              [] c = "HOCH"      -> s.pc = "primary"
              [] c = "ID"        -> s.pc = "ho_send"
              [] c = "ENV1"      -> s.pc = "primary"
              [] c = "ENV0"      -> s.pc = "exit_clear" \/ (s.pc = "loop" /\ s.calls = 0)
              [] c = "READ"      -> s.pc = "reading"
              [] c = "SCLOSE"    -> s.pc \in {"reading", "stream_reject"}
              [] OTHER           -> FALSE

TObs == More /\ Ev.ev = "obs" /\ ObsOK /\ ObsAt(Ev.c) /\ UNCHANGED vars /\ l' = l + 1

\* a peer saw a handoff frame on its stream (logged by the peer's reader, i.e. asynchronously)
TFrame == More /\ Ev.ev = "frame" /\ Ev.node \in s.frames /\ UNCHANGED vars /\ l' = l + 1

NextCallIs(c) == CASE c = "CID"    -> s.pc \in {"loop", "tenure_cid"}
                   [] c = "INFO"   -> s.pc \in {"info_only", "info1", "info2"}
                   [] c = "ACQ"    -> s.pc = "acquire"
                   [] c = "ACQX"   -> s.pc = "acqx"
                   [] c = "SETCID" -> s.pc = "setcid"
                   [] c = "STREAM" -> s.pc = "stream"
                   [] c = "RENEW"  -> s.pc \in {"primary", "ho_renew"}
                   [] OTHER        -> FALSE

\* the script is exhausted: the call is parked by the mock; nothing changes any more
TQuiesce == More /\ Ev.ev = "quiesce" /\ ObsOK /\ NextCallIs(Ev.c) /\ UNCHANGED vars /\ l' = l + 1

\* the harness's own sample at the end of a run
TFinal == More /\ Ev.ev = "final" /\ ObsOK /\ UNCHANGED vars /\ l' = l + 1

TReset == /\ More /\ Ev.ev = "reset"
          /\ PrintT("RESET " \o ToJson([run |-> Ev.run]))
          /\ s' = Init0 /\ hist' = <<>> /\ l' = l + 1

TSilent == /\ \/ SetLease \/ GiveUp \/ DemoteExit \/ HandoffRecv \/ (\E d \in BOOLEAN : HoSend(d))
              \/ ClearLease \/ StreamReject \/ ReadEnd
           /\ UNCHANGED l

TraceInit == Init /\ l = 1
TraceNext == TCall \/ TClose \/ TObs \/ TFrame \/ TQuiesce \/ TFinal \/ TReset \/ TSilent
TraceSpec == TraceInit /\ [][TraceNext]_tvars

\* "violated" exactly when the whole trace has been consumed, i.e. the trace is accepted
NotAccepted == l <= Len(Trace)
====
