------------------------------- MODULE Backup -------------------------------
(***************************************************************************)
(* C14 - backup sync uploads a gap-free chain and treats the backup as     *)
(* authoritative.                                                          *)
(*                                                                         *)
(* One database on one primary and one backup service.                     *)
(*   store.go   streamBackup (oneTime) / streamBackupDB /                  *)
(*              streamBackupDBSnapshot / restoreDBFromBackup               *)
(*   db.go      EnforceRetention (HWM rule), SetHWM, WriteLTXFileAt        *)
(*   backup_client.go / lfsc: PosMap, WriteTx (contiguity check), Fetch    *)
(*                                                                         *)
(* A checksum is an abstract image id: commit number i > 0 of the primary, *)
(* -j for the j-th transaction of a foreign ("donor") history.  Every id   *)
(* is created once with a fixed predecessor, so an id determines its whole *)
(* history (collision-freeness of CRC64 is the assumption behind this).    *)
(*                                                                         *)
(* One SyncBackup call = SyncStart (PosMap + decision tree), then          *)
(* optionally Write* (the WriteTx answer) and Restore* (FetchSnapshot +    *)
(* apply).  Service-side faults may fall between those calls.  Commits and *)
(* sweeps are only taken between passes (deviation: the real code reads    *)
(* DB.Pos() once per pass; concurrency is not part of C14's quantifier).   *)
(* `hist` is a replay script: it is hidden by VIEW.                        *)
(***************************************************************************)
EXTENDS Integers, Sequences, FiniteSets, TLC, Json

CONSTANTS
  MaxTx, MaxFaults, MaxErrs, MaxFork,
  W,              \* compaction window (MaxBackupLTXFileN = 256)
  HwmLag,         \* lags the HWM answer may have ({0}: file client; LFSC may lag)
  AllowTouch,     \* the database object may exist at position zero
  MidSyncFaults,  \* service faults between PosMap / WriteTx / FetchSnapshot
  \* ---- guards (TRUE = as coded); FALSE variants are the relevance configurations
  SweepUsesHWM, HwmFromAnswer, ServiceChecks, RestoreOnAhead, RestoreOnMismatch,
  FixPosZero,     \* FALSE = as coded: local position zero returns early
  ExcusePosZero,  \* TRUE = the known finding is excused in Progress / Adopt
  MaxCrash,       \* 0 or 1: a client may die in the middle of a transaction (hot journal: synced journal, pages written)
  RestoreRecovers,\* TRUE = as coded: a restore first rolls an interrupted transaction back (db.recover)
  Emit

VARIABLES
  exists, plin, files, hwm,          \* primary: db object, lineage (ids by txid), LTX files, HWM
  chain, slin,                       \* service: files [min,max,pre,post], lineage
  pc, pend, why,                     \* pass in progress
  txCount, faults, errs,             \* budgets
  acked, need, restores, fsr,        \* history: largest acknowledged HWM, lowest extendable service
                                     \* position, restores, fault since last restore
  idle, clean, rel0,                 \* progress record, pass bookkeeping
  hot,                               \* "none" | "hot": a dead client's journal awaits its rollback | "over": the same, and a
                                     \* restore has replaced the database underneath it | "done": rolled back or discarded
                                     \* | "checked": ... and a recovery has run since
  stale,                             \* the database file holds pages of an abandoned transaction: it is not the image at its position
  ev, hist                           \* last event (for action properties), script

vars == <<exists, plin, files, hwm, chain, slin, pc, pend, why, txCount, faults, errs,
          acked, need, restores, fsr, idle, clean, rel0, hot, stale, ev, hist>>
view == <<exists, plin, files, hwm, chain, slin, pc, pend, why, txCount, faults, errs,
          acked, need, restores, fsr, idle, clean, rel0, hot, stale>>

Zero == [t |-> 0, c |-> 0]
Max2(a, b) == IF a >= b THEN a ELSE b
Min2(a, b) == IF a <= b THEN a ELSE b
PosOf(lin) == IF Len(lin) = 0 THEN Zero ELSE [t |-> Len(lin), c |-> lin[Len(lin)]]
PPos == PosOf(plin)
SPosOf(ch) == IF Len(ch) = 0 THEN Zero ELSE [t |-> ch[Len(ch)].max, c |-> ch[Len(ch)].post]
SPos == SPosOf(chain)
IdAt(lin, t) == IF t = 0 THEN 0 ELSE lin[t]
F(a, b) == [min |-> a, max |-> b]
LocalFile(t) == F(t, t) \in files
NoPend == [min |-> 0, max |-> 0, pre |-> 0, post |-> 0]

DonorFile(i) == [min |-> i, max |-> i, pre |-> IF i = 1 THEN 0 ELSE -(i-1), post |-> -i]
DonorChain(n) == [i \in 1..n |-> DonorFile(i)]
DonorLin(n) == [i \in 1..n |-> -i]

IsPrefixSeq(a, b) == Len(a) <= Len(b) /\ \A i \in 1..Len(a) : a[i] = b[i]
OnHistoryOf(ch, lin) == \A i \in 1..Len(ch) : ch[i].max <= Len(lin) /\ lin[ch[i].max] = ch[i].post
OnHistory == OnHistoryOf(chain, plin)
Contig(ch) == \A i \in 1..Len(ch) :
   /\ ch[i].min <= ch[i].max
   /\ IF i = 1 THEN ch[i].min = 1 /\ ch[i].pre = 0
      ELSE ch[i].min = ch[i-1].max + 1 /\ ch[i].pre = ch[i-1].post

(* the relation of the service to the primary, from the true state *)
Rel ==
  IF ~exists THEN (IF Len(chain) = 0 THEN "absent" ELSE "noLocal")
  ELSE IF PPos.t = 0 THEN (IF Len(chain) = 0 THEN "absent0" ELSE "localZero")
  ELSE IF Len(chain) = 0 THEN "missing"
  ELSE IF SPos.t > PPos.t THEN "ahead"
  ELSE IF SPos.t = PPos.t THEN (IF SPos.c = PPos.c THEN "equal" ELSE "forkEq")
  ELSE IF plin[SPos.t] # SPos.c THEN "behindFork"
  ELSE IF \E t \in (SPos.t+1)..Min2(PPos.t, SPos.t + W) : ~LocalFile(t) THEN "behindGap"
  ELSE "behindOk"

NeedsAdopt(r) == r \in {"noLocal", "ahead", "forkEq", "behindFork", "behindGap"}
                 \/ (r = "localZero" /\ ~ExcusePosZero)

(* streamBackupDB's decision tree on the fetched position rp *)
Decide(rp, known) ==
  IF ~exists THEN (IF known THEN "restore:no-local" ELSE "noop:absent")
  ELSE IF PPos.t = 0 THEN (IF FixPosZero /\ rp.t > 0 THEN "restore:local-zero" ELSE "noop:local-zero")
  ELSE IF rp.t = 0 THEN "snapshot"
  ELSE IF rp.t > PPos.t THEN (IF RestoreOnAhead THEN "restore:remote-ahead" ELSE "noop:remote-ahead")
  ELSE IF rp.t = PPos.t THEN (IF rp.c # PPos.c /\ RestoreOnMismatch THEN "restore:chksum-mismatch" ELSE "noop:in-sync")
  ELSE IF \E t \in (rp.t+1)..Min2(PPos.t, rp.t + W) : ~LocalFile(t) THEN "restore:ltx-not-found"
  ELSE "upload"

Strict == /\ exists /\ PPos.t > 0
          /\ \/ Rel = "missing"
             \/ Rel \in {"equal", "behindOk", "behindGap"} /\ SPos.t >= need

Cap == (MaxTx \div W) + 3
Bound(k) == ((k + W - 1) \div W) + 1

NoEv == [a |-> "-", end |-> FALSE, ok |-> TRUE, clean |-> TRUE, rel |-> "-", restored |-> FALSE, br |-> "-"]
NoG == [k |-> "-", n |-> 0, ans |-> "-", lag |-> 0, br |-> "-", why |-> "-"]

Init ==
  /\ exists = FALSE /\ plin = <<>> /\ files = {} /\ hwm = 0
  /\ chain = <<>> /\ slin = <<>>
  /\ pc = "idle" /\ pend = NoPend /\ why = "-"
  /\ txCount = 0 /\ faults = 0 /\ errs = 0
  /\ acked = 0 /\ need = 0 /\ restores = 0 /\ fsr = FALSE
  /\ idle = [p0 |-> Zero, k |-> 0, strict |-> FALSE, n |-> 0]
  /\ clean = TRUE /\ rel0 = "-"
  /\ hot = "none" /\ stale = FALSE
  /\ ev = NoEv /\ hist = <<>>

(* ------------------------------ bookkeeping ------------------------------ *)
ResetIdleS(s) == idle' = [p0 |-> PPos', k |-> Max2(0, PPos'.t - SPos'.t), strict |-> (s /\ Strict'), n |-> 0]
ResetIdle == ResetIdleS(TRUE)
CountIdle == idle' = [idle EXCEPT !.n = Min2(@ + 1, Cap)]
EndPass(ok, cl) == IF ~ok THEN ResetIdle ELSE IF cl THEN CountIdle ELSE UNCHANGED idle

Obs == [ex |-> exists', pt |-> PPos'.t, pid |-> PPos'.c, st |-> SPos'.t, sid |-> SPos'.c, hwm |-> hwm',
        files |-> {<<f.min, f.max>> : f \in files'},
        chain |-> [i \in 1..Len(chain') |-> <<chain'[i].min, chain'[i].max>>],
        pc |-> pc', rs |-> restores']
H(a, g) == hist' = Append(hist, [a |-> a, g |-> g, o |-> Obs])

(* -------------------------------- primary -------------------------------- *)
\* the interrupted transaction's journal is played back (LiteFS's recovery, or SQLite's next connection): if a
\* restore has replaced the database in between, the journal's pages belong to the abandoned history
RollBack == /\ hot' = CASE hot \in {"hot", "over"} -> "done"
                        [] hot = "done" -> "checked"     \* a recovery with nothing left to do (it is still run: role changes
                                                        \* happen whether or not a journal is there)
                        [] OTHER -> hot
            /\ stale' = (stale \/ hot = "over")

\* a client dies after it synced its journal and wrote pages (nothing is committed: position and log stay)
Crash ==
  /\ MaxCrash > 0 /\ hot = "none" /\ pc = "idle" /\ exists /\ PPos.t > 0
  /\ hot' = "hot"
  /\ UNCHANGED <<exists, plin, files, hwm, chain, slin, pc, pend, why, txCount, faults, errs, acked, need, restores, fsr, idle, clean, rel0, stale>>
  /\ ev' = [NoEv EXCEPT !.a = "Crash"]
  /\ H("Crash", NoG)

\* Store.Recover / DB.Recover (role change, halt lock, restart): rolls the journal back
Recover ==
  /\ hot \in {"hot", "over", "done"} /\ pc = "idle"
  /\ RollBack
  /\ UNCHANGED <<exists, plin, files, hwm, chain, slin, pc, pend, why, txCount, faults, errs, acked, need, restores, fsr, idle, clean, rel0>>
  /\ ev' = [NoEv EXCEPT !.a = "Recover"]
  /\ H("Recover", NoG)

Commit ==
  /\ pc = "idle" /\ txCount < MaxTx
  /\ LET t == Len(plin) + 1 IN
     /\ plin' = Append(plin, txCount + 1)
     /\ files' = files \cup {F(t, t)}
  /\ exists' = TRUE /\ txCount' = txCount + 1
  /\ UNCHANGED <<hwm, chain, slin, pc, pend, why, faults, errs, acked, need, restores, fsr, clean, rel0>>
  /\ hot \notin {"hot", "over"} /\ UNCHANGED <<hot, stale>>   \* (the next connection would first play the journal back: Recover)
  /\ ResetIdle
  /\ ev' = [NoEv EXCEPT !.a = "Commit"]
  /\ H("Commit", [NoG EXCEPT !.n = txCount + 1])

Touch ==
  /\ AllowTouch /\ pc = "idle" /\ ~exists
  /\ exists' = TRUE
  /\ UNCHANGED <<plin, files, hwm, chain, slin, pc, pend, why, txCount, faults, errs, acked, need, restores, fsr, clean, rel0>>
  /\ ResetIdle
  /\ ev' = [NoEv EXCEPT !.a = "Touch"]
  /\ H("Touch", NoG)
  /\ UNCHANGED <<hot, stale>>

(* DB.EnforceRetention with a tiny retention: every file but the newest qualifies by age *)
Sweep ==
  /\ pc = "idle" /\ exists /\ files # {}
  /\ LET latest == CHOOSE f \in files : \A g \in files : g.min < f.min \/ (g.min = f.min /\ g.max <= f.max)
         del == {f \in files : f # latest /\ (SweepUsesHWM => f.max < hwm)}
     IN /\ del # {}
        /\ files' = files \ del
  /\ UNCHANGED <<exists, plin, hwm, chain, slin, pc, pend, why, txCount, faults, errs, acked, need, restores, fsr, idle, clean, rel0>>
  /\ ev' = [NoEv EXCEPT !.a = "Sweep"]
  /\ H("Sweep", NoG)
  /\ UNCHANGED <<hot, stale>>

(* PosMap + streamBackupDB's decision *)
SyncStart ==
  /\ pc = "idle"
  /\ LET rp == SPos
         br == Decide(rp, Len(chain) > 0)
         r == Rel
     IN \* a snapshot of a database with an interrupted transaction is refused by WriteSnapshotTo's checksum
        \* check (observed: the pass fails and is repeated until the journal is gone); not modelled
        /\ ~(br = "snapshot" /\ hot \in {"hot", "over"})
        /\ rel0' = r /\ clean' = TRUE
        /\ CASE br = "upload" ->
                  /\ pc' = "write" /\ why' = "-"
                  /\ pend' = [min |-> rp.t + 1, max |-> Min2(PPos.t, rp.t + W),
                              pre |-> IdAt(plin, rp.t), post |-> plin[Min2(PPos.t, rp.t + W)]]
                  /\ UNCHANGED idle
             [] br = "snapshot" ->
                  /\ pc' = "write" /\ why' = "-"
                  /\ pend' = [min |-> 1, max |-> PPos.t, pre |-> 0, post |-> PPos.c]
                  /\ UNCHANGED idle
             [] br \in {"restore:no-local", "restore:local-zero", "restore:remote-ahead",
                        "restore:chksum-mismatch", "restore:ltx-not-found"} ->
                  /\ pc' = "restore" /\ why' = br /\ pend' = NoPend
                  /\ UNCHANGED idle
             [] OTHER ->
                  /\ pc' = "idle" /\ why' = "-" /\ pend' = NoPend
                  /\ CountIdle
        /\ UNCHANGED <<exists, plin, files, hwm, chain, slin, txCount, faults, errs, acked, need, restores, fsr>>
        /\ ev' = [a |-> "SyncStart", end |-> (pc' = "idle"), ok |-> TRUE, clean |-> TRUE, rel |-> r,
                  restored |-> FALSE, br |-> br]
        /\ H("SyncStart", [NoG EXCEPT !.br = br])
        /\ UNCHANGED <<hot, stale>>

PendContig == SPos.t + 1 = pend.min /\ SPos.c = pend.pre

(* WriteTx answered with a position mismatch: the pass goes on to restore *)
WriteMismatch ==
  /\ pc = "write" /\ ServiceChecks /\ ~PendContig
  /\ pc' = "restore" /\ why' = "restore:out-of-sync" /\ pend' = NoPend
  /\ UNCHANGED <<exists, plin, files, hwm, chain, slin, txCount, faults, errs, acked, need, restores, fsr, idle, clean, rel0>>
  /\ ev' = [NoEv EXCEPT !.a = "SyncWrite", !.rel = rel0, !.clean = clean]
  /\ H("SyncWrite", [NoG EXCEPT !.ans = "mismatch"])
  /\ UNCHANGED <<hot, stale>>

Accepted == ~ServiceChecks \/ PendContig

WriteOk(lag) ==
  /\ pc = "write" /\ Accepted
  /\ LET h == Max2(pend.max - lag, 0) IN
     /\ chain' = Append(chain, pend)
     /\ slin' = SubSeq(plin, 1, pend.max)
     /\ hwm' = IF HwmFromAnswer THEN h ELSE PPos.t
     /\ acked' = Max2(acked, h)
     /\ need' = Max2(need, h - 1)
  /\ pc' = "idle" /\ pend' = NoPend /\ why' = "-"
  /\ UNCHANGED <<exists, plin, files, txCount, faults, errs, restores, fsr, clean, rel0>>
  /\ EndPass(TRUE, clean)
  /\ ev' = [a |-> "SyncWrite", end |-> TRUE, ok |-> TRUE, clean |-> clean, rel |-> rel0, restored |-> FALSE, br |-> "-"]
  /\ H("SyncWrite", [NoG EXCEPT !.ans = "ok", !.lag = lag])
  /\ UNCHANGED <<hot, stale>>

WriteErrBefore ==
  /\ pc = "write" /\ Accepted /\ errs < MaxErrs
  /\ errs' = errs + 1
  /\ pc' = "idle" /\ pend' = NoPend /\ why' = "-"
  /\ UNCHANGED <<exists, plin, files, hwm, chain, slin, txCount, faults, acked, need, restores, fsr, clean, rel0>>
  /\ EndPass(FALSE, clean)
  /\ ev' = [a |-> "SyncWrite", end |-> TRUE, ok |-> FALSE, clean |-> clean, rel |-> rel0, restored |-> FALSE, br |-> "-"]
  /\ H("SyncWrite", [NoG EXCEPT !.ans = "errBefore"])
  /\ UNCHANGED <<hot, stale>>

WriteErrAfter ==
  /\ pc = "write" /\ Accepted /\ errs < MaxErrs
  /\ errs' = errs + 1
  /\ chain' = Append(chain, pend)
  /\ slin' = SubSeq(plin, 1, pend.max)
  /\ pc' = "idle" /\ pend' = NoPend /\ why' = "-"
  /\ UNCHANGED <<exists, plin, files, hwm, txCount, faults, acked, need, restores, fsr, clean, rel0>>
  /\ EndPass(FALSE, clean)
  /\ ev' = [a |-> "SyncWrite", end |-> TRUE, ok |-> FALSE, clean |-> clean, rel |-> rel0, restored |-> FALSE, br |-> "-"]
  /\ H("SyncWrite", [NoG EXCEPT !.ans = "errAfter"])
  /\ UNCHANGED <<hot, stale>>

(* restoreDBFromBackup: FetchSnapshot, WriteLTXFileAt (snapshot replaces all files), ApplyLTXNoLock *)
RestoreOk ==
  /\ pc = "restore" /\ Len(chain) > 0
  /\ exists' = TRUE
  /\ plin' = slin
  /\ files' = {F(1, SPos.t)}
  /\ restores' = restores + 1
  /\ need' = Max2(need, SPos.t)
  /\ fsr' = FALSE
  /\ pc' = "idle" /\ why' = "-"
  /\ UNCHANGED <<hwm, chain, slin, pend, txCount, faults, errs, acked, clean, rel0>>
  /\ hot' = IF hot = "hot" THEN (IF RestoreRecovers THEN "done" ELSE "over") ELSE hot
  /\ stale' = FALSE       \* the snapshot replaces every page
  /\ EndPass(TRUE, clean)
  /\ ev' = [a |-> "SyncRestore", end |-> TRUE, ok |-> TRUE, clean |-> clean, rel |-> rel0, restored |-> TRUE, br |-> why]
  /\ H("SyncRestore", [NoG EXCEPT !.why = why, !.ans = "ok"])

RestoreFail ==    \* FetchSnapshot: no data
  /\ pc = "restore" /\ Len(chain) = 0
  /\ pc' = "idle" /\ why' = "-"
  /\ UNCHANGED <<exists, plin, files, hwm, chain, slin, pend, txCount, faults, errs, acked, need, restores, fsr, clean, rel0>>
  /\ EndPass(FALSE, clean)
  /\ ev' = [a |-> "SyncRestore", end |-> TRUE, ok |-> FALSE, clean |-> clean, rel |-> rel0, restored |-> FALSE, br |-> why]
  /\ H("SyncRestore", [NoG EXCEPT !.why = why, !.ans = "nodata"])
  /\ UNCHANGED <<hot, stale>>

(* ----------------------------- service faults ---------------------------- *)
FaultPc == pc = "idle" \/ (MidSyncFaults /\ pc \in {"write", "restore"})

Fault(kind, n, ch, lin) ==
  /\ FaultPc /\ faults < MaxFaults /\ ch # chain
  /\ chain' = ch /\ slin' = lin
  /\ faults' = faults + 1 /\ fsr' = TRUE
  /\ clean' = (IF pc = "idle" THEN clean ELSE FALSE)
  /\ UNCHANGED <<exists, plin, files, hwm, pc, pend, why, txCount, errs, acked, need, restores, rel0>>
  /\ ResetIdleS(pc = "idle")   \* a pass that is already under way acts on a stale position and may
                               \* be told "position mismatch" by the service although it could extend
  /\ ev' = [NoEv EXCEPT !.a = "Fault"]
  /\ H("Fault", [NoG EXCEPT !.k = kind, !.n = n])
  /\ UNCHANGED <<hot, stale>>

Rewind == \E n \in 1..(Len(chain) - 1) : Fault("rewind", n, SubSeq(chain, 1, n), SubSeq(slin, 1, chain[n].max))
Fork == \E n \in 1..MaxFork : Fault("fork", n, DonorChain(n), DonorLin(n))
Wipe == Len(chain) > 0 /\ Fault("wipe", 0, <<>>, <<>>)

Next ==
  \/ Commit \/ Touch \/ Sweep \/ SyncStart \/ Crash \/ Recover
  \/ WriteMismatch \/ (\E lag \in HwmLag : WriteOk(lag)) \/ WriteErrBefore \/ WriteErrAfter
  \/ RestoreOk \/ RestoreFail
  \/ Rewind \/ Fork \/ Wipe

Spec == Init /\ [][Next]_vars

(* ============================ the property ============================== *)
TypeOK == /\ pc \in {"idle", "write", "restore"}
          /\ (~exists => plin = <<>> /\ files = {})
          /\ Len(slin) = SPos.t

(* the service always holds a contiguous chain ... *)
ChainContig == Contig(chain)
(* ... that is a prefix of the primary's history: no step of the primary turns a chain that lies on
   its history into one that does not, and the primary never removes or replaces a service file *)
PrefixPreserved == [][(faults' = faults /\ OnHistory) => OnHistory']_vars
AppendOnly == [][faults' = faults => IsPrefixSeq(chain, chain')]_vars
(* what the primary uploads is on its own history *)
UploadsOwnHistory == [][(faults' = faults /\ Len(chain') > Len(chain)) =>
                          LET f == chain'[Len(chain')] IN f.max <= Len(plin) /\ plin[f.max] = f.post]_vars
(* repeated syncs on an idle primary bring the service to the primary's position *)
PosZeroCase == exists /\ PPos.t = 0 /\ Len(chain) > 0
Progress == (pc = "idle" /\ idle.n >= Bound(idle.k)) =>
               \/ (PosZeroCase /\ ExcusePosZero)
               \/ (PPos = SPos /\ (idle.strict => PPos = idle.p0))
(* a gap in the primary's log above what the service holds only exists below what the service acknowledged *)
RetentionSafe == (Rel = "behindGap") => SPos.t < need
(* ahead / inconsistent / not extendable: the primary adopts, the service is untouched *)
AdoptProp == [][(ev'.end /\ ev'.ok /\ ev'.clean /\ NeedsAdopt(ev'.rel)) => ev'.restored]_vars
RestoreAdopts == [][restores' = restores + 1 =>
                      /\ chain' = chain /\ exists' /\ PPos' = SPos /\ plin' = slin /\ files' = {F(1, SPos.t)}]_vars
(* the published high-water mark never exceeds what the service has acknowledged *)
HwmAcked == hwm <= acked
\* the database file is the image at the primary's position whenever no interrupted transaction is pending:
\* in particular a restore adopts the service's snapshot and nothing of an abandoned history comes back
ImageAtPosition == ~stale
RestoreDiscardsInterrupted == [][restores' = restores + 1 => hot' \in {"none", "done", "checked"}]_vars

(* --------- leads (expected to be violated; evidence, not verdicts) -------- *)
(* Appendix G lead (i), stage 1: after a rewind the HWM exceeds what the service holds *)
LeadHwmLeService == OnHistory => hwm <= Max2(SPos.t, 0)
(* stage 2: after adopting the rewound service the stale HWM lets a sweep delete never-uploaded
   transactions, and the next pass restores again although no fault happened in between *)
LeadNoRepeatLoss == [][(ev'.a = "SyncStart" /\ ev'.br = "restore:ltx-not-found") => fsr]_vars

EmitInv == (Emit /\ pc = "idle" /\ hist # <<>>) => PrintT("TRACE " \o ToJson([h |-> hist]))
=============================================================================
