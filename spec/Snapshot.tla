---- MODULE Snapshot ----
(***************************************************************************)
(* C10: a completed snapshot (DB.WriteSnapshotTo) or export (DB.Export) is *)
(* the image of exactly one position - the one it reports.                 *)
(*                                                                         *)
(* Processes (each action is one lock operation / one FUSE request / one   *)
(* critical section of the Go code, in the order of the code):             *)
(*   S  the snapshotter / exporter      db.go WriteSnapshotTo, Export      *)
(*   W  a SQLite WAL-mode writer  (Mode = "wal")   WRITE lock .. CommitWAL *)
(*   J  a SQLite rollback-journal writer (Mode = "rb")    .. CommitJournal *)
(*   C  a SQLite client checkpointer (own connection)  CKPT, READ0, copy,  *)
(*      optionally log truncation under WRITE + READ1..4                   *)
(*   L  LiteFS's own checkpoint   DB.Checkpoint: all-or-nothing write lock *)
(*                                                                         *)
(* Page contents are version numbers.  A checksum is the image itself      *)
(* (collision-freeness of CRC64 is an assumption).  ref[t] is the          *)
(* reference image of position t (history variable, written at commit).    *)
(*                                                                         *)
(* Named deviations: READ1..READ4 are one lock READN (every process that   *)
(* takes one of them in a conflicting mode takes READ1); the DMS lock is   *)
(* left out (only ever shared); file opens are not steps (the harness      *)
(* passes through those gates); page read + hand-over to the destination   *)
(* writer is one step (the gate is inside the destination Write).          *)
(***************************************************************************)
EXTENDS Integers, Sequences, FiniteSets, TLC, Json

CONSTANTS
  Mode,          \* "wal" | "rb"
  SelfCheck,     \* TRUE = WriteSnapshotTo (final checksum comparison), FALSE = Export
  N0, MaxPg,     \* initial / largest database size in pages
  MaxTx,         \* transactions the writer may start
  MaxCkpt,       \* client checkpoints
  MaxLCkpt,      \* LiteFS checkpoints (role change)
  AllowRollback, \* the writer may abandon a transaction
  InitWals,      \* set of page sets: pages whose current version is in the log initially
  \* ---- guards; the values of the code are given in brackets ----
  HoldWrite,     \* [FALSE] TRUE = candidate repair: WRITE is released only after the READ locks are held
  TakeRead,      \* [TRUE]  S takes READ0..4 shared
  CopyOffsets,   \* [TRUE]  S reads pages through its own copy of frameOffsets
  CkptGate,      \* [TRUE]  TryLocks refuses CKPT while another owner holds WRITE
  TrackSig,      \* TRUE: remember in which phase of S the others acted (more distinct final states = more schedules)
  Emit           \* print one TRACE line (schedule + predicted outcome) per distinct final state

None == "none"
Locks == {"PENDING", "SHARED", "RESERVED", "WRITE", "CKPT", "RECOVER", "READ0", "READN"}

VARIABLES
  dbf,     \* database file: sequence of page versions
  wal,     \* log file: sequence of frames [pg, ver, c] (c = commit size or 0); stale frames stay behind
  mx,      \* frames of the current log generation that are committed (LiteFS and SQLite agree when WRITE is free)
  bf,      \* frames backfilled by a client checkpoint (SQLite's nBackfill)
  foff,    \* LiteFS: db.wal.frameOffsets, page -> frame index
  pos, pageN, ref,
  lk,      \* lock table: lock -> [x |-> exclusive holder or None, s |-> set of shared holders]
  wpc, plan, todo, txc,          \* writer (W or J)
  cpc, ckind, cmx, nck, nlck,    \* checkpointers (cmx = mxFrame read from the wal-index when the checkpoint starts)
  spc, cpos, cn, coff, sout, sres,   \* snapshotter: program counter, captured view, pages delivered, result
  isig, hist

vars == <<dbf, wal, mx, bf, foff, pos, pageN, ref, lk, wpc, plan, todo, txc, cpc, ckind, cmx, nck, nlck,
          spc, cpos, cn, coff, sout, sres, isig, hist>>
view == <<dbf, wal, mx, bf, foff, pos, pageN, ref, lk, wpc, plan, todo, txc, cpc, ckind, cmx, nck, nlck,
          spc, cpos, cn, coff, sout, sres, isig>>

Max(S) == CHOOSE x \in S : \A y \in S : y <= x
SeqOfSet(S) == CHOOSE f \in [1..Cardinality(S) -> S] : \A a, b \in 1..Cardinality(S) : a < b => f[a] < f[b]

(* ---------------- lock table (rwmutex.go; C12 decides the single lock) ---------------- *)
CanS(t, l, o) == t[l].x \in {None, o}
CanX(t, l, o) == t[l].x \in {None, o} /\ t[l].s \subseteq {o}
AddS(t, l, o) == [t EXCEPT ![l] = [x |-> None, s |-> @.s \cup {o}]]
AddX(t, l, o) == [t EXCEPT ![l] = [x |-> o, s |-> {}]]
Rel(t, l, o)  == [t EXCEPT ![l] = [x |-> IF @.x = o THEN None ELSE @.x, s |-> @.s \ {o}]]
RelAll(t, o)  == [l \in Locks |-> [x |-> IF t[l].x = o THEN None ELSE t[l].x, s |-> t[l].s \ {o}]]
St(t, l) == IF t[l].x # None THEN "x" ELSE IF t[l].s # {} THEN "s" ELSE "u"
Unlocked(t, l) == St(t, l) = "u"

(* ---------------- reference semantics ---------------- *)
Logical(n) == [p \in 1..n |-> IF p \in DOMAIN foff THEN wal[foff[p]].ver ELSE IF p <= Len(dbf) THEN dbf[p] ELSE 0]
\* what SQLite's wal-index says is committed: the commit frame is in the index before WRITE is released
SqlMx == IF wpc = "w_end" /\ plan.out = "commit" THEN mx + Cardinality(plan.M) ELSE mx
LastOf(k, p) == Max({i \in 1..k : wal[i].pg = p})
PagesIn(k) == {wal[i].pg : i \in 1..k}
CommitOf(k) == wal[Max({i \in 1..k : wal[i].c # 0})].c
Backfilled(d, k) ==      \* database file after copying the last version of every page in frames 1..k
  IF k = 0 THEN d
  ELSE [p \in 1..CommitOf(k) |-> IF p \in PagesIn(k) THEN wal[LastOf(k, p)].ver ELSE IF p <= Len(d) THEN d[p] ELSE 0]
NewImage == [p \in 1..plan.ns |-> IF p \in plan.M THEN plan.v ELSE ref[pos].img[p]]

(* ---------------- history ---------------- *)
LkStr(t) == St(t, "PENDING") \o St(t, "SHARED") \o St(t, "RESERVED") \o St(t, "WRITE") \o St(t, "CKPT")
            \o St(t, "RECOVER") \o St(t, "READ0") \o St(t, "READN")
Obs == <<LkStr(lk'), pos', pageN'>>       \* predicted observables after the step: lock table, position, size
\* effectful steps of the other processes are remembered together with the phase of S they fell into
\* (only when TrackSig: makes schedules that differ in WHERE they interfere distinct states, for emission)
Effect(a, op, g) == \/ a = "L" \/ (a = "C" /\ op \in {"copy", "trunc"}) \/ (a = "W" /\ op = "end" /\ g.out = "commit")
                    \/ (a = "W" /\ op = "hdr" /\ g.new) \/ (a = "J" /\ op \in {"page", "final"})
Phase == IF spc \in {"start", "shared", "unpending", "write", "cap1", "cap2", "done"} THEN "pre"
         ELSE IF spc \in {"unwrite", "ckpt"} /\ ~HoldWrite THEN "w0"       \* capture done, no lock but SHARED held
         ELSE IF spc \in {"recover", "read0", "readn"} \/ (HoldWrite /\ spc \in {"ckpt", "unwrite"}) THEN "w1"
         ELSE "rd"
H(a, op, g) == /\ isig' = IF TrackSig /\ a # "S" /\ Phase # "pre" /\ Effect(a, op, g) THEN isig \cup {<<Phase, a, op>>} ELSE isig
               /\ hist' = Append(hist, <<a, op, g, Obs>>)

Init ==
  /\ \E im \in InitWals :
       /\ (Mode = "rb" => im = {})
       /\ wal = [i \in 1..Cardinality(im) |-> [pg |-> SeqOfSet(im)[i], ver |-> 2, c |-> IF i = Cardinality(im) THEN N0 ELSE 0]]
       /\ foff = [p \in im |-> CHOOSE i \in 1..Cardinality(im) : SeqOfSet(im)[i] = p]
       /\ mx = Cardinality(im)
       /\ ref = (0 :> [n |-> N0, img |-> [p \in 1..N0 |-> IF p \in im THEN 2 ELSE 1]])
       /\ hist = << <<"I", "init", [im |-> im, n |-> N0, mode |-> Mode], 0>> >>
  /\ dbf = [p \in 1..N0 |-> 1] /\ bf = 0 /\ pos = 0 /\ pageN = N0
  /\ lk = [l \in Locks |-> [x |-> None, s |-> {}]]
  /\ wpc = "idle" /\ plan = [M |-> {}, ns |-> 0, out |-> None, v |-> 0] /\ todo = <<>> /\ txc = 0
  /\ cpc = "idle" /\ ckind = None /\ cmx = 0 /\ nck = 0 /\ nlck = 0
  /\ spc = "start" /\ cpos = 0 /\ cn = 0 /\ coff = <<>> /\ sout = <<>> /\ sres = "running" /\ isig = {}

Running == spc # "done"       \* the world stops when the attempt has returned

Plans == {pl \in [M : SUBSET (1..MaxPg), ns : pageN..MaxPg, out : {"commit", "rollback"}, v : {txc + 3}] :
            /\ 1 \in pl.M /\ pl.M \subseteq 1..pl.ns /\ ((pageN + 1)..pl.ns) \subseteq pl.M
            /\ pl.ns <= pageN + 1
            /\ (pl.out = "rollback" => AllowRollback /\ pl.ns = pageN)}

(* ======================= W: SQLite writer in WAL mode ======================= *)
\* read mark (READ1 shared) + WRITE exclusive; EAGAIN is retried later = the action is not enabled
WBegin ==
  /\ Running /\ Mode = "wal" /\ wpc = "idle" /\ txc < MaxTx
  /\ CanS(lk, "READN", "W") /\ CanX(lk, "WRITE", "W")
  /\ lk' = AddX(AddS(lk, "READN", "W"), "WRITE", "W")
  /\ \E pl \in Plans : plan' = pl
  /\ wpc' = "w_hdr" /\ txc' = txc + 1 /\ todo' = <<>>
  /\ UNCHANGED <<dbf, wal, mx, bf, foff, pos, pageN, ref, cpc, ckind, cmx, nck, nlck, spc, cpos, cn, coff, sout, sres>>
  /\ H("W", "begin", plan')

\* first frame write: empty log -> new header; fully backfilled log -> restart if READ1..4 can be taken
\* exclusively (walRestartLog), otherwise the log just grows.  writeWALHeader clears frameOffsets.
WHdr ==
  /\ Running /\ wpc = "w_hdr"
  /\ LET fresh == mx = 0
         restart == mx > 0 /\ bf = mx /\ CanX(lk, "READN", "W")
     IN /\ IF fresh \/ restart THEN mx' = 0 /\ bf' = 0 /\ foff' = <<>> ELSE UNCHANGED <<mx, bf, foff>>
        /\ wpc' = "w_frames" /\ todo' = SeqOfSet(plan.M)
        /\ UNCHANGED <<dbf, wal, pos, pageN, ref, lk, plan, txc, cpc, ckind, cmx, nck, nlck, spc, cpos, cn, coff, sout, sres>>
        /\ H("W", "hdr", [new |-> fresh \/ restart, tryrestart |-> (mx > 0 /\ bf = mx)])

WFrame ==
  /\ Running /\ wpc = "w_frames" /\ todo # <<>>
  /\ LET k == Cardinality(plan.M) - Len(todo) + 1
         i == mx + k
         last == Tail(todo) = <<>>
         f == [pg |-> Head(todo), ver |-> plan.v, c |-> IF last /\ plan.out = "commit" THEN plan.ns ELSE 0]
     IN /\ wal' = IF i <= Len(wal) THEN [wal EXCEPT ![i] = f] ELSE Append(wal, f)
        /\ todo' = Tail(todo) /\ wpc' = IF last THEN "w_end" ELSE "w_frames"
        /\ UNCHANGED <<dbf, mx, bf, foff, pos, pageN, ref, lk, plan, txc, cpc, ckind, cmx, nck, nlck, spc, cpos, cn, coff, sout, sres>>
        /\ H("W", "frame", [p |-> Head(todo), commit |-> f.c # 0])

\* Unlock(WRITE) = CommitWAL: position, size and frameOffsets move together, then the lock is released
WEnd ==
  /\ Running /\ wpc = "w_end"
  /\ IF plan.out = "commit"
     THEN LET k == Cardinality(plan.M)
              idx(p) == CHOOSE i \in (mx + 1)..(mx + k) : wal[i].pg = p
          IN /\ foff' = [p \in (DOMAIN foff) \cup plan.M |-> IF p \in plan.M THEN idx(p) ELSE foff[p]]
             /\ mx' = mx + k /\ pos' = pos + 1 /\ pageN' = plan.ns
             /\ ref' = ref @@ ((pos + 1) :> [n |-> plan.ns, img |-> NewImage])
     ELSE UNCHANGED <<foff, mx, pos, pageN, ref>>
  /\ lk' = RelAll(lk, "W") /\ wpc' = "idle"
  /\ UNCHANGED <<dbf, wal, bf, plan, todo, txc, cpc, ckind, cmx, nck, nlck, spc, cpos, cn, coff, sout, sres>>
  /\ H("W", "end", [out |-> plan.out])

(* ======================= J: SQLite writer with a rollback journal ======================= *)
JBegin ==      \* SHARED then RESERVED; journal header and records (no effect on the database file)
  /\ Running /\ Mode = "rb" /\ wpc = "idle" /\ txc < MaxTx
  /\ CanS(lk, "PENDING", "W") /\ CanS(lk, "SHARED", "W") /\ CanX(lk, "RESERVED", "W")
  /\ lk' = AddX(AddS(lk, "SHARED", "W"), "RESERVED", "W")
  /\ \E pl \in Plans : plan' = pl
  /\ wpc' = "j_lock" /\ txc' = txc + 1 /\ todo' = <<>>
  /\ UNCHANGED <<dbf, wal, mx, bf, foff, pos, pageN, ref, cpc, ckind, cmx, nck, nlck, spc, cpos, cn, coff, sout, sres>>
  /\ H("J", "begin", plan')

JLock ==       \* journal sync, then PENDING exclusive, then SHARED exclusive (EXCLUSIVE); PENDING stays on EAGAIN
  /\ Running /\ wpc = "j_lock" /\ CanX(lk, "PENDING", "W")
  /\ (lk["PENDING"].x = "W" => CanX(lk, "SHARED", "W"))      \* otherwise the retry changes nothing
  /\ LET full == CanX(lk, "SHARED", "W")
         t1 == AddX(lk, "PENDING", "W")
     IN /\ lk' = IF full THEN AddX(t1, "SHARED", "W") ELSE t1
        /\ wpc' = IF full THEN "j_pages" ELSE "j_lock"
        /\ todo' = IF ~full THEN <<>> ELSE IF plan.out = "commit" THEN SeqOfSet(plan.M) ELSE <<1>>
        /\ UNCHANGED <<dbf, wal, mx, bf, foff, pos, pageN, ref, plan, txc, cpc, ckind, cmx, nck, nlck, spc, cpos, cn, coff, sout, sres>>
        /\ H("J", "lock", [full |-> full])

JPage ==
  /\ Running /\ wpc = "j_pages" /\ todo # <<>>
  /\ LET p == Head(todo) IN
       dbf' = [q \in 1..Max({Len(dbf), p}) |-> IF q = p THEN plan.v ELSE IF q <= Len(dbf) THEN dbf[q] ELSE 0]
  /\ todo' = Tail(todo)
  /\ wpc' = IF Tail(todo) # <<>> THEN "j_pages" ELSE IF plan.out = "commit" THEN "j_final" ELSE "j_rb"
  /\ UNCHANGED <<wal, mx, bf, foff, pos, pageN, ref, lk, plan, txc, cpc, ckind, cmx, nck, nlck, spc, cpos, cn, coff, sout, sres>>
  /\ H("J", "page", [p |-> Head(todo)])

JRollback ==   \* the journalled originals are played back
  /\ Running /\ wpc = "j_rb"
  /\ dbf' = ref[pos].img /\ wpc' = "j_final"
  /\ UNCHANGED <<wal, mx, bf, foff, pos, pageN, ref, lk, plan, todo, txc, cpc, ckind, cmx, nck, nlck, spc, cpos, cn, coff, sout, sres>>
  /\ H("J", "rollback", [n |-> pageN])

JFinal ==      \* journal finalised = CommitJournal: a transaction file is written for the dirty pages either way
  /\ Running /\ wpc = "j_final"
  /\ pos' = pos + 1
  /\ pageN' = IF plan.out = "commit" THEN plan.ns ELSE pageN
  /\ ref' = ref @@ ((pos + 1) :> (IF plan.out = "commit" THEN [n |-> plan.ns, img |-> NewImage] ELSE ref[pos]))
  /\ wpc' = "j_end"
  /\ UNCHANGED <<dbf, wal, mx, bf, foff, lk, plan, todo, txc, cpc, ckind, cmx, nck, nlck, spc, cpos, cn, coff, sout, sres>>
  /\ H("J", "final", [out |-> plan.out])

JEnd ==
  /\ Running /\ wpc = "j_end"
  /\ lk' = RelAll(lk, "W") /\ wpc' = "idle"
  /\ UNCHANGED <<dbf, wal, mx, bf, foff, pos, pageN, ref, plan, todo, txc, cpc, ckind, cmx, nck, nlck, spc, cpos, cn, coff, sout, sres>>
  /\ H("J", "end", 0)

(* ======================= C: SQLite client checkpoint ======================= *)
\* TryLocks (db.go): CKPT is refused while another owner holds WRITE
GateOK(o) == ~CkptGate \/ Unlocked(lk, "WRITE") \/ lk["WRITE"].x = o

CBegin ==      \* CKPT exclusive; RESTART/TRUNCATE modes also take WRITE before the wal-index header is read
  /\ Running /\ Mode = "wal" /\ cpc = "idle" /\ nck < MaxCkpt
  /\ GateOK("C") /\ CanX(lk, "CKPT", "C")
  /\ \E k \in {"PASSIVE", "TRUNCATE"} :
       /\ ckind' = k
       /\ (k = "TRUNCATE" => CanX(lk, "WRITE", "C"))
       /\ lk' = IF k = "TRUNCATE" THEN AddX(AddX(lk, "CKPT", "C"), "WRITE", "C") ELSE AddX(lk, "CKPT", "C")
  /\ cmx' = SqlMx
  /\ cpc' = "c_read0" /\ nck' = nck + 1
  /\ UNCHANGED <<dbf, wal, mx, bf, foff, pos, pageN, ref, wpc, plan, todo, txc, nlck, spc, cpos, cn, coff, sout, sres>>
  /\ H("C", "begin", [kind |-> ckind'])

\* READ0 exclusive, copy every frame the wal-index called committed, release READ0
CCopy ==
  /\ Running /\ cpc = "c_read0" /\ CanX(lk, "READ0", "C")
  /\ dbf' = (IF cmx > bf THEN Backfilled(dbf, cmx) ELSE dbf) /\ bf' = IF cmx > bf THEN cmx ELSE bf
  /\ cpc' = IF ckind = "TRUNCATE" THEN "c_trunc" ELSE "c_end"
  /\ UNCHANGED <<wal, mx, foff, pos, pageN, ref, lk, wpc, plan, todo, txc, ckind, cmx, nck, nlck, spc, cpos, cn, coff, sout, sres>>
  /\ H("C", "copy", [k |-> cmx])

\* TRUNCATE: READ1..4 exclusive as well, log cut to zero bytes (TruncateWAL clears frameOffsets)
CTrunc ==
  /\ Running /\ cpc = "c_trunc" /\ CanX(lk, "READN", "C") /\ bf = mx
  /\ wal' = <<>> /\ mx' = 0 /\ bf' = 0 /\ foff' = <<>>
  /\ cpc' = "c_end"
  /\ UNCHANGED <<dbf, pos, pageN, ref, lk, wpc, plan, todo, txc, ckind, cmx, nck, nlck, spc, cpos, cn, coff, sout, sres>>
  /\ H("C", "trunc", 0)

CEnd ==        \* also the busy exits
  /\ Running /\ cpc \in {"c_read0", "c_trunc", "c_end"}
  /\ lk' = RelAll(lk, "C") /\ cpc' = "idle"
  /\ UNCHANGED <<dbf, wal, mx, bf, foff, pos, pageN, ref, wpc, plan, todo, txc, ckind, cmx, nck, nlck, spc, cpos, cn, coff, sout, sres>>
  /\ H("C", "end", 0)

(* ======================= L: DB.Checkpoint (role change) ======================= *)
\* TryAcquireWriteLock takes everything or nothing; CheckpointNoLock copies the committed log and truncates it
LCkpt ==
  /\ Running /\ Mode = "wal" /\ nlck < MaxLCkpt
  /\ CanS(lk, "PENDING", "L") /\ CanS(lk, "SHARED", "L")
  /\ \A l \in {"WRITE", "CKPT", "RECOVER", "READ0", "READN"} : CanX(lk, l, "L")
  /\ dbf' = Backfilled(dbf, mx)
  /\ wal' = <<>> /\ mx' = 0 /\ bf' = 0 /\ foff' = <<>> /\ nlck' = nlck + 1
  /\ UNCHANGED <<pos, pageN, ref, lk, wpc, plan, todo, txc, cpc, ckind, cmx, nck, spc, cpos, cn, coff, sout, sres>>
  /\ H("L", "ckpt", 0)

(* ======================= S: WriteSnapshotTo / Export ======================= *)
SKeep == UNCHANGED <<dbf, wal, mx, bf, foff, pos, pageN, ref, wpc, plan, todo, txc, cpc, ckind, cmx, nck, nlck>>
Fires(l) == St(lk, l) # St(lk', l)       \* OnLockStateChange is only called when the mutex state changes

SRLock(from, l, to) ==
  /\ spc = from /\ CanS(lk, l, "S")
  /\ lk' = AddS(lk, l, "S") /\ spc' = to
  /\ SKeep /\ UNCHANGED <<cpos, cn, coff, sout, sres>>
  /\ H("S", l \o "+", [f |-> Fires(l)])

SUnlock(from, l, to) ==
  /\ spc = from
  /\ lk' = Rel(lk, l, "S") /\ spc' = to
  /\ SKeep /\ UNCHANGED <<cpos, cn, coff, sout, sres>>
  /\ H("S", l \o "-", [f |-> Fires(l)])

AfterCapture == IF Mode = "wal" /\ ~HoldWrite THEN "unwrite" ELSE "ckpt"
AfterRead == IF Mode = "wal" /\ HoldWrite THEN "unwrite" ELSE IF SelfCheck THEN "unckpt" ELSE "pages"

SWrite ==       \* WAL mode only: temporary exclusive WRITE
  /\ spc = "write" /\ CanX(lk, "WRITE", "S")
  /\ lk' = AddX(lk, "WRITE", "S") /\ spc' = "cap1"
  /\ SKeep /\ UNCHANGED <<cpos, cn, coff, sout, sres>>
  /\ H("S", "WRITE+", [f |-> TRUE])

SCapPos ==
  /\ spc = "cap1" /\ cpos' = pos /\ spc' = "cap2"
  /\ SKeep /\ UNCHANGED <<lk, cn, coff, sout, sres>>
  /\ H("S", "cap", [what |-> "pos"])

SCapRest ==
  /\ spc = "cap2" /\ cn' = pageN /\ coff' = foff /\ spc' = AfterCapture
  /\ SKeep /\ UNCHANGED <<lk, cpos, sout, sres>>
  /\ H("S", "cap", [what |-> "size+offsets"])

Src == IF CopyOffsets THEN coff ELSE foff
SFail(why) ==
  /\ lk' = RelAll(lk, "S") /\ spc' = "done" /\ sres' = "error"
  /\ SKeep /\ UNCHANGED <<cpos, cn, coff, sout>>
  /\ H("S", "fin", [res |-> "error", why |-> why])

SPage ==        \* read page Len(sout)+1 from the log at the remembered offset or from the database file; hand it over
  /\ spc = "pages" /\ Len(sout) < cn
  /\ LET p == Len(sout) + 1 IN
     IF p \in DOMAIN Src
     THEN IF Src[p] <= Len(wal)
          THEN /\ sout' = Append(sout, wal[Src[p]].ver) /\ SKeep /\ UNCHANGED <<lk, spc, cpos, cn, coff, sres>>
               /\ H("S", "page", [p |-> p, src |-> "wal"])
          ELSE SFail("wal-eof")
     ELSE IF p <= Len(dbf)
          THEN /\ sout' = Append(sout, dbf[p]) /\ SKeep /\ UNCHANGED <<lk, spc, cpos, cn, coff, sres>>
               /\ H("S", "page", [p |-> p, src |-> "db"])
          ELSE SFail("db-eof")

SFinish ==
  /\ spc = "pages" /\ Len(sout) = cn
  /\ sres' = IF SelfCheck /\ [n |-> cn, img |-> sout] # ref[cpos] THEN "error" ELSE "ok"
  /\ lk' = RelAll(lk, "S") /\ spc' = "done"
  /\ SKeep /\ UNCHANGED <<cpos, cn, coff, sout>>
  /\ H("S", "fin", [res |-> sres', why |-> "end"])

SNext ==
  \/ SRLock("start", "PENDING", "shared")
  \/ SRLock("shared", "SHARED", "unpending")
  \/ SUnlock("unpending", "PENDING", IF Mode = "wal" THEN "write" ELSE "cap1")
  \/ SWrite \/ SCapPos \/ SCapRest
  \/ SUnlock("unwrite", "WRITE", IF HoldWrite THEN (IF SelfCheck THEN "unckpt" ELSE "pages") ELSE "ckpt")
  \/ SRLock("ckpt", "CKPT", "recover")
  \/ SRLock("recover", "RECOVER", IF TakeRead THEN "read0" ELSE AfterRead)
  \/ SRLock("read0", "READ0", "readn")
  \/ SRLock("readn", "READN", AfterRead)
  \/ SUnlock("unckpt", "CKPT", "unrecover")
  \/ SUnlock("unrecover", "RECOVER", "pages")
  \/ SPage \/ SFinish

Next == SNext \/ WBegin \/ WHdr \/ WFrame \/ WEnd \/ JBegin \/ JLock \/ JPage \/ JRollback \/ JFinal \/ JEnd
        \/ CBegin \/ CCopy \/ CTrunc \/ CEnd \/ LCkpt
Spec == Init /\ [][Next]_vars

(* ======================= properties ======================= *)
TypeOK ==
  /\ \A l \in Locks : lk[l].x = None \/ lk[l].s = {}
  /\ \A p \in DOMAIN foff : foff[p] <= mx /\ wal[foff[p]].pg = p
  /\ mx <= Len(wal)

\* LiteFS's own view is the reference image whenever the writer is not inside its exclusive phase (sanity of the model)
ViewIsRef == (Mode = "wal" \/ wpc \in {"idle", "j_lock", "j_end"}) =>
               (pageN = ref[pos].n /\ Logical(pageN) = ref[pos].img)

\* C10 on the model: an attempt that returns success delivered exactly the image (pages and size) of the position it reports
OnePosition == sres = "ok" => [n |-> cn, img |-> sout] = ref[cpos]

EmitInv == (Emit /\ spc = "done") =>
             PrintT("TRACE " \o ToJson([h |-> hist, r |-> [res |-> sres, t |-> cpos, n |-> cn, img |-> sout,
                                                          bad |-> (sres = "ok" /\ [n |-> cn, img |-> sout] # ref[cpos])]]))
====
