\* relevance configuration: the guard "halt-without-role-check" is removed from the decision table (this is what the
\* real handlers do, see known_findings.d/C20.jsonl); TLC must report InvalidChangesNothing.
SPECIFICATION Spec
CONSTANTS
  EmitEdges = FALSE
  Reqs = "all"
  MaxReq = 2
  Mut = "halt-without-role-check"
VIEW view
INVARIANTS TypeOK StateSane
PROPERTIES InvalidChangesNothing
CHECK_DEADLOCK FALSE
