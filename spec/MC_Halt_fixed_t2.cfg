\* thorough tier: repaired variant, primary change + rogue sender + blocked stream
SPECIFICATION Spec
CONSTANTS
  TxHolderCheck = TRUE
  UnsetFix = TRUE
  CatchUpKeeps = TRUE
  GrantPins = TRUE
  IdemCheck = TRUE
  WaitPos = TRUE
  FwdFirst = TRUE
  MaxDrop = 0
  DropExcluded = TRUE
  ExpiryUnlocks = TRUE
  MaxTx = 2
  MaxFaults = 1
  MaxHandles = 1
  MaxExpire = 1
  MaxPChange = 1
  MaxRogue = 1
  MaxBlock = 1
  MaxCkpt = 1
  MaxIdle = 1
  MaxSteps = 0
  Eager = FALSE
  Emit = "none"
VIEW view
INVARIANTS TypeOK Exclusive HaltPins StartsAtLockPos AckedIsOnPrimary ReachesThird OnlyFromHolder SameIdSameLock WritableAgain FormerCannotPublish NoWedge
CHECK_DEADLOCK FALSE
