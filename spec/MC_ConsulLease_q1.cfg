\* quick: one leaser, two sessions, every call, every answer class, every environment action; one script per explored edge (ClusterIDSetOnce is checked in MC_ConsulLease_asis_cid / _cas)
SPECIFICATION Spec
CONSTANTS
  Nodes = {"n1"}
  MaxSess = 2
  Ops = {"acquire","acqx","renew","close","info","cid","setcid"}
  Faults = {"err","lost","stale"}
  EnvActs = {"expire","delay","xacq","xcid","xhand"}
  UseCAS = FALSE
  Mut = "none"
  Emit = "edge"
VIEW view
INVARIANTS TypeOK OneLiveHolder LeaseHoldsKey LeaseOnlyWithKey ExpiredIsReported CloseDestroys HandoffExact
CHECK_DEADLOCK FALSE
