SPECIFICATION Spec
CONSTANTS
  Reps = {"n2"}
  DBs = {"a","b"}
  Filter = {"a"}
  MaxTx = 1
  MaxFaults = 1
  MaxOrphans = 1
  OrphanTx = {1}
  AllowDrop = TRUE
  AllowSweep = TRUE
  AllowRestart = TRUE
  FilterEveryRound = TRUE
  DropFrameFiltered = FALSE
  OwnEntry = TRUE
  ChkCompare = TRUE
  ApplyDropFrame = FALSE
  Wire = 2
  Emit = "none"
VIEW view
INVARIANTS NoFrameOutsideFilter

CHECK_DEADLOCK FALSE
