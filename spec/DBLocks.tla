---- MODULE DBLocks ----
(***************************************************************************)
(* The twelve advisory locks of ONE LiteFS database (db.go, struct DB) and  *)
(* the processes that use them (property C11):                             *)
(*                                                                         *)
(*  - client owners = SQLite connections.  Every client action is ONE FUSE *)
(*    lock request (fuse/database_node.go, fuse/shm_node.go: lock/Unlock/  *)
(*    Flush) and is executed exactly as DB.TryLocks / DB.TryRLocks /       *)
(*    DB.Unlock / UnlockDatabase / UnlockSHM are coded: the lock types of  *)
(*    a byte range are taken one after the other, the ones already taken   *)
(*    are KEPT when a later one fails (DESIGN Appendix G), and CKPT is     *)
(*    refused while a different owner holds WRITE (the "CKPT gate").       *)
(*    The requests are the ones SQLite 3.39 issues (DESIGN Appendix A);    *)
(*    each request carries a light protocol guard (e.g. RESERVED only      *)
(*    from SHARED) - a superset of what protocol-following connections do. *)
(*  - internal writers = DB.TryAcquireWriteLock as a MULTI-STEP process:   *)
(*    one action per TryRLock/TryLock/Unlock in the order of the code,     *)
(*    release of the guards one by one (GuardSet.Unlock order) after the   *)
(*    first failure, "IWrite" steps while holding (the write section of    *)
(*    Recover, Checkpoint, Import, stream apply, halt, restore), release.  *)
(*    Every call of TryAcquireWriteLock uses a fresh guard set, so several *)
(*    internal writers are several owners (halt pinning = an internal      *)
(*    writer that stays in its section).                                   *)
(*  - optionally the lock sequence of WriteSnapshotTo / Export (owner s).  *)
(*                                                                         *)
(* Each lock has the reader/writer semantics of spec/RWMutex.tla, restated *)
(* compactly as a function owner -> {U, S, X} (unlocked/shared/exclusive): *)
(* an exclusive request is granted iff every OTHER owner is unlocked, a    *)
(* shared request iff no OTHER owner is exclusive (this is the POSIX rule  *)
(* that TLC proved equal to rwmutex.go's counters in RWMutex.tla, C12).    *)
(*                                                                         *)
(* Named deviations from the code: the journal mode is a constant of a run *)
(* (a mode switch needs a page-1 write, outside the lock model); blocking  *)
(* RLock/Lock of the snapshot sequence are enabled exactly when the Try    *)
(* call succeeds; Unlock(WRITE)'s side effect (CommitWAL) is not part of   *)
(* the lock model; WAL writes are tested as coded against the WRITE mutex  *)
(* (not the writer's own guard) - the owner-specific reading is the        *)
(* property WalWriteByHolder, checked in MC_DBLocks_lead_walowner.cfg.     *)
(*                                                                         *)
(* Closing a file descriptor (FUSE FLUSH of the handle): "DbFlush" is       *)
(* DatabaseHandle.Flush -> DB.UnlockDatabase, "ShmFlush" = CloseSHM(c) is   *)
(* SHMHandle.Flush -> DB.UnlockSHM.  Each releases exactly the locks of ITS *)
(* file: closing the -shm descriptor (SQLite does that in the middle of     *)
(* PRAGMA journal_mode=DELETE, while it still holds EXCLUSIVE on the        *)
(* database file) keeps the owner's PENDING/SHARED/RESERVED.  The ghost     *)
(* variable "lost" records locks that LiteFS's table dropped although the   *)
(* connection neither unlocked them nor closed their file (as coded: never; *)
(* FlushAll = TRUE is the relevance mutation "UnlockSHM releases the whole   *)
(* guard set").  The C11 clauses are stated on what a connection HOLDS      *)
(* (Bel = lock table + lost), not on what LiteFS remembers.                 *)
(*                                                                         *)
(* Binding (harness/checks/c11): with EmitEdges TLC prints one STATE line  *)
(* per distinct state with ALL outgoing edges (actor, request, predicted   *)
(* result, actor's guards afterwards); the harness rebuilds paths by a     *)
(* search over this relation and walks the graph on a real node.  The real *)
(* TryAcquireWriteLock can only be paused (OnLockStateChange) after a lock *)
(* call that changes a mutex state, or when it returns: with Gated = TRUE  *)
(* the other processes move only at those points ("gate" in ipc), so every *)
(* edge of a Gated graph is realisable; the invariants are model-checked   *)
(* with Gated = FALSE, i.e. for every interleaving.                        *)
(***************************************************************************)
EXTENDS Integers, Sequences, FiniteSets, TLC, Json

CONSTANTS
  Clients,      \* client owner names, e.g. {"a","b"}
  Internals,    \* internal writer names, e.g. {"i"} (each one TryAcquireWriteLock guard set)
  Mode,         \* "rollback" | "wal"  (DB.Mode() during the run)
  ReadMarks,    \* subset of 0..4: WAL read marks that clients lock individually
  DbOpsInWal,   \* TRUE: WAL-mode clients also issue the database-file requests (SHARED, EXCLUSIVE locking mode)
  WithSnapshot, \* TRUE: one snapshot/export lock sequence (owner "s")
  CkptGate,     \* TRUE = as coded; FALSE = relevance mutation (gate removed)
  SkipLock,     \* "none" = as coded; a lock name = relevance mutation (TryAcquireWriteLock skips it)
  TxNoLock,     \* TRUE = model the /tx handler as coded: an internal page write that takes no lock (known defect)
  WalGuard,     \* TRUE = as coded (WAL writes need some WRITE holder); FALSE = relevance mutation
  WalOwnerTest, \* FALSE = as coded (the test looks at the WRITE mutex); TRUE = candidate repair (the writer's own guard)
  FlushAll,     \* FALSE = as coded (closing the -shm handle releases the SHM-file locks only); TRUE = relevance mutation (it releases the owner's whole guard set)
  Exclude,      \* request names removed from the clients' vocabulary (bounds the quick configurations)
  Gated,        \* TRUE: interleave other processes only where the real TryAcquireWriteLock can be paused (replay cfgs)
  EmitEdges     \* TRUE: print one STATE line per distinct state with all its outgoing edges

Snap == "s"
Owners == Clients \cup Internals \cup (IF WithSnapshot THEN {Snap} ELSE {})

LockSeq == <<"PENDING", "RESERVED", "SHARED", "WRITE", "CKPT", "RECOVER",
             "READ0", "READ1", "READ2", "READ3", "READ4", "DMS">>
Locks    == {LockSeq[i] : i \in 1..12}
DbLocks  == {"PENDING", "RESERVED", "SHARED"}
ShmLocks == Locks \ DbLocks
RD(k)    == LockSeq[7 + k]
Reads    == {RD(k) : k \in 0..4}
\* GuardSet.Unlock(): UnlockDatabase then UnlockSHM (litefs.go)
RelOrder == <<"PENDING", "SHARED", "RESERVED", "WRITE", "CKPT", "RECOVER",
              "READ0", "READ1", "READ2", "READ3", "READ4", "DMS">>

\* what an application connection must not hold / must not get while LiteFS writes (property C11)
Conflict == IF Mode = "rollback" THEN DbLocks ELSE {"WRITE", "CKPT", "RECOVER"} \cup Reads
WriteSet == Conflict

VARIABLES g,     \* g[o][l] \in {"U","S","X"}: guard state of owner o on lock l
          ipc,   \* per internal writer: [st, k, gate]
          spc,   \* snapshot sequence: 0 = idle, k = index of the next step of SnapProg (beyond it: releasing)
          lost,  \* lost[c][l] \in {"U","S","X"}: ghost - what client c still holds on l (it neither unlocked l nor closed
                 \* l's file) although the lock table g no longer says so; "U" = nothing lost (as coded: always)
          last   \* observable result of the last action (output only, hidden by VIEW)

vars == <<g, lost, ipc, spc, last>>
view == <<g, lost, ipc, spc>>

(* ------------------------------------------------------------------ *)
(* one lock                                                            *)
(* ------------------------------------------------------------------ *)
MS(gg, l) == IF \E o \in Owners : gg[o][l] = "X" THEN "X"
             ELSE IF \E o \in Owners : gg[o][l] = "S" THEN "S" ELSE "U"
CanW(gg, o, l) == \A p \in Owners \ {o} : gg[p][l] = "U"     \* POSIX: exclusive vs. the others
CanR(gg, o, l) == \A p \in Owners \ {o} : gg[p][l] # "X"     \* POSIX: shared vs. the others

Range(s) == {s[i] : i \in 1..Len(s)}

(* DB.TryLocks: sequential, earlier ones kept, CKPT gate *)
RECURSIVE TryW(_, _, _)
TryW(gg, o, ls) ==
  IF ls = <<>> THEN [g |-> gg, ok |-> TRUE]
  ELSE LET l == Head(ls) IN
    IF l = "CKPT" /\ CkptGate /\ MS(gg, "WRITE") # "U" /\ gg[o]["WRITE"] # "X"
    THEN [g |-> gg, ok |-> FALSE]
    ELSE IF CanW(gg, o, l) THEN TryW([gg EXCEPT ![o][l] = "X"], o, Tail(ls))
         ELSE [g |-> gg, ok |-> FALSE]

(* DB.TryRLocks: sequential, earlier ones kept, no gate *)
RECURSIVE TryR(_, _, _)
TryR(gg, o, ls) ==
  IF ls = <<>> THEN [g |-> gg, ok |-> TRUE]
  ELSE LET l == Head(ls) IN
    IF CanR(gg, o, l) THEN TryR([gg EXCEPT ![o][l] = "S"], o, Tail(ls))
    ELSE [g |-> gg, ok |-> FALSE]

Unl(gg, o, ls) == [gg EXCEPT ![o] = [l \in Locks |-> IF l \in Range(ls) THEN "U" ELSE gg[o][l]]]

(* ------------------------------------------------------------------ *)
(* client requests (one FUSE request each)                             *)
(* t: "R" = F_RDLCK, "W" = F_WRLCK, "U" = F_UNLCK, "F" = Flush of the   *)
(* handle (UnlockDatabase / UnlockSHM), "A" = a WAL header/frame write  *)
(* ------------------------------------------------------------------ *)
Rq(n, t, ls) == [n |-> n, t |-> t, ls |-> ls]

DbReqsRollback ==
  { Rq("PendR", "R", <<"PENDING">>), Rq("SharedR", "R", <<"SHARED">>), Rq("PendU", "U", <<"PENDING">>),
    Rq("ResvW", "W", <<"RESERVED">>), Rq("PendW", "W", <<"PENDING">>), Rq("SharedW", "W", <<"SHARED">>),
    Rq("PendResvU", "U", <<"PENDING", "RESERVED">>),
    Rq("DbUnlockAll", "U", <<"PENDING", "RESERVED", "SHARED">>),
    Rq("DbFlush", "F", <<"PENDING", "SHARED", "RESERVED">>) }

DbReqsWal ==   \* a WAL connection holds SHARED; EXCLUSIVE locking mode takes PENDING+SHARED exclusively
  { Rq("PendR", "R", <<"PENDING">>), Rq("SharedR", "R", <<"SHARED">>), Rq("PendU", "U", <<"PENDING">>),
    Rq("PendW", "W", <<"PENDING">>), Rq("SharedW", "W", <<"SHARED">>),
    Rq("DbUnlockAll", "U", <<"PENDING", "RESERVED", "SHARED">>),
    Rq("DbFlush", "F", <<"PENDING", "SHARED", "RESERVED">>) }

RdName(k, sfx) == "Read" \o ToString(k) \o sfx

ShmReqs ==
  { Rq("DmsR", "R", <<"DMS">>), Rq("DmsW", "W", <<"DMS">>),
    Rq("WriteW", "W", <<"WRITE">>), Rq("WriteU", "U", <<"WRITE">>),
    Rq("CkptW", "W", <<"CKPT">>), Rq("CkptU", "U", <<"CKPT">>),
    Rq("RecovRangeW", "W", <<"CKPT", "RECOVER">>), Rq("RecovRangeU", "U", <<"CKPT", "RECOVER">>),
    Rq("RecovW", "W", <<"RECOVER">>), Rq("RecovU", "U", <<"RECOVER">>),
    Rq("RestartW", "W", <<"READ1", "READ2", "READ3", "READ4">>),
    Rq("RestartU", "U", <<"READ1", "READ2", "READ3", "READ4">>),
    Rq("ShmFlush", "F", <<"WRITE", "CKPT", "RECOVER", "READ0", "READ1", "READ2", "READ3", "READ4", "DMS">>),
    Rq("WalWrite", "A", <<>>) }
  \cup { Rq(RdName(k, "R"), "R", <<RD(k)>>) : k \in ReadMarks }
  \cup { Rq(RdName(k, "W"), "W", <<RD(k)>>) : k \in ReadMarks }
  \cup { Rq(RdName(k, "U"), "U", <<RD(k)>>) : k \in ReadMarks }

ReqsAll == IF Mode = "rollback" THEN DbReqsRollback
           ELSE ShmReqs \cup (IF DbOpsInWal THEN DbReqsWal ELSE {})
Reqs == {r \in ReqsAll : r.n \notin Exclude}

NoRead(h) == \A l \in Reads : h[l] = "U"

\* protocol guard of a request for a connection whose guards are h
Allowed(h, r) ==
  LET n == r.n IN
  CASE n = "PendR"       -> h["PENDING"] = "U" /\ h["SHARED"] = "U" /\ h["RESERVED"] = "U"
    [] n = "SharedR"     -> (h["PENDING"] = "S" /\ h["SHARED"] = "U") \/ h["SHARED"] = "X"
    [] n = "PendU"       -> h["PENDING"] = "S"
    [] n = "ResvW"       -> h["SHARED"] = "S" /\ h["RESERVED"] = "U" /\ h["PENDING"] = "U"
    [] n = "PendW"       -> h["SHARED"] = "S" /\ h["PENDING"] = "U"
    [] n = "SharedW"     -> h["PENDING"] = "X" /\ h["SHARED"] = "S"
    [] n = "PendResvU"   -> h["SHARED"] = "S" /\ ~(h["PENDING"] = "U" /\ h["RESERVED"] = "U")
    [] n = "DbUnlockAll" -> ~(\A l \in DbLocks : h[l] = "U")
    [] n = "DbFlush"     -> ~(\A l \in DbLocks : h[l] = "U")
    [] n = "DmsR"        -> h["DMS"] \in {"U", "X"}
    [] n = "DmsW"        -> h["DMS"] = "U"
    [] n = "WriteW"      -> h["DMS"] = "S" /\ h["WRITE"] = "U"
    [] n = "WriteU"      -> h["WRITE"] = "X"
    [] n = "CkptW"       -> h["DMS"] = "S" /\ h["CKPT"] = "U"
    [] n = "CkptU"       -> h["CKPT"] = "X"
    [] n = "RecovRangeW" -> h["DMS"] = "S" /\ h["WRITE"] = "X" /\ h["CKPT"] = "U" /\ h["RECOVER"] = "U"
    [] n = "RecovRangeU" -> h["RECOVER"] = "X" /\ h["CKPT"] = "X"
    [] n = "RecovW"      -> h["DMS"] = "S" /\ h["WRITE"] = "X" /\ h["CKPT"] = "X" /\ h["RECOVER"] = "U"
    [] n = "RecovU"      -> h["RECOVER"] = "X"
    [] n = "RestartW"    -> h["DMS"] = "S" /\ h["WRITE"] = "X" /\ \A k \in 1..4 : h[RD(k)] = "U"
    [] n = "RestartU"    -> \A k \in 1..4 : h[RD(k)] = "X"
    [] n = "ShmFlush"    -> ~(\A l \in ShmLocks : h[l] = "U")   \* (not \E: TLC would count one successor per witness)
    [] n = "WalWrite"    -> h["DMS"] = "S"
    [] r.t = "R" /\ Len(r.ls) = 1 /\ r.ls[1] \in Reads -> h["DMS"] = "S" /\ NoRead(h)
    [] r.t = "W" /\ Len(r.ls) = 1 /\ r.ls[1] \in Reads -> h["DMS"] = "S" /\ NoRead(h)
    [] r.t = "U" /\ Len(r.ls) = 1 /\ r.ls[1] \in Reads -> h[r.ls[1]] # "U"
    [] OTHER -> FALSE

(* ------------------------------------------------------------------ *)
(* internal writer: DB.TryAcquireWriteLock                              *)
(* ------------------------------------------------------------------ *)
St(op, l) == [op |-> op, l |-> l]
Prog0 == IF Mode = "rollback"
         THEN << St("R", "PENDING"), St("R", "SHARED"), St("U", "PENDING"),
                 St("W", "RESERVED"), St("W", "PENDING"), St("W", "SHARED") >>
         ELSE << St("R", "PENDING"), St("R", "SHARED"), St("U", "PENDING"), St("R", "DMS"),
                 St("W", "WRITE"), St("W", "CKPT"), St("W", "RECOVER"),
                 St("W", "READ0"), St("W", "READ1"), St("W", "READ2"), St("W", "READ3"), St("W", "READ4") >>
Keep(s) == ~(s.op = "W" /\ s.l = SkipLock)
Prog == SelectSeq(Prog0, Keep)

\* WriteSnapshotTo / Export; "READING" marks the section in which pages are read
SnapProg ==
  << St("R", "PENDING"), St("R", "SHARED"), St("U", "PENDING") >>
  \o (IF Mode = "wal" THEN << St("W", "WRITE"), St("U", "WRITE") >> ELSE << >>)
  \o << St("R", "CKPT"), St("R", "RECOVER"), St("R", "READ0"), St("R", "READ1"), St("R", "READ2"),
        St("R", "READ3"), St("R", "READ4"), St("U", "CKPT"), St("U", "RECOVER"), St("READING", "-") >>

FirstHeld(gg, w) ==
  LET idx == {i \in 1..12 : gg[w][RelOrder[i]] # "U"}
  IN IF idx = {} THEN 0 ELSE CHOOSE i \in idx : \A j \in idx : i <= j

\* outcome of a complete, uninterrupted attempt from lock table gg
RECURSIVE Run(_, _, _)
Run(gg, w, k) ==
  IF k > Len(Prog) THEN TRUE
  ELSE LET s == Prog[k] IN
    CASE s.op = "R" -> IF CanR(gg, w, s.l) THEN Run([gg EXCEPT ![w][s.l] = "S"], w, k + 1) ELSE FALSE
      [] s.op = "W" -> IF CanW(gg, w, s.l) THEN Run([gg EXCEPT ![w][s.l] = "X"], w, k + 1) ELSE FALSE
      [] s.op = "U" -> Run([gg EXCEPT ![w][s.l] = "U"], w, k + 1)

(* ------------------------------------------------------------------ *)
(* effects of the actions as pure operators (used by the actions and   *)
(* by the per-state emission of all outgoing edges)                    *)
(* ------------------------------------------------------------------ *)
AtGate(pc)          == \A w \in Internals : pc[w].gate
OthersAtGate(pc, w) == \A v \in Internals \ {w} : pc[v].gate

\* one client request: [g, ok]
ClientEff(gg, c, r) ==
  CASE r.t = "W" -> TryW(gg, c, r.ls)
    [] r.t = "R" -> TryR(gg, c, r.ls)
    [] r.t = "U" -> [g |-> Unl(gg, c, r.ls), ok |-> TRUE]
    [] r.t = "F" -> \* Flush of a handle: UnlockDatabase / UnlockSHM release the locks of that file (r.ls) only
                    [g |-> Unl(gg, c, IF FlushAll /\ r.n = "ShmFlush" THEN LockSeq ELSE r.ls), ok |-> TRUE]
    [] r.t = "A" -> \* writeWALHeader / writeWALFrameHeader / writeWALFrameData: db.writeLock.State() test
                    [g |-> gg, ok |-> (~WalGuard) \/ (IF WalOwnerTest THEN gg[c]["WRITE"] = "X" ELSE MS(gg, "WRITE") = "X")]
ClientEn(gg, pc, c, r) == (Gated => AtGate(pc)) /\ Allowed(gg[c], r)

\* one step of TryAcquireWriteLock
IStepEn(pc, w) == pc[w].st \in {"idle", "acq"} /\ (Gated => OthersAtGate(pc, w))
IStepEff(gg, pc, w) ==
  LET k   == IF pc[w].st = "idle" THEN 1 ELSE pc[w].k
      s   == Prog[k]
      ok  == CASE s.op = "R" -> CanR(gg, w, s.l) [] s.op = "W" -> CanW(gg, w, s.l) [] s.op = "U" -> TRUE
      ns  == CASE s.op = "R" -> "S" [] s.op = "W" -> "X" [] s.op = "U" -> "U"
      g1  == IF ok THEN [gg EXCEPT ![w][s.l] = ns] ELSE gg
      st1 == IF ok THEN (IF k = Len(Prog) THEN "held" ELSE "acq")
                   ELSE (IF FirstHeld(gg, w) = 0 THEN "idle" ELSE "rel")
      \* the real call can be paused (OnLockStateChange) only where the mutex state changes, or when it returns
      gt  == (MS(gg, s.l) # MS(g1, s.l)) \/ st1 \in {"idle", "held"}
  IN [g |-> g1, pc |-> [st |-> st1, k |-> IF ok /\ st1 = "acq" THEN k + 1 ELSE 0, gate |-> gt], ok |-> ok, op |-> s.op, l |-> s.l]

\* GuardSet.Unlock(): deferred after a failed attempt ("rel"), or called by the holder ("held")
IRelEn(gg, pc, w) == pc[w].st \in {"held", "rel"} /\ (Gated => OthersAtGate(pc, w)) /\ FirstHeld(gg, w) # 0
IRelEff(gg, pc, w) ==
  LET l   == RelOrder[FirstHeld(gg, w)]
      g1  == [gg EXCEPT ![w][l] = "U"]
      st1 == IF FirstHeld(g1, w) = 0 THEN "idle" ELSE "rel"
      gt  == (MS(gg, l) # MS(g1, l)) \/ st1 = "idle"
  IN [g |-> g1, pc |-> [st |-> st1, k |-> 0, gate |-> gt], ok |-> TRUE, op |-> "U", l |-> l]

IWriteEn(pc, w) == pc[w].st = "held" /\ (Gated => AtGate(pc))
TxWriteEn(pc)   == TxNoLock /\ (Gated => AtGate(pc))

\* snapshot / export sequence (blocking calls: enabled when the Try call succeeds)
SnapK(sp) == IF sp = 0 THEN 1 ELSE sp
SnapEn(gg, pc, sp) ==
  /\ WithSnapshot
  /\ Gated => AtGate(pc)
  /\ LET k == SnapK(sp) IN
     IF k <= Len(SnapProg)
     THEN LET s == SnapProg[k] IN
          CASE s.op = "R" -> CanR(gg, Snap, s.l) [] s.op = "W" -> CanW(gg, Snap, s.l) [] OTHER -> TRUE
     ELSE FirstHeld(gg, Snap) # 0
SnapEff(gg, sp) ==
  LET k == SnapK(sp) IN
  IF k <= Len(SnapProg)
  THEN LET s  == SnapProg[k]
           ns == CASE s.op = "R" -> "S" [] s.op = "W" -> "X" [] s.op = "U" -> "U" [] OTHER -> "-"
       IN [g |-> IF ns = "-" THEN gg ELSE [gg EXCEPT ![Snap][s.l] = ns], sp |-> k + 1, op |-> s.op, l |-> s.l]
  ELSE LET l  == RelOrder[FirstHeld(gg, Snap)]
           g1 == [gg EXCEPT ![Snap][l] = "U"]
       IN [g |-> g1, sp |-> IF FirstHeld(g1, Snap) = 0 THEN 0 ELSE sp, op |-> "REL", l |-> l]

\* the section in which WriteSnapshotTo / Export read pages: from the last lock step until SHARED is released
SnapReading == WithSnapshot /\ spc >= Len(SnapProg) /\ g[Snap]["SHARED"] = "S"

(* ------------------------------------------------------------------ *)
(* emission: one STATE line per distinct state with ALL its outgoing   *)
(* edges (the harness rebuilds paths by a search over this relation)   *)
(* ------------------------------------------------------------------ *)
RECURSIVE Cat(_)
Cat(s) == IF s = <<>> THEN "" ELSE Head(s) \o Cat(Tail(s))
GStr(gg, o)  == Cat([i \in 1..12 |-> gg[o][LockSeq[i]]])
CXStr(gg, o) == Cat([i \in 1..12 |-> IF CanW(gg, o, LockSeq[i]) THEN "1" ELSE "0"])
CSStr(gg, o) == Cat([i \in 1..12 |-> IF CanR(gg, o, LockSeq[i]) THEN "1" ELSE "0"])

OutRec(a, n, op, l, r, gs, st, k, gt) ==
  [a |-> a, n |-> n, op |-> op, l |-> l, r |-> r, g |-> gs, st |-> st, k |-> k, gt |-> gt]

Outs(gg, pc, sp) ==
  { LET e == ClientEff(gg, x[1], x[2]) IN OutRec(x[1], x[2].n, x[2].t, "-", e.ok, GStr(e.g, x[1]), "-", 0, TRUE)
      : x \in {y \in Clients \X Reqs : ClientEn(gg, pc, y[1], y[2])} }
  \cup { LET e == IStepEff(gg, pc, w) IN OutRec(w, "IStep", e.op, e.l, e.ok, GStr(e.g, w), e.pc.st, e.pc.k, e.pc.gate)
      : w \in {v \in Internals : IStepEn(pc, v)} }
  \cup { LET e == IRelEff(gg, pc, w) IN OutRec(w, "IRel", e.op, e.l, e.ok, GStr(e.g, w), e.pc.st, e.pc.k, e.pc.gate)
      : w \in {v \in Internals : IRelEn(gg, pc, v)} }
  \cup { OutRec(w, "IWrite", "-", "-", TRUE, GStr(gg, w), "held", 0, TRUE) : w \in {v \in Internals : IWriteEn(pc, v)} }
  \cup (IF TxWriteEn(pc) THEN {OutRec("tx", "TxWrite", "-", "-", TRUE, "-", "-", 0, TRUE)} ELSE {})
  \cup (IF SnapEn(gg, pc, sp) THEN LET e == SnapEff(gg, sp) IN {OutRec(Snap, "SnapStep", e.op, e.l, TRUE, GStr(e.g, Snap), "-", e.sp, TRUE)} ELSE {})

StateRec ==
  [ g     |-> [o \in Owners |-> GStr(g, o)],
    pc    |-> ipc,
    sp    |-> spc,
    m     |-> Cat([i \in 1..12 |-> MS(g, LockSeq[i])]),
    cx    |-> [c \in Clients |-> CXStr(g, c)],
    cs    |-> [c \in Clients |-> CSStr(g, c)],
    enter |-> [w \in Internals |-> IF ipc[w].st = "idle" THEN Run(g, w, 1) ELSE FALSE],
    outs  |-> Outs(g, ipc, spc) ]

EmitInv == EmitEdges => PrintT("STATE " \o ToJson(StateRec))

(* ------------------------------------------------------------------ *)
Init ==
  /\ g = [o \in Owners |-> [l \in Locks |-> "U"]]
  /\ lost = [c \in Clients |-> [l \in Locks |-> "U"]]
  /\ ipc = [w \in Internals |-> [st |-> "idle", k |-> 0, gate |-> TRUE]]
  /\ spc = 0
  /\ last = [op |-> "Init", o |-> "-", n |-> "-", l |-> "-", res |-> TRUE]

Out(op, o, n, l, res) == last' = [op |-> op, o |-> o, n |-> n, l |-> l, res |-> res]

\* ghost bookkeeping of a client request: a lock named by the request is the connection's business again
\* (it asked for it, released it, or closed its file); a lock NOT named by the request that disappears from
\* the lock table is still held by the connection
LostEff(gg, ll, c, r, g1) ==
  [ll EXCEPT ![c] = [l \in Locks |->
      IF l \in Range(r.ls) THEN "U"
      ELSE IF gg[c][l] # "U" /\ g1[c][l] = "U" THEN gg[c][l]
      ELSE ll[c][l]]]

Client(c, r) ==
  /\ ClientEn(g, ipc, c, r)
  /\ LET e == ClientEff(g, c, r) IN g' = e.g /\ lost' = LostEff(g, lost, c, r, e.g) /\ Out("Req", c, r.n, "-", e.ok)
  /\ UNCHANGED <<ipc, spc>>

\* closing the -shm descriptor (fuse SHMHandle.Flush -> DB.UnlockSHM): the request "ShmFlush" of the vocabulary
ShmFlushReq == CHOOSE r \in ShmReqs : r.n = "ShmFlush"
CloseSHM(c) == Client(c, ShmFlushReq)

IStep(w) ==
  /\ IStepEn(ipc, w)
  /\ LET e == IStepEff(g, ipc, w) IN
       /\ g' = e.g
       /\ ipc' = [ipc EXCEPT ![w] = e.pc]
       /\ Out("IStep", w, e.op, e.l, e.ok)
  /\ UNCHANGED <<spc, lost>>

IRel(w) ==
  /\ IRelEn(g, ipc, w)
  /\ LET e == IRelEff(g, ipc, w) IN
       /\ g' = e.g
       /\ ipc' = [ipc EXCEPT ![w] = e.pc]
       /\ Out("IRel", w, e.op, e.l, TRUE)
  /\ UNCHANGED <<spc, lost>>

\* a page write / truncate of the database file inside the section
IWrite(w) ==
  /\ IWriteEn(ipc, w)
  /\ UNCHANGED <<g, lost, ipc, spc>>
  /\ Out("IWrite", w, "-", "-", TRUE)

\* http/server.go handlePostTx as coded: WriteLTXFileAt + ApplyLTXNoLock with no lock taken (and no halt-lock test)
TxWrite ==
  /\ TxWriteEn(ipc)
  /\ UNCHANGED <<g, lost, ipc, spc>>
  /\ Out("TxWrite", "tx", "-", "-", TRUE)

SnapStep ==
  /\ SnapEn(g, ipc, spc)
  /\ LET e == SnapEff(g, spc) IN g' = e.g /\ spc' = e.sp /\ Out("SnapStep", Snap, e.op, e.l, TRUE)
  /\ UNCHANGED <<ipc, lost>>

Next == \/ \E c \in Clients : \E r \in Reqs : Client(c, r)
        \/ \E w \in Internals : IStep(w) \/ IRel(w) \/ IWrite(w)
        \/ TxWrite
        \/ SnapStep

Spec == Init /\ [][Next]_vars

(* printed once: the programs, so that the harness can compare the recorded lock transitions *)
ASSUME PrintT("PROG " \o ToJson([mode |-> Mode, prog |-> Prog, snap |-> SnapProg, rel |-> RelOrder,
                                 locks |-> LockSeq, conflict |-> Conflict,
                                 reqs |-> {[n |-> r.n, t |-> r.t, ls |-> r.ls] : r \in Reqs}]))

(* ============================ properties (C11) ============================ *)

TypeOK ==
  /\ g \in [Owners -> [Locks -> {"U", "S", "X"}]]
  /\ lost \in [Clients -> [Locks -> {"U", "S", "X"}]]
  /\ \A w \in Internals : ipc[w].st \in {"idle", "acq", "held", "rel"} /\ ipc[w].gate \in BOOLEAN

\* per lock: nobody, readers, or exactly one writer (RWMutex.tla OneOfThree, twelve times)
LockConsistent ==
  \A l \in Locks : \A o \in Owners : g[o][l] = "X" => \A p \in Owners \ {o} : g[p][l] = "U"

InSection(w) == ipc[w].st = "held"

\* "only while holding the same locks a SQLite writer and checkpointer would hold"
WriteSetHeld ==
  \A w \in Internals : InSection(w) =>
     /\ \A l \in WriteSet : g[w][l] = "X"
     /\ (Mode = "wal" => g[w]["SHARED"] = "S" /\ g[w]["DMS"] = "S")

\* what owner o HOLDS on lock l: for a connection, a lock it was granted and neither unlocked nor gave up by
\* closing that file - whether or not LiteFS's lock table still remembers it
Bel(o, l) == IF o \in Clients /\ lost[o][l] # "U" THEN lost[o][l] ELSE g[o][l]

\* LiteFS's lock table never forgets a lock a connection still holds (closing the -shm descriptor gives up the
\* SHM-file locks and none of the database-file locks; closing the database descriptor the converse)
NothingLost == \A c \in Clients : \A l \in Locks : lost[c][l] = "U"

\* "it never runs while any application connection holds a conflicting read or write lock"
\* (stated for every other owner: clients, other internal writers, the snapshot reader).  In WAL mode a
\* connection holding SHARED exclusively (SQLite's EXCLUSIVE lock: PRAGMA journal_mode=DELETE, exclusive locking
\* mode) reads and writes the database file without the WAL locks: it conflicts as well.
Exclusion ==
  \A w \in Internals : InSection(w) =>
     \A o \in Owners \ {w} :
        /\ \A l \in Conflict : Bel(o, l) = "U"
        /\ Mode = "wal" => Bel(o, "SHARED") # "X"

\* "no application can begin reading or writing until it finishes": every read- or write-lock
\* attempt on a conflicting lock would be refused
NoBegin ==
  \A w \in Internals : InSection(w) =>
     \A c \in Clients : \A l \in Conflict : ~CanR(g, c, l) /\ ~CanW(g, c, l)

\* ... and the requests actually issued are refused (action form, on the results)
RefusedWhileWriting ==
  [][ (\E w \in Internals : InSection(w)) /\ last'.op = "Req" =>
        \A r \in Reqs : (r.n = last'.n /\ r.t \in {"R", "W"} /\ Range(r.ls) \cap Conflict # {}) => ~last'.res
    ]_vars

\* the internal writer does not enter while a client holds a conflicting lock, and every page
\* write (IWrite, TxWrite) happens inside a section
EnterOnlyWhenFree ==
  [][ \A w \in Internals : (ipc'[w].st = "held" /\ ipc[w].st # "held") =>
        \A c \in Clients : /\ \A l \in Conflict : Bel(c, l) = "U" /\ g'[c][l] = "U"
                            /\ Mode = "wal" => Bel(c, "SHARED") # "X" ]_vars

SomeSectionOK(gg, pc) ==
  \E w \in Internals :
     /\ pc[w].st = "held"
     /\ \A l \in WriteSet : gg[w][l] = "X"
     /\ \A o \in Owners \ {w} : \A l \in Conflict : gg[o][l] = "U"

WritesInsideSection ==
  [][ last'.op \in {"IWrite", "TxWrite"} => SomeSectionOK(g, ipc) ]_vars

\* "a checkpoint lock is never granted to one connection while another connection holds the WAL
\* write lock" (grant = transition to exclusive)
CkptNeverGrantedUnderForeignWrite ==
  [][ \A o \in Owners : (g'[o]["CKPT"] = "X" /\ g[o]["CKPT"] # "X") =>
        \A p \in Owners \ {o} : g[p]["WRITE"] = "U" ]_vars

\* "WAL writes made without holding the write lock are refused" - as coded the test is on the
\* mutex (somebody holds WRITE exclusively) ...
WalWriteNeedsWriteLock ==
  [][ (last'.op = "Req" /\ last'.n = "WalWrite" /\ last'.res) => MS(g, "WRITE") = "X" ]_vars
\* ... the owner-specific reading (a lead, checked in its own cfg; see known findings)
WalWriteByHolder ==
  [][ (last'.op = "Req" /\ last'.n = "WalWrite" /\ last'.res) => g[last'.o]["WRITE"] = "X" ]_vars

\* snapshot reader and internal writer exclude each other
SnapshotExcluded == SnapReading => \A w \in Internals : ~InSection(w)

\* single-lock requests are decided by the POSIX rule alone (plus the gate for CKPT)
SingleLockPosix ==
  [][ last'.op = "Req" =>
        \A r \in Reqs : (r.n = last'.n /\ Len(r.ls) = 1 /\ r.t \in {"R", "W"}) =>
           LET l == r.ls[1]  c == last'.o IN
           last'.res = ( /\ (r.t = "W" => CanW(g, c, l))
                         /\ (r.t = "R" => CanR(g, c, l))
                         /\ ~(r.t = "W" /\ l = "CKPT" /\ CkptGate /\ MS(g, "WRITE") # "U" /\ g[c]["WRITE"] # "X") )
    ]_vars
====
