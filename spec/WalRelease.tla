---- MODULE WalRelease ----
(***************************************************************************)
(* Release of WAL_WRITE_LOCK and capture of the just-committed WAL          *)
(* transaction (db.go: DB.Unlock / DB.UnlockSHM -> DB.CommitWAL), for two   *)
(* SQLite connections writing ONE WAL-mode database (properties C03, C11).  *)
(*                                                                         *)
(*  Begin(c)    fcntl(F_SETLK, WAL_WRITE_LOCK) through SHMHandle.Lock ->    *)
(*              DB.TryLocks: granted iff nobody holds WRITE, else EAGAIN.   *)
(*  AppendTx(c) the holder appends one transaction (frames + commit frame)  *)
(*              of a non-empty page set behind the last one in the log.     *)
(*  Release(c)  fcntl(F_UNLCK) through SHMHandle.Unlock -> DB.Unlock.       *)
(*  Capture     DB.CommitWAL has NO mutual exclusion of its own; its steps  *)
(*              are the ones between which the code touches shared state:   *)
(*                CapBegin  prevPos := db.Pos()                             *)
(*                CapRead   buildTxFrameOffsets: the FIRST committed        *)
(*                          transaction behind db.wal.offset (none: return) *)
(*                CapWrite  <txid>.ltx.tmp written and renamed over         *)
(*                          <prevPos.TXID+1>.ltx, db.wal.offset := end of   *)
(*                          that transaction, position := prevPos.TXID+1    *)
(*                                                                         *)
(* CaptureUnderLock = TRUE  (what the code does): DB.Unlock runs CommitWAL  *)
(*   BEFORE it unlocks the guards, i.e. Release(c) is one atomic step       *)
(*   "capture; unlock" as far as other connections can tell: they are       *)
(*   refused WRITE until the capture is complete.                          *)
(* CaptureUnderLock = FALSE (as seeded, C03-4): the guards are unlocked     *)
(*   first and the capture runs afterwards, step by step, interleaved with  *)
(*   anything the other connection does.  TLC finds PosCountsReleases and   *)
(*   ChainExact violated (MC_WalRelease_asseeded.cfg; documented            *)
(*   counterexample, not run by the checks as a verdict).                   *)
(*                                                                         *)
(* A transaction is identified by its index in the log; a database image    *)
(* "checksum" is the set of transactions applied to it (so that a stale     *)
(* pre-apply checksum is visible as a broken chain).                        *)
(*                                                                         *)
(* Binding (harness/twowriters): the distinguishing step - the other        *)
(* connection's Begin while a release is capturing - is executed on the     *)
(* real code at every labelled file operation of the real CommitWAL (OS     *)
(* hook, from inside the unlock handler); the invariants below are          *)
(* evaluated as monitors on the real position, LTX directory and WAL; the   *)
(* FINAL lines (quiescent states with MaxTx transactions) are the outcomes  *)
(* the real run is compared with (conformance).                            *)
(***************************************************************************)
EXTENDS Integers, Sequences, FiniteSets, TLC, Json

CONSTANTS
  Conns,             \* connection names, e.g. {"A", "B"}
  Pages,             \* page numbers a transaction may touch
  MaxTx,             \* bound: transactions appended in a behaviour
  CaptureUnderLock,  \* TRUE = as coded; FALSE = as seeded (guards unlocked before CommitWAL)
  Emit               \* TRUE: print one FINAL line per distinct quiescent state with MaxTx transactions

None == "none"
PageSets == (SUBSET Pages) \ {{}}

VARIABLES
  wr,     \* holder of WAL_WRITE_LOCK, or None
  app,    \* app[c]: c appended a transaction during its current hold
  log,    \* committed transactions in the WAL, in order: [c |-> writer, pg |-> page set]
  woff,   \* db.wal.offset: number of transactions of the log captured so far
  pos,    \* position: [t |-> TXID, k |-> "checksum" = set of transactions applied]
  ltx,    \* LTX directory: TXID -> [tx |-> log index, pg |-> pages, pre |-> checksum before, post |-> checksum after]
  cap,    \* cap[c]: capture in flight on behalf of c's release: [pc, prev, tx]
  last    \* observable result of the last action (hidden by VIEW)

vars == <<wr, app, log, woff, pos, ltx, cap, last>>
view == <<wr, app, log, woff, pos, ltx, cap>>

Idle == [pc |-> "none", prev |-> [t |-> 0, k |-> {}], tx |-> 0]
Out(a, c, ok) == last' = [a |-> a, c |-> c, ok |-> ok]

Init ==
  /\ wr = None
  /\ app = [c \in Conns |-> FALSE]
  /\ log = <<>>
  /\ woff = 0
  /\ pos = [t |-> 0, k |-> {}]
  /\ ltx = <<>>
  /\ cap = [c \in Conns |-> Idle]
  /\ last = [a |-> "Init", c |-> None, ok |-> TRUE]

\* a connection is sequential: it issues nothing while its own unlock call has not returned
Returned(c) == cap[c].pc = "none"

Begin(c) ==
  /\ Returned(c) /\ wr # c
  /\ IF wr = None THEN wr' = c /\ Out("Begin", c, TRUE)
                  ELSE wr' = wr /\ Out("Begin", c, FALSE)     \* EAGAIN
  /\ UNCHANGED <<app, log, woff, pos, ltx, cap>>

AppendTx(c, pg) ==
  /\ wr = c /\ ~app[c] /\ Len(log) < MaxTx
  /\ log' = Append(log, [c |-> c, pg |-> pg])
  /\ app' = [app EXCEPT ![c] = TRUE]
  /\ Out("Append", c, TRUE)
  /\ UNCHANGED <<wr, woff, pos, ltx, cap>>

\* the LTX file CommitWAL writes for transaction i of the log on top of position p
File(i, p) == [tx |-> i, pg |-> log[i].pg, pre |-> p.k, post |-> p.k \cup {i}]
Put(dir, t, f) == [j \in 1..(IF t > Len(dir) THEN t ELSE Len(dir)) |-> IF j = t THEN f ELSE dir[j]]

\* the whole of CommitWAL in one step (nothing else can run: the caller holds WRITE)
CaptureEff ==
  IF woff < Len(log)
  THEN /\ ltx' = Put(ltx, pos.t + 1, File(woff + 1, pos))
       /\ pos' = [t |-> pos.t + 1, k |-> pos.k \cup {woff + 1}]
       /\ woff' = woff + 1
  ELSE UNCHANGED <<ltx, pos, woff>>

Release(c) ==
  /\ wr = c
  /\ wr' = None
  /\ app' = [app EXCEPT ![c] = FALSE]
  /\ IF CaptureUnderLock
     THEN CaptureEff /\ UNCHANGED cap
     ELSE cap' = [cap EXCEPT ![c] = [Idle EXCEPT !.pc = "begin"]] /\ UNCHANGED <<ltx, pos, woff>>
  /\ Out("Release", c, TRUE)
  /\ UNCHANGED log

CapBegin(c) ==
  /\ cap[c].pc = "begin"
  /\ cap' = [cap EXCEPT ![c] = [pc |-> "read", prev |-> pos, tx |-> 0]]
  /\ Out("CapBegin", c, TRUE)
  /\ UNCHANGED <<wr, app, log, woff, pos, ltx>>

CapRead(c) ==
  /\ cap[c].pc = "read"
  /\ IF woff < Len(log)
     THEN cap' = [cap EXCEPT ![c].pc = "write", ![c].tx = woff + 1]
     ELSE cap' = [cap EXCEPT ![c] = Idle]                       \* errNoTransaction
  /\ Out("CapRead", c, woff < Len(log))
  /\ UNCHANGED <<wr, app, log, woff, pos, ltx>>

CapWrite(c) ==
  /\ cap[c].pc = "write"
  /\ LET p == cap[c].prev  i == cap[c].tx IN
       /\ ltx' = Put(ltx, p.t + 1, File(i, p))                  \* rename over whatever is there
       /\ pos' = [t |-> p.t + 1, k |-> p.k \cup {i}]
       /\ woff' = i
  /\ cap' = [cap EXCEPT ![c] = Idle]
  /\ Out("CapWrite", c, TRUE)
  /\ UNCHANGED <<wr, app, log>>

Quiescent == \A c \in Conns : cap[c].pc = "none"
\* transactions whose writer has released WRITE
Released == Len(log) - (IF wr # None /\ app[wr] THEN 1 ELSE 0)

Final == Quiescent /\ wr = None /\ Len(log) = MaxTx
FinalRec == [order |-> [i \in 1..Len(log) |-> log[i].c], txid |-> pos.t,
             files |-> [j \in 1..Len(ltx) |-> ltx[j].tx]]

Step == \/ \E c \in Conns : Begin(c) \/ Release(c) \/ CapBegin(c) \/ CapRead(c) \/ CapWrite(c)
        \/ \E c \in Conns : \E pg \in PageSets : AppendTx(c, pg)
Next == Step
Spec == Init /\ [][Next]_vars

EmitInv == (Emit /\ Final) => PrintT("FINAL " \o ToJson(FinalRec))

(* ============================ properties ============================ *)
TypeOK ==
  /\ wr \in Conns \cup {None}
  /\ woff \in 0..MaxTx /\ pos.t \in 0..MaxTx
  /\ \A c \in Conns : cap[c].pc \in {"none", "begin", "read", "write"}

\* C03: "each time a connection releases the WAL write lock the position advances by one if and only if
\* a complete committed transaction was appended since the last capture"
PosCountsReleases == Quiescent => pos.t = Released /\ woff = Released

\* C03/C09: the LTX directory is one chain that contains every released transaction exactly once, in log
\* order, each file linked to its predecessor by checksum, and it ends at the position
ChainExact ==
  Quiescent =>
    /\ Len(ltx) = pos.t
    /\ \A j \in 1..Len(ltx) : /\ ltx[j].tx = j /\ ltx[j].pg = log[j].pg
                              /\ ltx[j].pre = (IF j = 1 THEN {} ELSE ltx[j - 1].post)
    /\ (Len(ltx) > 0 => ltx[Len(ltx)].post = pos.k)

\* a transaction file, once in the directory, is never replaced
NoRewrite == [][ \A j \in 1..Len(ltx) : j <= Len(ltx') /\ ltx'[j] = ltx[j] ]_vars

\* the position never moves by more than one and never backwards
PosMonotone == [][ pos'.t \in {pos.t, pos.t + 1} ]_vars

\* what makes the above true in the code: nobody is granted WRITE while a capture is in flight
NoGrantDuringCapture == [][ (last'.a = "Begin" /\ last'.ok) => Quiescent ]_vars
====
