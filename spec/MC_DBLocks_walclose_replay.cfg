\* DBLocks.tla: same as walclose, gated, emits states + edges for replay
SPECIFICATION Spec
CONSTANTS
  Clients = {"a", "b"}
  Internals = {"i"}
  Mode = "wal"
  ReadMarks = {}
  DbOpsInWal = TRUE
  WithSnapshot = FALSE
  CkptGate = TRUE
  SkipLock = "none"
  TxNoLock = FALSE
  WalGuard = TRUE
  WalOwnerTest = FALSE
  FlushAll = FALSE
  Exclude = {"DmsW", "CkptW", "CkptU", "RecovRangeW", "RecovRangeU", "RecovW", "RecovU", "RestartW", "RestartU", "WalWrite"}
  Gated = TRUE
  EmitEdges = TRUE
VIEW view
INVARIANTS TypeOK NothingLost LockConsistent WriteSetHeld Exclusion NoBegin SnapshotExcluded EmitInv
PROPERTIES RefusedWhileWriting EnterOnlyWhenFree WritesInsideSection CkptNeverGrantedUnderForeignWrite WalWriteNeedsWriteLock SingleLockPosix
CHECK_DEADLOCK FALSE
