\* DBLocks.tla: thorough: WAL mode with the WriteSnapshotTo/Export lock sequence
SPECIFICATION Spec
CONSTANTS
  Clients = {"a", "b"}
  Internals = {"i"}
  Mode = "wal"
  ReadMarks = {2}
  DbOpsInWal = FALSE
  WithSnapshot = TRUE
  CkptGate = TRUE
  SkipLock = "none"
  TxNoLock = FALSE
  WalGuard = TRUE
  WalOwnerTest = FALSE
  FlushAll = FALSE
  Exclude = {"DmsW", "RecovW", "RecovU"}
  Gated = FALSE
  EmitEdges = FALSE
VIEW view
INVARIANTS TypeOK NothingLost LockConsistent WriteSetHeld Exclusion NoBegin SnapshotExcluded EmitInv
PROPERTIES RefusedWhileWriting EnterOnlyWhenFree WritesInsideSection CkptNeverGrantedUnderForeignWrite WalWriteNeedsWriteLock SingleLockPosix
CHECK_DEADLOCK FALSE
