---- MODULE API ----
(***************************************************************************)
(* The HTTP API of one LiteFS node (http/server.go) as a decision table    *)
(* over request classes plus the abstract effect of the valid requests     *)
(* (property C20).                                                         *)
(*                                                                         *)
(* The table is the ORACLE, stated independently of the handlers: for      *)
(* every request class it gives the first reason (`why`) for which the     *)
(* request is not acceptable, the resulting classification                 *)
(*     valid | malformed | role (not allowed for the node's current role)  *)
(*           | prereq (needs a database / node / primary that is absent)   *)
(* and, for valid requests, the effect on the abstract node state          *)
(* (database created, position + 1, halt lock set / cleared, role change). *)
(* Sequences with up to MaxReq state-changing requests are explored so     *)
(* that a request sees the effect of its predecessor(s).  TLC explores the table exhaustively,    *)
(* checks that no non-valid request changes the abstract state and prints  *)
(* one EDGE line per (state, request) for replay against a real server.    *)
(*                                                                         *)
(* Request classes (one record per request):                               *)
(*   ep    stream tx halt handoff promote import export info events other  *)
(*   m     GET POST DELETE PUT                                             *)
(*   pc    class of the endpoint's main parameter                          *)
(*           name   (tx halt import export): missing | empty |             *)
(*                  unknown = "nosuch" | malformed = "../../escaped" |     *)
(*                  valid = "db"                                           *)
(*           nodeID (handoff): missing | empty | unknown (well-formed, not *)
(*                  connected) | malformed | valid (a connected replica)   *)
(*           filter (stream): missing | unknown | valid                    *)
(*   id    halt lock id (halt only): missing | empty | malformed | zero |  *)
(*           a | b          (two distinct well-formed ids);  "na" elsewhere*)
(*   hdr   Litefs-Id header: absent | own | foreign                        *)
(*   proto h1 | h2c                                                        *)
(*   body  empty | truncated | garbage | valid | oversized (a length       *)
(*           prefix / page count far beyond the bytes that follow)         *)
(* Node state: role (primary | replica = knows a primary | noprimary), per *)
(* database name existence, position offset and halt lock holder.          *)
(*                                                                         *)
(* Deviations of the real handlers from this table that were reproduced on *)
(* the real code are modelled by the constant Mut (relevance              *)
(* configurations): with the guard removed TLC must report                 *)
(* InvalidChangesNothing.                                                  *)
(***************************************************************************)
EXTENDS Integers, Sequences, FiniteSets, TLC, Json

CONSTANTS EmitEdges,   \* TRUE: print one EDGE line per explored transition
          MaxReq,      \* requests are served while fewer than MaxReq of them had an effect
          Mut,         \* "none" or the name of a removed guard (relevance configurations)
          Reqs         \* "all": every request class; "plain": the well-formed-looking classes only (one header,
                       \* one protocol, known names, ids a/b, valid or garbage bodies) so that longer sequences fit

None == "none"
Names   == {"db", "nosuch"}
Roles   == {"primary", "replica", "noprimary"}
Methods == {"GET", "POST", "DELETE", "PUT"}
PCs     == {"missing", "empty", "unknown", "malformed", "valid"}
Ids     == {"missing", "empty", "malformed", "zero", "a", "b"}
\* "ownalt": the node's own ID in another spelling of the same hexadecimal number (lower case, extra leading zero)
Hdrs    == {"absent", "own", "ownalt", "foreign"}
Protos  == {"h1", "h2c"}
Bodies  == {"empty", "truncated", "garbage", "valid", "oversized"}
\* /tx additionally gets a full snapshot file (first transaction ID 1) with an intact header and one
\* damaged page: the handler learns that the file is bad only after it has started to store it
TxBodies == Bodies \cup {"snapdamaged"}
Small   == {"empty", "garbage"}     \* body classes sent to endpoints that take no body

VARIABLES node,   \* which node of the test cluster is addressed: its initial role (constant in a behaviour)
          role,   \* current role of the node under test
          dbs,    \* [Names -> [ex, pos, halt]]
          n,      \* requests so far that changed the state (requests without effect are self-loops)
          last,   \* last request with its classification (output only)
          hist    \* requests from the initial state (history, hidden by VIEW)

vars == <<node, role, dbs, n, last, hist>>
view == <<node, role, dbs, n>>

R(ep, m, pc, id, hdr, proto, body) ==
  [ep |-> ep, m |-> m, pc |-> pc, id |-> id, hdr |-> hdr, proto |-> proto, body |-> body]

Allowed(ep) == CASE ep = "halt" -> {"POST", "DELETE"}
                 [] ep \in {"export", "info", "events"} -> {"GET"}
                 [] ep = "other" -> {}
                 [] OTHER -> {"POST"}

Endpoints == {"stream", "tx", "halt", "handoff", "promote", "import", "export", "info", "events"}

(* ---- the enumerated request classes ---- *)
AllRequests ==
       {R("stream", "POST", pc, "na", h, p, b) : pc \in {"missing", "unknown", "valid"}, h \in Hdrs, p \in Protos, b \in Bodies}
  \cup {R("tx", "POST", pc, "na", h, p, b) : pc \in PCs, h \in Hdrs, p \in Protos, b \in TxBodies}
  \cup {R("halt", m, pc, id, h, p, "empty") : m \in {"POST", "DELETE"}, pc \in PCs, id \in Ids, h \in Hdrs, p \in Protos}
  \cup {R("halt", m, pc, "a", "foreign", p, "garbage") : m \in {"POST", "DELETE"}, pc \in PCs, p \in Protos}
  \cup {R("handoff", "POST", pc, "na", h, p, b) : pc \in PCs, h \in Hdrs, p \in Protos, b \in Small}
  \cup {R("promote", "POST", "missing", "na", h, p, b) : h \in Hdrs, p \in Protos, b \in Small}
  \cup {R("import", "POST", pc, "na", h, p, b) : pc \in PCs, h \in Hdrs, p \in Protos, b \in Bodies}
  \cup {R("export", "GET", pc, "na", h, p, b) : pc \in PCs, h \in Hdrs, p \in Protos, b \in Small}
  \cup {R(ep, "GET", "missing", "na", h, p, b) : ep \in {"info", "events"}, h \in Hdrs, p \in Protos, b \in Small}
  \cup {R("other", m, "missing", "na", "absent", p, b) : m \in Methods, p \in Protos, b \in Small}
       \* methods the endpoint does not serve, with otherwise acceptable parameters
  \cup {R(ep, m, "valid", IF ep = "halt" THEN "a" ELSE "na", "foreign", p, b) :
           ep \in Endpoints, m \in Methods, p \in Protos, b \in Small}

Plain(r) == /\ r.hdr = "foreign" /\ r.proto = "h2c"
            /\ r.pc = "valid"
            /\ r.id \in {"na", "a", "b"}
            /\ r.body \in {"valid", "garbage", "empty"}
            /\ r.m \in Allowed(r.ep)
Requests == IF Reqs = "plain" THEN {r \in AllRequests : Plain(r)} ELSE AllRequests

(* ---- the decision table ---- *)
NameParam(ep) == ep \in {"tx", "halt", "import", "export"}
NameOf(r)     == IF r.pc = "valid" THEN "db" ELSE "nosuch"
Exists(r)     == r.pc \in {"valid", "unknown"} /\ dbs[NameOf(r)].ex
NeedsDB(r)    == r.ep \in {"tx", "export"} \/ (r.ep = "halt" /\ r.m = "DELETE")
BodyBad(r)    == \/ r.ep \in {"tx", "import"} /\ r.body # "valid"
                 \/ r.ep = "stream" /\ r.body \in {"empty", "truncated", "oversized"}
\* DELETE /halt is served by every role: a node that granted a halt lock while it was primary lets the holder
\* give it back after a demotion as well (the alternative is waiting for the lock to expire)
PrimaryOnly(r) == r.ep \in {"stream", "tx", "handoff", "import"} \/ (r.ep = "halt" /\ r.m = "POST")

\* first applicable reason, in a fixed order; "ok" = acceptable
Why(r) ==
  IF r.ep = "other" THEN "path-unknown"
  ELSE IF r.m \notin Allowed(r.ep) THEN "method-not-allowed"
  ELSE IF r.ep = "stream" /\ r.proto = "h1" THEN "http2-required"
  ELSE IF r.ep \in {"stream", "tx", "halt"} /\ r.hdr \in {"own", "ownalt"} THEN "self-id"
  ELSE IF r.ep = "halt" /\ r.id \in {"missing", "empty", "malformed"} THEN "id-" \o r.id
  ELSE IF NameParam(r.ep) /\ r.pc \in {"missing", "empty"} THEN "name-" \o r.pc
  ELSE IF NameParam(r.ep) /\ r.pc = "malformed" THEN "name-traversal"
  ELSE IF r.ep = "handoff" /\ r.pc \in {"missing", "empty", "malformed"} THEN "nodeid-" \o r.pc
  ELSE IF NeedsDB(r) /\ ~Exists(r) THEN "db-not-found"
  ELSE IF r.ep = "halt" /\ r.id = "zero" THEN "id-zero"
  ELSE IF BodyBad(r) THEN "body-" \o r.body
  ELSE IF PrimaryOnly(r) /\ role # "primary" THEN "not-primary"
  ELSE IF r.ep = "handoff" /\ r.pc = "unknown" THEN "node-not-connected"
  ELSE IF r.ep = "promote" /\ role = "noprimary" THEN "no-primary-known"
  \* a forwarded transaction needs the halt lock it names to be granted (holder check, repaired);
  \* every /tx request of this table names lock id "a"
  ELSE IF r.ep = "tx" /\ dbs[NameOf(r)].halt # "a" THEN "halt-lock-not-held"
  ELSE "ok"

ClassOf(w) == CASE w = "ok" -> "valid"
                [] w \in {"db-not-found", "node-not-connected", "no-primary-known", "halt-lock-not-held"} -> "prereq"
                [] w = "not-primary" -> "role"
                [] OTHER -> "malformed"

\* a request that has to take the database's write or read locks waits while a halt lock is held
\* (it is answered only when the lock goes away): /export, and /import once it got past its checks
MayBlock(r, w) ==
  \/ r.ep = "export" /\ w = "ok" /\ dbs[NameOf(r)].halt # None
  \/ r.ep = "import" /\ r.m = "POST" /\ r.pc \in {"valid", "unknown"} /\ role = "primary" /\ dbs[NameOf(r)].halt # None

(* ---- abstract effect of a valid request ---- *)
Effect(r) ==
  LET nm == NameOf(r) IN
  CASE r.ep = "import" ->
         IF dbs[nm].halt # None THEN UNCHANGED <<role, dbs>>
         ELSE /\ dbs' = [dbs EXCEPT ![nm] = [@ EXCEPT !.ex = TRUE, !.pos = @ + 1]]
              /\ UNCHANGED role
    [] r.ep = "tx" ->
         /\ dbs' = [dbs EXCEPT ![nm] = [@ EXCEPT !.pos = @ + 1]]
         /\ UNCHANGED role
    [] r.ep = "halt" /\ r.m = "POST" ->
         IF dbs[nm].halt = None
         THEN /\ dbs' = [dbs EXCEPT ![nm] = [@ EXCEPT !.ex = TRUE, !.halt = r.id]]   \* creates the database if need be
              /\ UNCHANGED role
         ELSE UNCHANGED <<role, dbs>>        \* same id: idempotent; other id: refused after the acquire time-out
    [] r.ep = "halt" /\ r.m = "DELETE" ->
         IF dbs[nm].halt = r.id
         THEN /\ dbs' = [dbs EXCEPT ![nm] = [@ EXCEPT !.halt = None]]
              \* a demoted primary that was waiting for this lock finishes its recovery and follows the new primary
              /\ role' = IF role = "noprimary" /\ \A x \in Names \ {nm} : dbs[x].halt = None THEN "replica" ELSE role
         ELSE UNCHANGED <<role, dbs>>
    [] r.ep = "handoff" ->
         \* the old primary recovers every database on its way to becoming a replica; that recovery waits for
         \* a halt lock, so until the lock is released or expires the node knows no primary
         /\ role' = IF \E x \in Names : dbs[x].halt # None THEN "noprimary" ELSE "replica"
         /\ UNCHANGED dbs
    [] r.ep = "promote" -> role' = "primary" /\ UNCHANGED dbs      \* no-op on a primary
    [] OTHER -> UNCHANGED <<role, dbs>>                             \* stream export info events

(* ---- deviations of the real handlers (relevance configurations, see known_findings.d/C20.jsonl) ---- *)
Leaks(r, w) ==
  \/ Mut = "import-creates-before-validating" /\ r.ep = "import" /\ w \in {"body-empty", "body-truncated", "body-garbage", "body-oversized"}
       /\ role = "primary" /\ dbs[NameOf(r)].halt = None
  \/ Mut = "halt-without-role-check" /\ r.ep = "halt" /\ r.m = "POST" /\ w = "not-primary"
  \/ Mut = "tx-without-role-check" /\ r.ep = "tx" /\ w = "not-primary"

LeakEffect(r) ==
  LET nm == NameOf(r) IN
  CASE r.ep = "import" -> dbs' = [dbs EXCEPT ![nm] = [@ EXCEPT !.ex = TRUE]] /\ UNCHANGED role
    [] OTHER -> Effect(r)

Do(r) ==
  LET w == Why(r)
      c == ClassOf(w)
  IN /\ n < MaxReq
     /\ IF c = "valid" THEN Effect(r)
        ELSE IF Leaks(r, w) THEN LeakEffect(r)
        ELSE UNCHANGED <<role, dbs>>
     /\ n' = IF <<role, dbs>>' = <<role, dbs>> THEN n ELSE n + 1
     /\ UNCHANGED node
     /\ last' = [req |-> r, class |-> c, why |-> w, blocks |-> MayBlock(r, w)]
     /\ hist' = Append(hist, r)

Proj == [node |-> node, role |-> role, dbs |-> dbs]

NoReq == R("none", "GET", "missing", "na", "absent", "h1", "empty")

Init == /\ node \in Roles
        /\ role = node
        /\ dbs = [nm \in Names |-> [ex |-> (nm = "db"), pos |-> 0, halt |-> None]]
        /\ n = 0
        /\ last = [req |-> NoReq, class |-> "valid", why |-> "init", blocks |-> FALSE]
        /\ hist = <<>>

Next == \E r \in Requests :
          /\ Do(r)
          /\ (EmitEdges => PrintT("EDGE " \o ToJson([path |-> hist, req |-> r, class |-> last'.class, why |-> last'.why,
                                                      blocks |-> last'.blocks, pre |-> Proj, post |-> Proj'])))

Spec == Init /\ [][Next]_vars

(* ------------------------------ properties (C20) ------------------------------ *)
TypeOK == /\ role \in Roles /\ node \in Roles
          /\ n \in 0..MaxReq
          /\ \A nm \in Names : /\ dbs[nm].ex \in BOOLEAN
                               /\ dbs[nm].pos \in 0..MaxReq
                               /\ dbs[nm].halt \in {None, "a", "b"}

\* a halt lock or a position belongs to an existing database
StateSane == \A nm \in Names : (dbs[nm].halt # None \/ dbs[nm].pos > 0) => dbs[nm].ex

\* requests that are malformed, not allowed for the role, or lack a prerequisite change nothing
InvalidChangesNothing ==
  [][ last'.class # "valid" => UNCHANGED <<role, dbs>> ]_vars

\* the reading endpoints and unknown paths never change anything
ReadOnlyChangesNothing ==
  [][ last'.req.ep \in {"stream", "export", "info", "events", "other"} => UNCHANGED <<role, dbs>> ]_vars

\* only a primary's state can be changed through the API, except for the promotion of a replica and for the
\* holder giving back a halt lock that the node granted while it was primary (nothing but the lock goes away)
OnlyPrimaryChanges ==
  [][ (role # "primary" /\ <<role, dbs>>' # <<role, dbs>>) =>
        \/ (last'.req.ep = "promote" /\ role = "replica" /\ UNCHANGED dbs)
        \/ (last'.req.ep = "halt" /\ last'.req.m = "DELETE"
              /\ \A nm \in Names : dbs'[nm].ex = dbs[nm].ex /\ dbs'[nm].pos = dbs[nm].pos /\ dbs'[nm].halt \in {dbs[nm].halt, None}) ]_vars
====
