#!/bin/sh
# Offline setup: warm the Go build cache for every check and parse every TLA+ module.
set -e
ROOT="${VERIF_ROOT:-/verif}"
export GOFLAGS=-mod=mod GOPROXY=off GOSUMDB=off GOTOOLCHAIN=local CGO_ENABLED=1
cd "$ROOT/harness"
cp /repo/go.sum go.sum 2>/dev/null || true
go build -tags verif ./... 
mkdir -p "$ROOT/evidence" "$ROOT/replays"
# stand-in for fusermount3 (not installed here): lets the real-SQLite stages mount LiteFS through /dev/fuse.
# Without it (or without /dev/fuse) those stages skip themselves and say so in the evidence.
cc -O2 -o "$ROOT/bin/fusermount3" "$ROOT/tools/fusermount3.c" 2>/dev/null || echo "note: fusermount3 stand-in not built; real-SQLite stages will be skipped"
S=$(mktemp -d /dev/shm/verif-setup-XXXXXX 2>/dev/null || mktemp -d /var/tmp/verif-setup-XXXXXX)
trap 'rm -rf "$S"' EXIT
cp "$ROOT"/spec/*.tla "$S"/
cd "$S"
for f in *.tla; do
  timeout 120 java -cp /opt/veriftools/tla/tla2tools.jar:/opt/veriftools/tla/CommunityModules-deps.jar tla2sany.SANY "$f" >"$S/sany.out" 2>&1 || { cat "$S/sany.out"; echo "SANY failed on $f" >&2; exit 1; }
  if grep -q -E "^(\*\*\* Errors|Fatal errors|Semantic errors)" "$S/sany.out"; then cat "$S/sany.out"; echo "SANY errors in $f" >&2; exit 1; fi
done
echo "setup ok"
