/* Minimal stand-in for fusermount3, enough for bazil.org/fuse in a root sandbox with CAP_SYS_ADMIN:
 *   fusermount3 [-o opts] [--] <mountpoint>   open /dev/fuse, mount(2), pass the fd over $_FUSE_COMMFD
 *   fusermount3 -u [-z] <mountpoint>          umount2(MNT_DETACH)
 * Built by setup.sh into /verif/bin (optional kernel-mount tier T3). */
#define _GNU_SOURCE
#include <errno.h>
#include <fcntl.h>
#include <stdio.h>
#include <stdlib.h>
#include <string.h>
#include <sys/mount.h>
#include <sys/socket.h>
#include <sys/stat.h>
#include <unistd.h>

static int send_fd(int sock, int fd) {
  struct msghdr msg; struct iovec iov; char buf[1] = {0};
  char cbuf[CMSG_SPACE(sizeof(int))];
  memset(&msg, 0, sizeof(msg)); memset(cbuf, 0, sizeof(cbuf));
  iov.iov_base = buf; iov.iov_len = 1;
  msg.msg_iov = &iov; msg.msg_iovlen = 1;
  msg.msg_control = cbuf; msg.msg_controllen = sizeof(cbuf);
  struct cmsghdr *c = CMSG_FIRSTHDR(&msg);
  c->cmsg_level = SOL_SOCKET; c->cmsg_type = SCM_RIGHTS; c->cmsg_len = CMSG_LEN(sizeof(int));
  memcpy(CMSG_DATA(c), &fd, sizeof(int));
  return sendmsg(sock, &msg, 0) < 0 ? -1 : 0;
}

int main(int argc, char **argv) {
  int unmount = 0; const char *mnt = NULL; const char *opts = "";
  for (int i = 1; i < argc; i++) {
    if (!strcmp(argv[i], "-u")) unmount = 1;
    else if (!strcmp(argv[i], "-z") || !strcmp(argv[i], "-q") || !strcmp(argv[i], "--")) continue;
    else if (!strcmp(argv[i], "-o") && i + 1 < argc) opts = argv[++i];
    else mnt = argv[i];
  }
  if (!mnt) { fprintf(stderr, "fusermount3 shim: no mountpoint\n"); return 1; }
  if (unmount) {
    if (umount2(mnt, MNT_DETACH) < 0) { perror("umount2"); return 1; }
    return 0;
  }
  const char *commfd = getenv("_FUSE_COMMFD");
  if (!commfd) { fprintf(stderr, "fusermount3 shim: _FUSE_COMMFD not set\n"); return 1; }
  int fd = open("/dev/fuse", O_RDWR);
  if (fd < 0) { perror("open /dev/fuse"); return 1; }
  struct stat st;
  if (stat(mnt, &st) < 0) { perror("stat mountpoint"); return 1; }
  char data[512];
  snprintf(data, sizeof(data), "fd=%d,rootmode=%o,user_id=%d,group_id=%d%s", fd, st.st_mode & S_IFMT, getuid(), getgid(),
           strstr(opts, "allow_other") ? ",allow_other" : "");
  const char *fsname = "litefs";
  if (mount(fsname, mnt, "fuse", MS_NOSUID | MS_NODEV, data) < 0) { perror("mount"); return 1; }
  if (send_fd(atoi(commfd), fd) < 0) { perror("sendmsg"); umount2(mnt, MNT_DETACH); return 1; }
  return 0;
}
