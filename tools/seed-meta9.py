#!/usr/bin/env python3
# Writes seeded/<name>/meta.json for the round-5 seeds from the static descriptions below and the
# results of tools/seed-all (lines "<name> applies=.. caught_by: ..") given as files on the command line.
import json, re, subprocess, sys

D = {
 "C01-8": ("C01", "journalHeaderOffset rounds up wrongly when a journal segment ends exactly on a sector boundary: LiteFS's own rollback stops after that segment", "multi-segment hot journal with a non-last segment of k*sector/8 records, rolled back by LiteFS (demotion, halt lock, restart)", "C01, C05 (C17's sector-aligned segments catch it)", ""),
 "C02-8": ("C02", "same mechanism as C01-8 (another spelling of the round-up)", "see C01-8", "", ""),
 "C03-8": ("C03", "DB.checksum attributes WAL pages to checksum block pgno/256: the last page of a block (256, 512, ...) is attributed to the next block", "WAL transaction writing page 512 of a >512-page database with no other page of that block in the log", "", ""),
 "C04-8": ("C04", "DB.checksum ignores the 'removed' WAL entries of truncated pages behind the new end inside the last block", "WAL shrink to a size above 256 pages that is not a block boundary, cut-off pages still in the file", "", ""),
 "C05-7": ("C05", "same as C17-5 (WAL reader rejects 64 KiB pages)", "see C17-5", "C05 (C17 catches it)", ""),
 "C06-8": ("C06", "DB.setPos returns early when the new TXID is lower than the current one: a node resnapshotted to a lower TXID keeps its old position", "former primary with unreplicated writes rejoins a primary with a lower TXID", "", ""),
 "C07-8": ("C07", "WriteDatabaseAt lets a non-writeable node write database pages when the writer holds the exclusive WAL checkpoint lock", "replica, WAL mode, lock byte 121 of -shm then a page write", "", ""),
 "C08-7": ("C08", "consul Lease.Close deletes the lease key unconditionally instead of releasing the lock of its own session", "loser of an acquire race closes its unused session / an expired primary cleans up late",
           "C08: the fake Consul ignored plain DELETE requests (classified 'other'); the replay reported non-conformance only", "fake Consul implements DELETE of the lease key; monitor deletes-key-held-by-another-session"),
 "C09-8": ("C09", "DB.Open skips the replay of the newest LTX file for a database without pages: a dropped database restarts at position 0 with its log still there", "drop, restart, re-create under the same name", "C09 (C15's restart verdict and C05 catch it)", ""),
 "C10-7": ("C10", "same mechanism as C11-4 (no write lock while catching up under the remote halt lock), demonstrated through Export", "see C11-4", "C10 (C11 catches it)", ""),
 "C11-7": ("C11", "applying a drop no longer resets the replica's in-memory journal mode: after re-creation with a rollback journal the WAL lock set is used", "WAL database dropped and re-created in rollback mode while the replica keeps running; a reader on the replica",
           "C11, C15: no re-creation in the other journal mode with a reader on the replica", "C11 replicaRecreateScenario"),
 "C12-8": ("C12", "GuardSet.UnlockSHM releases the SHM locks in a loop that stops before DMS", "release-all on close of the -shm descriptor / internal write lock in WAL mode", "C12, C11: release-all paths were not compared lock by lock (DMS is taken by every connection)", "C12 stage releaseAll"),
 "C13-7": ("C13", "same as C07-7", "see C07-7", "", ""),
 "C14-7": ("C14", "same as C09-5", "see C09-5", "C14 (C09's replica retention stage catches it)", ""),
 "C15-7": ("C15", "same as C11-7", "see C11-7", "C15 (C11 catches it)", "see C11-7"),
 "C16-7": ("C16", "http.Client.Import builds the query with url.PathEscape: '+' and '&' in a database name are not escaped", "database names containing '+' or '&'", "C16, C20: one plain database name", "C16 stage namedDatabases"),
 "C17-7": ("C17", "WALReader.ReadFrame computes frame checksums in native byte order instead of the order the WAL header announces", "WAL with big-endian checksum magic", "", ""),
 "C18-7": ("C18", "WritePosMapTo skips entries at position zero but still writes the full count", "a database at position 0/0 in the map", "", ""),
 "C19-7": ("C19", "the proxy caches the tracked database lookup (sync.Once): nil is cached for good when the first lookup precedes the database", "first cookie read / first write response before the tracked database exists on the node",
           "C19: after the late snapshot only a cookie already reached was tried", "freshReplica: cookie ahead after the snapshot; lateDatabaseOnPrimary"),
 "C20-7": ("C20", "Store.notifyEvent calls sub.Stop() (which takes the store mutex again) when a subscriber's buffer overflows: the node deadlocks", "GET /events whose client stops reading, 1025 events", "C20: no request volume", "C20 stage eventsSlowClient (HTTP/2 window 0, 1100 transactions)"),
}

def readme_first_para(name):
    try:
        t = open(f"/verif/seeded/{name}/README.md").read()
    except OSError:
        return ""
    m = re.search(r"^# (.*)$", t, re.M)
    return m.group(1).strip() if m else ""

res = {}
for f in sys.argv[1:]:
    for line in open(f):
        m = re.match(r"^(C\d\d-\d) applies=(\S+) builds=(\S+) without:(.*?) with:(.*?) \[(.*?)\] ran: (.*?) caught_by:\s*(.*)$", line.strip())
        if m:
            res[m.group(1)] = m.groups()
head = subprocess.run(["git", "-C", "/repo", "rev-parse", "--short", "HEAD"], capture_output=True, text=True).stdout.strip()
table = {}
for line in open("/verif/tools/seed-table.txt"):
    p = line.rstrip("\n").split("\t")
    if len(p) >= 3:
        table[p[0]] = p
for name, (prop, change, needs, missed, strengthened) in D.items():
    r = res.get(name)
    if not r:
        print("no result for", name)
        continue
    if change == "see README":
        change = readme_first_para(name)
        needs = "see seeded/%s/README.md" % name
    ok = r[1] == "yes" and r[2] == "yes" and "145 of 145" in r[5] and r[3].strip() == "rc=0" and r[4].strip() != "rc=0"
    meta = {
        "property": prop, "change": change, "needs": needs,
        "caught_by": r[7].split(),
        "checks_run": r[6].split(),
        "missed_first": [missed] if missed else [],
        "strengthened": strengthened,
        "demo_cmd": table.get(name, ["", "", ""])[1],
        "what_i_ran": [f"tools/seed-run {name} (fresh worktree of /repo HEAD; demo passes without the patch ({r[3].strip()}); git apply patch.diff; go build ./...; demo fails with the patch ({r[4].strip()}); {r[5]}; tools/check-against <worktree> <check> quick for {r[6].strip()}; worktree removed)"],
        "confirmed_on_repo_head": head,
        "confirmed": ok,
    }
    json.dump(meta, open(f"/verif/seeded/{name}/meta.json", "w"), indent=1)
    print(name, "confirmed" if ok else "NOT CONFIRMED", "caught_by:", meta["caught_by"])
