#!/usr/bin/env python3
# Writes seeded/<name>/meta.json for the round-5 seeds from the static descriptions below and the
# results of tools/seed-all (lines "<name> applies=.. caught_by: ..") given as files on the command line.
import json, re, subprocess, sys

D = {
 "C01-6": ("C01", "handlePostStream subscribes to change sets only after the initial set of databases has been sent: a commit during that pass on an already-streamed database reaches nobody",
           "several large databases, a replica joining, a commit during the join on the database already received, then an idle primary", "C01, C06: joins happened against an idle primary",
           "C01 stage commitDuringJoin (two 12 MiB databases, sim.FaultClient.HoldAfter stops the replica in the middle of its initial set)"),
 "C02-6": ("C02", "isJournalHeaderValid rejects the legal page size 65536: every journal finalisation of a 64 KiB-page database is treated as a rollback", "page_size = 65536", "", ""),
 "C03-6": ("C03", "DB.UnlockDatabase (flush of a database-file descriptor) drops all guards of the owner, WAL_WRITE_LOCK included: SHMHandle.Flush then skips the capture",
           "WAL writer killed after the commit frame; the kernel flushes the database descriptor before the -shm descriptor", "C03: connections are not killed between commit frame and unlock (C11's close edges caught it)", ""),
 "C04-6": ("C04", "truncateDatabase resets the checksums behind the new end only when pageN < db.pageN", "WAL mode, more than 256 pages, shrink to a size that is not a multiple of 256, checkpoint, commit outside the last block", "", ""),
 "C05-5": ("C05", "JournalReader.Next treats a journal that is exactly one header sector long as EOF (>= instead of >)", "crash inside the first write transaction of a new database", "", ""),
 "C06-6": ("C06", "DB.OpenLTXFile wraps its error: os.IsNotExist in streamLTX no longer sees a missing file, the snapshot fallback is dead", "replica behind a retention cut / inside the snapshot range of a promoted node", "", ""),
 "C07-6": ("C07", "consul Lease.Renew stamps renewedAt before the round trip: failed renewals look fresh, a partitioned primary never steps down", "Consul leaser, renewals failing for longer than the TTL", "C07: the in-memory lease service, not the Consul leaser (C08's Consul stage caught it)", ""),
 "C08-5": ("C08", "handlePostStream no longer rebinds the request to the primary-scoped context: an ex-primary keeps serving its subscribers", "connected replica, primary loses its lease while staying up",
           "C08, C01: no connected replica while the store under test loses its lease", "C08 stage streamEndsWithTenure (real primary + replica, lease expired / node demoted)"),
 "C09-6": ("C09", "removeFilesExcept keeps transaction files whose TXID lies beyond the received snapshot", "deposed primary with unreplicated transactions receives a snapshot", "C09: forks are C06's scripts", ""),
 "C10-5": ("C10", "TryAcquireWriteLock (rollback mode) no longer takes SHARED exclusively", "export in flight, then an internal writer (import, forwarded commit, apply)", "C10: gated writers are client writers", ""),
 "C11-5": ("C11", "the checkpoint-lock gate of DB.TryLocks asks InWriteTx() (RESERVED) instead of the WAL write lock", "WAL mode, another owner holds WAL_WRITE_LOCK, CKPT requested", "", ""),
 "C12-6": ("C12", "RWMutexGuard.CanLock of a shared holder returns excl == nil instead of sharedN == 1", "query by a shared holder while another owner holds shared", "", ""),
 "C13-5": ("C13", "same change as C07-5 (handlePostTx refuses only when another primary is known)", "see README", "C13: see C07-5", ""),
 "C14-5": ("C14", "lfsc readResponseError formats the position-mismatch error with %s: errors.As no longer finds it, the primary never adopts the service's snapshot", "LiteFS Cloud client, service forked at a lower TXID", "", ""),
 "C15-5": ("C15", "streamLTXSnapshot records the primary's current position for the replica instead of the snapshot's", "drop while a joining replica's snapshot is in transfer", "C15, C10", ""),
 "C16-5": ("C16", "importToLTX treats EOF on a page boundary as the end of the image", "image cut exactly on a page boundary", "C16, C20: truncated images were cut inside a page",
           "C16/C20: four forms of truncated images (inside a page, on a page boundary, header only, zero page count)"),
 "C17-5": ("C17", "WALReader.ReadHeader rejects page size 65536 (>= instead of >)", "64 KiB pages, WAL, LiteFS-side checkpoint", "C17 quick: 64 KiB pages only in the thorough tier; C03: capture does not use WALReader",
           "C17: 65536 in the quick tier, every legal size in the thorough tier"),
 "C18-5": ("C18", "chunk.Writer emits an end-of-body marker after a Write of an exact multiple of 65535 bytes", "exact multiple followed by more data", "", ""),
 "C19-5": ("C19", "CompileMatch no longer quotes regular-expression metacharacters of the configured glob patterns", "pattern with a dot and a write path that differs exactly there", "C19: patterns without metacharacters",
           "C19: patterns *.js, /pt.v1/*, /pt+x/*, /af.v1/* and look-alike paths"),
 "C20-5": ("C20", "importToLTX starts its checksum at ChecksumFlag: an image whose header announces zero pages encodes as a valid deletion", "POST /import of a 100-byte header with page count 0", "C20, C16: no zero-page-count body", "see C16-5"),
}

def readme_first_para(name):
    try:
        t = open(f"/verif/seeded/{name}/README.md").read()
    except OSError:
        return ""
    m = re.search(r"^# (.*)$", t, re.M)
    return m.group(1).strip() if m else ""

res = {}
for f in sys.argv[1:]:
    for line in open(f):
        m = re.match(r"^(C\d\d-\d) applies=(\S+) builds=(\S+) without:(.*?) with:(.*?) \[(.*?)\] ran: (.*?) caught_by: (.*)$", line.strip())
        if m:
            res[m.group(1)] = m.groups()
head = subprocess.run(["git", "-C", "/repo", "rev-parse", "--short", "HEAD"], capture_output=True, text=True).stdout.strip()
table = {}
for line in open("/verif/tools/seed-table.txt"):
    p = line.rstrip("\n").split("\t")
    if len(p) >= 3:
        table[p[0]] = p
for name, (prop, change, needs, missed, strengthened) in D.items():
    r = res.get(name)
    if not r:
        print("no result for", name)
        continue
    if change == "see README":
        change = readme_first_para(name)
        needs = "see seeded/%s/README.md" % name
    ok = r[1] == "yes" and r[2] == "yes" and "145 of 145" in r[5] and r[3].strip() == "rc=0" and r[4].strip() != "rc=0"
    meta = {
        "property": prop, "change": change, "needs": needs,
        "caught_by": r[7].split(),
        "checks_run": r[6].split(),
        "missed_first": [missed] if missed else [],
        "strengthened": strengthened,
        "demo_cmd": table.get(name, ["", "", ""])[1],
        "what_i_ran": [f"tools/seed-run {name} (fresh worktree of /repo HEAD; demo passes without the patch ({r[3].strip()}); git apply patch.diff; go build ./...; demo fails with the patch ({r[4].strip()}); {r[5]}; tools/check-against <worktree> <check> quick for {r[6].strip()}; worktree removed)"],
        "confirmed_on_repo_head": head,
        "confirmed": ok,
    }
    json.dump(meta, open(f"/verif/seeded/{name}/meta.json", "w"), indent=1)
    print(name, "confirmed" if ok else "NOT CONFIRMED", "caught_by:", meta["caught_by"])
