#!/usr/bin/env python3
# Writes seeded/<name>/meta.json for the round-5 seeds from the static descriptions below and the
# results of tools/seed-all (lines "<name> applies=.. caught_by: ..") given as files on the command line.
import json, re, subprocess, sys

D = {
 "C01-7": ("C01", "DB.updateSHM: the guard that swallows client writes to the -shm file no longer covers the InvalidateSHM call; a dirty mapped page written back by the kernel lands on top of the new wal-index header",
           "WAL-mode replica, a client mapping of -shm page 0 that is dirty when a transaction is applied", "C01 (NOT caught): the simulated page cache never writes a dirty -shm page back", ""),
 "C02-7": ("C02", "CommitForwardedLTX holds the halt mutex only for the holder check: the lock can expire or be released while the body of POST /tx is still arriving, the file is applied anyway", "halt lock expiry or release in the middle of a forwarded commit's upload, a local transaction in between", "C02: single-node replay (C13's overlapped commit/expiry catches it)", ""),
 "C03-7": ("C03", "UnsetRemoteHaltLock runs the recovery without the write lock", "another connection of the holder is inside a WAL commit when the lock is released", "C03, C13, C11: releases happened with no other connection active",
           "C11 replicaHaltCatchUpScenario, second part: release while another connection has a transaction open"),
 "C04-7": ("C04", "same as C03-7 (UnsetRemoteHaltLock delegates to the variant without the write lock)", "see C03-7", "C04, C13, C11", "see C03-7"),
 "C05-6": ("C05", "restoreDBFromBackup renames the service's snapshot into the log (removing all other files) before it takes the write lock", "restore while an application transaction is open, then that transaction commits",
           "C05, C14: sync passes ran with no open transaction", "C14 scenario runRestoreWithOpenTx (chain monitor + restart)"),
 "C06-7": ("C06", "CommitForwardedLTX holds the halt mutex only for the holder check: the lock can expire or be released while the body of POST /tx is still arriving, the file is applied anyway", "see C02-7", "C06 (C13 catches it)", ""),
 "C07-7": ("C07", "UnsetRemoteHaltLock clears the local reference to the halt lock before it waits for in-flight transactions", "a rollback-journal commit of another connection is between its authority check and its forwarding decision when the lock is released",
           "C07, C13", "C13 RTx option release-race (release from another connection when CommitJournal creates its file) + directed script"),
 "C08-6": ("C08", "processHandoff sends the lease id to the subscriber without a time-out: a wedged stream handler blocks the lease monitor loop, renewals stop, the node stays primary", "handoff requested for a replica whose stream handler is busy",
           "C08 (NOT caught): no busy subscriber during a handoff; a monitor 'primary implies a recent renewal' would need a TTL above the 5 s hand-off time-out", ""),
 "C09-7": ("C09", "same as C05-6", "see C05-6", "C09, C14", "see C05-6"),
 "C10-6": ("C10", "CommitForwardedLTX holds the halt mutex only for the holder check: the lock can expire or be released while the body of POST /tx is still arriving, the file is applied anyway", "see C02-7, an export during the apply", "C10 (C13 catches it)", ""),
 "C11-6": ("C11", "CommitForwardedLTX holds the halt mutex only for the holder check: the lock can expire or be released while the body of POST /tx is still arriving, the file is applied anyway (variant: the mutex is taken only after the upload)", "see C02-7", "C11 (C13 catches it)", ""),
 "C12-7": ("C12", "the owner's guard set is removed from the database's owner table when its last lock is released, without excluding a concurrent request of the same owner", "two requests of one owner at once",
           "C12, C11: one request per owner at a time", "C12 stage sameOwner (three goroutines of one owner, then every lock must be obtainable by another owner)"),
 "C13-6": ("C13", "AcquireWriteLock evaluates the 'this halt lock id is already granted' callback once instead of on every attempt", "acquire repeated with the same id while the first request still waits for a local writer",
           "C13: duplicates were delivered after the first request had been answered", "AcquireRace option D + directed script acquire-repeated-while-waiting; both answers must agree"),
 "C14-6": ("C14", "streamBackupDBSnapshot returns db.Pos() read after WriteTx instead of the snapshot's position", "continuous backup monitor, a commit during the snapshot upload",
           "C14 (NOT caught): passes are driven through Store.SyncBackup, which discards that value; the monitor goroutine's cached position map is not exercised", ""),
 "C15-6": ("C15", "the change-set notification channel is unbuffered: a notification sent while the stream goroutine is busy is lost", "drop (or commit) while the primary's stream goroutine is busy with another database", "C15 (C01's commitDuringJoin catches it)", ""),
 "C16-6": ("C16", "same as C20-4 (handlePostImport without the primary-scoped context)", "see C20-4", "C16 (C07 ImportRace catches it)", ""),
 "C17-6": ("C17", "AcquireHaltLock announces the lock before the recovery it implies has run", "same-id retry and a forwarded commit during the recovery",
           "C17, C13, C11 (NOT caught): no request arrives during the recovery inside AcquireHaltLock", ""),
 "C18-6": ("C18", "processLTXStreamFrame verifies but no longer drains the chunked body of a transaction the node itself created: the next frame is decoded two bytes early", "a replica's forwarded transaction comes back on its stream followed by further frames",
           "C18: codec functions only, no consuming store; C13: stream errors are tolerated", "repl.StreamConsumer (a real replica reads a stream with its own transaction followed by HWM / heartbeat / end frames)"),
 "C19-6": ("C19", "ApplyLTXNoLock publishes the new position before it truncates / removes the database file", "a read with the cookie of a shrinking or deleting transaction during its apply", "C19, C04 (C01's position-change monitor catches it)", ""),
 "C20-6": ("C20", "CommitForwardedLTX holds the halt mutex only for the holder check: the lock can expire or be released while the body of POST /tx is still arriving, the file is applied anyway", "see C02-7", "C20 (C13 catches it)", ""),
}

def readme_first_para(name):
    try:
        t = open(f"/verif/seeded/{name}/README.md").read()
    except OSError:
        return ""
    m = re.search(r"^# (.*)$", t, re.M)
    return m.group(1).strip() if m else ""

res = {}
for f in sys.argv[1:]:
    for line in open(f):
        m = re.match(r"^(C\d\d-\d) applies=(\S+) builds=(\S+) without:(.*?) with:(.*?) \[(.*?)\] ran: (.*?) caught_by:\s*(.*)$", line.strip())
        if m:
            res[m.group(1)] = m.groups()
head = subprocess.run(["git", "-C", "/repo", "rev-parse", "--short", "HEAD"], capture_output=True, text=True).stdout.strip()
table = {}
for line in open("/verif/tools/seed-table.txt"):
    p = line.rstrip("\n").split("\t")
    if len(p) >= 3:
        table[p[0]] = p
for name, (prop, change, needs, missed, strengthened) in D.items():
    r = res.get(name)
    if not r:
        print("no result for", name)
        continue
    if change == "see README":
        change = readme_first_para(name)
        needs = "see seeded/%s/README.md" % name
    ok = r[1] == "yes" and r[2] == "yes" and "145 of 145" in r[5] and r[3].strip() == "rc=0" and r[4].strip() != "rc=0"
    meta = {
        "property": prop, "change": change, "needs": needs,
        "caught_by": r[7].split(),
        "checks_run": r[6].split(),
        "missed_first": [missed] if missed else [],
        "strengthened": strengthened,
        "demo_cmd": table.get(name, ["", "", ""])[1],
        "what_i_ran": [f"tools/seed-run {name} (fresh worktree of /repo HEAD; demo passes without the patch ({r[3].strip()}); git apply patch.diff; go build ./...; demo fails with the patch ({r[4].strip()}); {r[5]}; tools/check-against <worktree> <check> quick for {r[6].strip()}; worktree removed)"],
        "confirmed_on_repo_head": head,
        "confirmed": ok,
    }
    json.dump(meta, open(f"/verif/seeded/{name}/meta.json", "w"), indent=1)
    print(name, "confirmed" if ok else "NOT CONFIRMED", "caught_by:", meta["caught_by"])
