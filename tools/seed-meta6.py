#!/usr/bin/env python3
# Writes seeded/<name>/meta.json for the round-5 seeds from the static descriptions below and the
# results of tools/seed-all (lines "<name> applies=.. caught_by: ..") given as files on the command line.
import json, re, subprocess, sys

D = {
 "C01-5": ("C01", "Store.monitorLease runs Store.Recover after a primary term only when that term ended with an error: a clean demotion or handoff skips the WAL checkpoint / journal rollback",
           "WAL-mode primary with un-checkpointed frames is demoted cleanly, then receives a transaction from the new primary that touches none of those pages", "C01, C13: no clean demotion of a WAL-mode primary in the scripts", ""),
 "C02-5": ("C02", "the FUSE unlink handler of the journal answers success when DB.RemoveJournal reports ErrReadOnlyReplica",
           "write authority is lost between the last page write and the journal unlink (DELETE mode)", "C02: no role changes in DBFile.tla (C07's subject)", ""),
 "C03-5": ("C03", "readWALPageOffsets records every valid frame, not only frames of committed transactions: LiteFS's own checkpoint copies rolled-back frames into the database",
           "committed WAL transaction, then a spilled transaction that rolls back, then a LiteFS checkpoint (halt lock, role change)", "C03 quick: sampled", ""),
 "C04-5": ("C04", "rollbackJournalSegment skips the last page of the pre-transaction database (>= instead of >)",
           "hot journal whose transaction modified the last page, rolled back by LiteFS (role change, halt lock, restore)", "C04, C07, C13: LiteFS-side rollbacks of a hot journal are C05's crash stages", ""),
 "C05-4": ("C05", "DB.recover plays the journal back only when db.Mode() is rollback; DB.Open derives the mode from an uncommitted page 1",
           "crash inside the transaction that switches the database to WAL mode", "", ""),
 "C06-5": ("C06", "same change as C01-5 (Recover only after a failed primary term), demonstrated on a demoted fork with a hot journal that is resnapshotted", "see README", "", ""),
 "C07-5": ("C07", "handlePostTx refuses only when the node knows another primary (info != nil): a node that has given up its lease and follows nobody yet accepts forwarded commits",
           "demotion while a replica holding the halt lock has a forwarded commit in flight", "C07, C13: the state 'not primary, no primary known, halt lock still granted' is reached by C20's longer request sequences only", ""),
 "C08-4": ("C08", "the lease id received in a handoff frame is cleared only when AcquireExisting fails: a node that became primary by handoff takes the lease back after handing it on",
           "two chained handoffs through the same node", "C08: the trace specification rejected the runs (non-conformance) but no monitor stated the rule",
           "monitor handoff/acqx-reuses-a-consumed-frame (a handoff frame starts at most one tenure), also for calls parked at the end of a script"),
 "C09-5": ("C09", "DB.EnforceRetention honours the backup high-water mark only on the node that is primary at sweep time",
           "a replica with a backup client, the backup behind, a retention sweep on the replica", "C09, C14: retention sweeps ran on primaries only",
           "C09 stage replica-retention (two nodes sharing a file backup service; sweep on both after a partial sync)"),
 "C10-4": ("C10", "same change as C03-5, demonstrated through Export / WriteSnapshotTo after a role-change checkpoint", "see README", "", ""),
 "C11-4": ("C11", "processLTXStreamFrame skips AcquireWriteLock for the files a lagging replica is catching up on under the remote halt lock",
           "replica behind the primary, halt lock granted at a position it has not reached, a local reader holding SHARED", "C11, C13: stream applies ran on up-to-date replicas",
           "C11 replicaHaltCatchUpScenario (sim.FaultClient.Hold/Resume: connected but nothing delivered)"),
 "C12-5": ("C12", "ParseSHMLockRange tests READ3's upper bound against READ4: the one-byte range of read mark 3 names no lock",
           "three WAL readers on different snapshots and a checkpointer", "C12: drove the mutexes through lock types, not through byte ranges (C11 does, and caught it)",
           "C12 stage byteRanges (every range around the lock bytes vs the definition)"),
 "C13-4": ("C13", "http.Client.Commit treats 409 Conflict as success", "forwarded commit after the lock expired / was released / the primary changed", "", ""),
 "C14-4": ("C14", "WriteSnapshotTo no longer compares the checksum of the copied pages with the position", "snapshot upload racing a checkpointer and a WAL restart", "C14: no concurrent writers during a pass (C10's gated schedules have them)", ""),
 "C15-4": ("C15", "the stream handshake skips databases with zero pages: a node joining after a drop never learns the dropped database's position", "drop, new node joins, promotion, recreate", "C15: no node joins between drop and recreate", ""),
 "C16-4": ("C16", "handleGetExport sets Content-Length from the page count read before DB.Export takes its locks", "GET /export while an import of a larger image holds the write lock",
           "C16, C10: exports were taken through DB.Export or after the import", "C16 stage exportDuringImport (HTTP, body of the import held back, three size relations)"),
 "C17-4": ("C17", "CheckpointNoLock truncates the database only when the commit size differs from db.PageN()", "shrinking WAL transaction followed by a LiteFS checkpoint", "", ""),
 "C18-4": ("C18", "ReadPosMapFrom stops at a clean EOF: a position map cut at an entry boundary is accepted as a smaller map", "input ends right after the count or after a complete entry", "", ""),
 "C19-4": ("C19", "proxyToTarget assigns the application's response headers instead of adding them: the __txid cookie is lost when the application sets a cookie of its own",
           "write through the primary whose response carries Set-Cookie, then a read on a lagging replica", "C19: the stub application set no cookies; a missing cookie after a write was not a verdict",
           "stub application sets two cookies and a multi-valued header on every response; monitor P3/no-cookie-after-write"),
 "C20-4": ("C20", "handlePostImport passes the raw request context to DB.Import: an import waiting for the write lock is not cancelled when the lease is lost", "import blocked by a halt lock, demotion, lock released", "C20: no role change while a request waits (C07 ImportRace has it)", ""),
}

def readme_first_para(name):
    try:
        t = open(f"/verif/seeded/{name}/README.md").read()
    except OSError:
        return ""
    m = re.search(r"^# (.*)$", t, re.M)
    return m.group(1).strip() if m else ""

res = {}
for f in sys.argv[1:]:
    for line in open(f):
        m = re.match(r"^(C\d\d-\d) applies=(\S+) builds=(\S+) without:(.*?) with:(.*?) \[(.*?)\] ran: (.*?) caught_by: (.*)$", line.strip())
        if m:
            res[m.group(1)] = m.groups()
head = subprocess.run(["git", "-C", "/repo", "rev-parse", "--short", "HEAD"], capture_output=True, text=True).stdout.strip()
table = {}
for line in open("/verif/tools/seed-table.txt"):
    p = line.rstrip("\n").split("\t")
    if len(p) >= 3:
        table[p[0]] = p
for name, (prop, change, needs, missed, strengthened) in D.items():
    r = res.get(name)
    if not r:
        print("no result for", name)
        continue
    if change == "see README":
        change = readme_first_para(name)
        needs = "see seeded/%s/README.md" % name
    ok = r[1] == "yes" and r[2] == "yes" and "145 of 145" in r[5] and r[3].strip() == "rc=0" and r[4].strip() != "rc=0"
    meta = {
        "property": prop, "change": change, "needs": needs,
        "caught_by": r[7].split(),
        "checks_run": r[6].split(),
        "missed_first": [missed] if missed else [],
        "strengthened": strengthened,
        "demo_cmd": table.get(name, ["", "", ""])[1],
        "what_i_ran": [f"tools/seed-run {name} (fresh worktree of /repo HEAD; demo passes without the patch ({r[3].strip()}); git apply patch.diff; go build ./...; demo fails with the patch ({r[4].strip()}); {r[5]}; tools/check-against <worktree> <check> quick for {r[6].strip()}; worktree removed)"],
        "confirmed_on_repo_head": head,
        "confirmed": ok,
    }
    json.dump(meta, open(f"/verif/seeded/{name}/meta.json", "w"), indent=1)
    print(name, "confirmed" if ok else "NOT CONFIRMED", "caught_by:", meta["caught_by"])
