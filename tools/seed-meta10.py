#!/usr/bin/env python3
# Writes seeded/<name>/meta.json for the round-10 seeds from the static descriptions below and the
# results of tools/seed-all (lines "<name> applies=.. caught_by: ..") given as files on the command line.
import json, re, subprocess, sys

D = {
 "C01-9": ("C01", "http.Client.Commit treats only status >= 500 as failure: a forwarded commit the primary refuses with 409/404/400 counts as accepted", "replica writes under the halt lock, the lock expires on the primary between acquisition and commit", "C01 (C13's expiry scripts catch it: holder-commit-returned-before-primary-applied)", ""),
 "C02-9": ("C02", "CommitJournal sets its 'published' flag before the rename that publishes the LTX file: when the rename is refused the cut-off page checksums are not restored", "shrinking rollback-journal transaction whose LTX rename fails", "", ""),
 "C03-9": ("C03", "buildTxFrameOffsets treats every read error of the WAL as 'no transaction': CommitWAL returns success without capturing", "a WAL read inside CommitWAL fails with something other than EOF (handle that cannot be read)", "C03, C04: no failure paths were exercised (only crashes)", "failure-path sweep (Faults.tla, harness/faults): wal_commit / unreadable"),
 "C04-9": ("C04", "DB.TruncateWAL clears the in-memory WAL index before the truncate that can fail", "import over a WAL with committed frames, the WAL truncate fails", "superseded: after the repair db9dc9b (Import checkpoints instead of truncating) the demonstration passes with the change applied; on the tree before it the sweep reported export-is-not-the-committed-image/import/wal_frames/error//Truncate:TRUNCATEWAL and position-checksum-is-not-the-checksum-of-the-pages/after-the-next-wal-commit/...", "failure-path sweep: import"),
 "C05-8": ("C05", "CommitJournal tests '!ok' before 'err != nil' on isJournalHeaderValid: an open error is handled as 'no valid header', the commit reports success and no LTX file is written", "the open with op ISJOURNALHDRVALID fails (EMFILE)", "C05, C02: no failure paths", "failure-path sweep: rb_commit (success-without-a-new-position, checksum, export)"),
 "C06-9": ("C06", "removeFilesExcept never reports an unlink error (first-error condition inverted): a snapshot is 'applied' while the node's old transaction files stay in its log", "former primary with an unreplicated transaction is resnapshotted while unlink fails, is promoted again, a replica at the branch point reconnects", "C06: no OS failures in cluster scripts", "C06 snapshotCleanupFails; failure-path sweep replica_snapshot (replica-chain, C09)"),
 "C07-9": ("C07", "ReleaseRemoteHaltLock talks to the primary first and clears the local record only after the answer: when the answer is lost the former holder stays writable", "release whose response is lost after the primary executed it", "C07, C13: a lost release answer was not followed by writes on the former holder", "Authority.tla ReleaseLost; C07 role exholder(release-answer-lost)"),
 "C08-8": ("C08", "Store.setClusterID stores the ID in memory before the file is written: after one failed write the node acts under an ID it has not stored", "new member (no stored ID), one I/O failure inside setClusterID, the ordinary retry", "C08: no OS failures", "C08 clusterIDPersist (Faults.tla set_cluster_id)"),
 "C09-9": ("C09", "CommitJournal renames the LTX file into the log before the primary has accepted the forwarded commit", "replica under the halt lock whose forwarded commit is refused or times out", "C09 (C13 catches it)", ""),
 "C10-8": ("C10", "same change as C04-9 (TruncateWAL clears the WAL index first), demonstrated through Export", "see C04-9", "superseded by db9dc9b, see C04-9", "failure-path sweep: import (export monitor)"),
 "C11-8": ("C11", "AcquireHaltLock registers the halt lock before db.recover(): when the recovery fails the registration stays without locks behind it", "halt request whose recovery step fails, then a retry with the same id while a local connection is in a transaction", "C11 (C13 catches it)", ""),
 "C12-9": ("C12", "AcquireHaltLock's deferred cleanup tests a shadowed err instead of the named result: the write locks are kept when a later step fails", "halt request with a failing recovery step; the node runs on", "C12, C13: no failure paths", "failure-path sweep: halt (locks: write-lock-left-behind, halt-lock-not-grantable, repetition-fails)"),
 "C13-8": ("C13", "CommitJournal forwards only when primary info is known: a holder that has lost its primary publishes locally and reports success", "holder's stream ends with no primary findable, the application commits in that window", "C13, C07: the holder was never cut off between two of its transactions", "C13 directed/holder-loses-its-primary"),
 "C14-8": ("C14", "streamBackupDB reports any error of opening a local LTX file as a position mismatch: the primary adopts the service's older snapshot", "transient open error (EMFILE) on an LTX file during a sync while the primary is ahead", "C14: no OS failures", "failure-path sweep: backup_sync (sync-moved-the-primary-backwards)"),
 "C15-8": ("C15", "RootNode.Remove logs a failing DB.Drop instead of returning it: unlink reports success although nothing was dropped", "a step inside DB.Drop fails (LTX rename refused)", "C15: no failure paths", "failure-path sweep: drop (unlink-succeeded-without-a-drop)"),
 "C16-8": ("C16", "same change as C04-9, demonstrated through Import + Export", "see C04-9", "superseded by db9dc9b, see C04-9", "failure-path sweep: import"),
 "C17-8": ("C17", "rollbackJournal's deferred cleanup tests a shadowed err: the hot journal is unlinked although the playback failed", "LiteFS's own rollback with a failing step after the database file is opened", "C17: no failure paths in the rollback", "failure-path sweep: recover / halt / import on a hot journal (journal group)"),
 "C18-8": ("C18", "ReadStreamFrame returns the shadowed outer err: a non-EOF read error inside a frame's payload is dropped and the half-filled frame is returned", "connection reset inside a frame", "C18: truncated inputs ended with EOF only", "C18 frames cut by a connection error (ECONNRESET at every cut point)"),
 "C19-8": ("C19", "processHandoff sends the lease ID to the target before the last renewal: when that renewal fails the old node goes on as primary while the target holds the lease", "handoff with a failing renewal at that step", "C19 (C08 catches it)", ""),
 "C20-8": ("C20", "AcquireHaltLock's unlock-on-error defer removed; the recovery error path returns with the write lock held", "POST /halt whose recovery step fails", "C20, C13: no failure paths", "failure-path sweep: halt (locks)"),
}

def readme_first_para(name):
    try:
        t = open(f"/verif/seeded/{name}/README.md").read()
    except OSError:
        return ""
    m = re.search(r"^# (.*)$", t, re.M)
    return m.group(1).strip() if m else ""

res = {}
for f in sys.argv[1:]:
    for line in open(f):
        m = re.match(r"^(C\d\d-\d) applies=(\S+) builds=(\S+) without:(.*?) with:(.*?) \[(.*?)\] ran: (.*?) caught_by:\s*(.*)$", line.strip())
        if m:
            res[m.group(1)] = m.groups()
head = subprocess.run(["git", "-C", "/repo", "rev-parse", "--short", "HEAD"], capture_output=True, text=True).stdout.strip()
table = {}
for line in open("/verif/tools/seed-table.txt"):
    p = line.rstrip("\n").split("\t")
    if len(p) >= 3:
        table[p[0]] = p
for name, (prop, change, needs, missed, strengthened) in D.items():
    r = res.get(name)
    if not r:
        print("no result for", name)
        continue
    if change == "see README":
        change = readme_first_para(name)
        needs = "see seeded/%s/README.md" % name
    ok = r[1] == "yes" and r[2] == "yes" and "145 of 145" in r[5] and r[3].strip() == "rc=0" and r[4].strip() != "rc=0"
    meta = {
        "property": prop, "change": change, "needs": needs,
        "caught_by": r[7].split(),
        "checks_run": r[6].split(),
        "missed_first": [missed] if missed else [],
        "strengthened": strengthened,
        "demo_cmd": table.get(name, ["", "", ""])[1],
        "what_i_ran": [f"tools/seed-run {name} (fresh worktree of /repo HEAD; demo passes without the patch ({r[3].strip()}); git apply patch.diff; go build ./...; demo fails with the patch ({r[4].strip()}); {r[5]}; tools/check-against <worktree> <check> quick for {r[6].strip()}; worktree removed)"],
        "confirmed_on_repo_head": head,
        "confirmed": ok,
    }
    if name in ("C04-9", "C10-8", "C16-8"):
        meta["status"] = "superseded by the repair db9dc9b: with it the change no longer breaks the property (demonstration passes with the change applied); kept for the record, not counted"
    json.dump(meta, open(f"/verif/seeded/{name}/meta.json", "w"), indent=1)
    print(name, "confirmed" if ok else "NOT CONFIRMED", "caught_by:", meta["caught_by"])
