#!/usr/bin/env python3
# Writes seeded/<name>/meta.json for the round-11 seeds from the static descriptions below and the
# results of tools/seed-all (lines "<name> applies=.. caught_by: ..") given as files on the command line.
import json, re, subprocess, sys

D = {
 "C01-10": ("C01", "processLTXStreamFrame, when it skips a streamed file carrying the node's own ID, sets the position to that file's without applying a page", "forwarded commit executed by the primary, response lost, writer gives up (journal rolled back on release), the echo of the transaction arrives", "C01 (C13's lost-response scripts catch it)", ""),
 "C02-10": ("C02", "UnsetRemoteHaltLock runs its recovery only if the position moved under the lock", "holder's writer dies with a hot journal before anything was committed under the lock, then the lock is released", "C02, C13: a release was never preceded by a dead writer", "C13 directed scripts holder-writer-dies(-on-other-pages)-then-release"),
 "C03-10": ("C03", "CommitWAL returns success at once when the node is no longer writable", "lease lost between the commit frame and the release of WRITE", "C03 (C07 catches it)", ""),
 "C04-10": ("C04", "monitorLease 'continue's after a primary term that ended with an error: Store.Recover is skipped", "primary with a dead client's hot journal loses its lease through a failing renewal, the next primary rewrites the dirty pages, the stream breaks once", "C04, C08: leases were lost by demotion, never by a failing renewal with state to clean up", "Faults.tla role_change (harness/faults/transitions.go)"),
 "C05-9": ("C05", "monitorLease runs Store.Recover only when the primary term ended cleanly", "WAL-mode primary with un-checkpointed frames loses its lease through ErrLeaseExpired, the next primary's transaction arrives", "C05, C08, C01, C06: as C04-10", "Faults.tla role_change"),
 "C06-10": ("C06", "AcquireRemoteHaltLock releases the lock after a failed acquisition on the already expired context: the primary keeps the lock until its TTL", "replica whose copy is still empty, acquisition that times out, first write within the TTL (relies on /tx accepting a TXID-1 file at any position)", "superseded: the exemption it relies on was a defect of the unchanged tree (offered to /tx as a new bad-file class, repaired by 2ad157b); with the repair the demonstration passes with the change applied", "C06 offered files: tx-only:txid-1-file-of-another-history-at-2"),
 "C07-10": ("C07", "processHandoff sends the lease ID to the target before the last renewal (as C19-8)", "handoff whose single renewal fails", "C07 (C08 catches it)", ""),
 "C08-9": ("C08", "monitorLeaseAsPrimary marks the node primary before the cluster-ID step; an early return from that step leaves lease and primary flag set", "lease-service call fails, or returns a foreign ID, right after Acquire", "", ""),
 "C09-10": ("C09", "restoreDBFromBackup publishes the fetched snapshot (replacing the log) before it holds the write lock", "primary behind the backup service, a local writer holds the write lock, the primary context is cancelled while the restore waits", "C09 (C14 catches it)", ""),
 "C10-9": ("C10", "Store.Recover calls the lock-free db.recover", "lease renewal refused while a WAL-mode export is in flight, a commit after the export captured its position", "C10: LiteFS's own checkpoint was DB.Checkpoint only", "C10: the checkpoint actor alternates DB.Checkpoint and Store.Recover"),
 "C11-9": ("C11", "ReleaseHaltLock with an id that is not current releases the current lock", "late duplicate DELETE /halt of a former lock while another node holds the lock", "C11 (C13 catches it)", ""),
 "C12-10": ("C12", "Export takes its temporary WRITE lock through a guard that is not part of the guard set its error paths release", "export whose context ends while it waits for CKPT held by a checkpointer", "C12, C10: composite acquisitions were never given up while blocked", "C12 stage compositeCancelled (every blocking lock x Export / WriteSnapshotTo / AcquireWriteLock / AcquireHaltLock / Recover)"),
 "C13-9": ("C13", "AcquireHaltLock tests the request context after the lock is installed: the deferred unlock frees the write lock, the lock record stays", "POST /halt given up inside the primary's grant-time recovery, repeated with the same id, local writer on the primary", "C13: no request was abandoned inside the grant", "C13 Acquire with Intr (directed acquire-abandoned-then-repeated)"),
 "C14-9": ("C14", "the continuous backup loop logs a failed upload and goes on with its stale position map", "upload executed by the service, answer lost, one more commit before the map is refreshed", "C14: lost answers were injected in one-shot passes only", "C14 runContinuousLostAnswer"),
 "C15-9": ("C15", "EnforceRetention may delete the newest LTX file of a database without pages (the drop's file)", "drop, retention period passes, primary restarts", "C15 (C09's retention stage catches it)", ""),
 "C16-9": ("C16", "UnsetRemoteHaltLockNoLock checkpoints instead of recovering: a stale remote lock is cleared without rolling back a hot journal", "holder with an open journal transaction whose grant expires, import on the primary, stream cut and reconnect", "C16 (C13's holder-writer-dies-then-expiry catches it)", ""),
 "C17-9": ("C17", "UnsetRemoteHaltLock checkpoints instead of recovering: the hot journal of a failed forwarded commit is not rolled back at release", "forwarded commit lost, client gives up, lock released", "C17, C13: as C02-10", "C13 directed scripts holder-writer-dies-then-release"),
 "C18-9": ("C18", "handoff / drop frames read their string with io.ReadAll(LimitReader): a stream that ends inside the string yields a shorter string without error", "stream ending inside the lease ID of a handoff frame", "", ""),
 "C19-9": ("C19", "consul Lease.Renew stamps renewedAt before the call (deferred): failed renewals look fresh", "renewals failing with connection errors for longer than the TTL", "C19 (C08's Consul stage catches it)", ""),
 "C20-9": ("C20", "handlePostStream closes its change-set subscription only in the teardown installed after the position map was read", "POST /stream with an empty / truncated position map or a connection cut in the body", "C20: the fingerprint did not include stream subscribers", "C20 snapshot field Subs"),
}

def readme_first_para(name):
    try:
        t = open(f"/verif/seeded/{name}/README.md").read()
    except OSError:
        return ""
    m = re.search(r"^# (.*)$", t, re.M)
    return m.group(1).strip() if m else ""

res = {}
for f in sys.argv[1:]:
    for line in open(f):
        m = re.match(r"^(C\d\d-\d+) applies=(\S+) builds=(\S+) without:(.*?) with:(.*?) \[(.*?)\] ran: (.*?) caught_by:\s*(.*)$", line.strip())
        if m:
            res[m.group(1)] = m.groups()
head = subprocess.run(["git", "-C", "/repo", "rev-parse", "--short", "HEAD"], capture_output=True, text=True).stdout.strip()
table = {}
for line in open("/verif/tools/seed-table.txt"):
    p = line.rstrip("\n").split("\t")
    if len(p) >= 3:
        table[p[0]] = p
for name, (prop, change, needs, missed, strengthened) in D.items():
    r = res.get(name)
    if not r:
        print("no result for", name)
        continue
    if change == "see README":
        change = readme_first_para(name)
        needs = "see seeded/%s/README.md" % name
    ok = r[1] == "yes" and r[2] == "yes" and "145 of 145" in r[5] and r[3].strip() == "rc=0" and r[4].strip() != "rc=0"
    meta = {
        "property": prop, "change": change, "needs": needs,
        "caught_by": r[7].split(),
        "checks_run": r[6].split(),
        "missed_first": [missed] if missed else [],
        "strengthened": strengthened,
        "demo_cmd": table.get(name, ["", "", ""])[1],
        "what_i_ran": [f"tools/seed-run {name} (fresh worktree of /repo HEAD; demo passes without the patch ({r[3].strip()}); git apply patch.diff; go build ./...; demo fails with the patch ({r[4].strip()}); {r[5]}; tools/check-against <worktree> <check> quick for {r[6].strip()}; worktree removed)"],
        "confirmed_on_repo_head": head,
        "confirmed": ok,
    }
    if name in ("C06-10",):
        meta["status"] = "superseded by the repair 2ad157b: with it the change no longer breaks the property (demonstration passes with the change applied); kept for the record, not counted"
    json.dump(meta, open(f"/verif/seeded/{name}/meta.json", "w"), indent=1)
    print(name, "confirmed" if ok else "NOT CONFIRMED", "caught_by:", meta["caught_by"])
