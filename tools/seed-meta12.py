#!/usr/bin/env python3
# Writes seeded/<name>/meta.json for the round-12 seeds from the static descriptions below and the
# results of tools/seed-all (lines "<name> applies=.. caught_by: ..") given as files on the command line.
import json, re, subprocess, sys

D = {
 "C01-11": ("C01", "writeDatabasePage sends the kernel invalidation only for pages up to the current page count", "replica whose application has the pages cached; the database shrinks and grows again over the same page numbers (or is dropped and re-created)", "C01: the page-cache model dropped a database's pages with its directory entry, and no history shrank and regrew under a reader", "eager page-cache model (sim.CacheSim.Eager: a reader re-reads every dropped page at the moment of the invalidation; pages survive a drop while a descriptor is open); replica histories shrink-then-regrow / drop-then-recreate (faults/cluster.go), group replica-mount"),
 "C02-11": ("C02", "JournalNode.Setattr finalises the journal on any SETATTR, not only on a size change", "chmod / chown / utimes on the journal while its header carries the magic", "C02, C07: no attribute change in mid-transaction", "sweep variant rb_commit/chmod; a reference run that fails is an observation"),
 "C03-11": ("C03", "the CKPT gate of TryLocks asks InWriteTx() (RESERVED) instead of the WAL write lock", "second owner asks for CKPT between a commit frame and the writer's unlock", "C03 (C11's lock graph catches it)", ""),
 "C04-11": ("C04", "setPos invalidates the position file before it stores the new position", "application that keeps <db>-pos open and re-reads it when the kernel drops it", "C04: the position file was never read through a cache", "CacheSim.CachedPos + monitor position-file-read-through-the-mount-is-stale (group posfile; C01's replica sweep reports it as replica-position-file-is-stale)"),
 "C05-10": ("C05", "journalHeaderOffset: alignment off by one when the offset is already sector-aligned", "multi-segment journal whose non-final segment ends on a sector boundary, death before the LTX rename", "C05 (C17's sector-aligned segments catch it)", ""),
 "C06-11": ("C06", "ApplyLTXNoLock sends one whole-file invalidation BEFORE it writes a snapshot's pages and none afterwards", "resnapshot of a node whose pages are cached, a read between the notification and the rewrite", "C06, C01: invalidations were modelled as taking effect at once, nobody re-read in between", "eager page-cache model; replica_snapshot with replica-mount"),
 "C07-11": ("C07", "TruncateDatabase refuses only growth: a size below the committed size is accepted", "ftruncate / open(O_TRUNC) of the database on a node without authority", "C07: truncation was only tried at the current size", "Authority.tla operation DBShrink"),
 "C08-10": ("C08", "PrimaryNode stores the primary info of its first lookup", "the kernel keeps the inode of .primary across a change of primary", "not counted: no listed property speaks about the .primary file (C08 is about the node's own role); realised as C08 stage primaryFile whose observations are recorded as a lead (lead_primary_file), never as a verdict", "C08 primaryFile (lead)"),
 "C09-11": ("C09", "processLTXStreamFrame skips every frame whose MaxTXID is not beyond the local TXID", "former primary rejoining ahead / at the same TXID with another checksum", "C09 (C06's fork scripts catch it)", ""),
 "C10-10": ("C10", "streamBackupDBSnapshot reports db.Pos() read after the upload instead of the snapshot's own position", "commit between the snapshot's capture and the service's acknowledgement", "C10 (C14's continuous monitor catches it)", ""),
 "C11-10": ("C11", "DB.Unlock releases the guards before CommitWAL has captured the transaction", "second connection asks for WRITE / CKPT inside the first one's unlock", "", ""),
 "C12-11": ("C12", "UnlockDatabase (close of a database descriptor) releases the owner's SHM locks too", "WAL connection that opens and closes a second descriptor of the database file", "C12: release-all was not checked against the locks of the OTHER file", "C12 releaseAll: the lock on the other file survives"),
 "C13-10": ("C13", "the FUSE lock handle uses the request's lock-owner value as halt-lock id", "two replicas whose applications use the same lock-owner value", "C13: one requester only", "C13 step TAcquire (second node, same owner value): second-node-granted..., holder-lost-the-lock-to-another-nodes-request"),
 "C14-10": ("C14", "as C06-11 (snapshot invalidated before it is written), demonstrated through the backup adoption", "see C06-11", "", ""),
 "C15-10": ("C15", "ApplyLTXNoLock sends no page invalidation for the first transaction of an empty database", "drop and re-creation arriving as ordinary files on a replica whose application kept the database open", "C15, C01: see C01-11", "see C01-11 (drop-then-recreate history)"),
 "C16-10": ("C16", "ApplyLTXNoLock invalidates only pages up to the previous size", "import / replicated growth over pages the kernel still has cached from before a shrink or from a dead writer", "C16 (C01's shrink-then-regrow history catches it on the replica)", ""),
 "C17-10": ("C17", "journal playback no longer invalidates the restored pages; only DB.Recover ends with a whole-file invalidation, the direct callers of db.recover (halt-lock grant, stale remote lock) do not", "dead writer's hot journal rolled back through a halt-lock request, then a read through the mount", "C17: the rolled-back bytes were compared in the file only", "sweep group mount (warm page cache before, stale-page monitor after; reference run included)"),
 "C18-10": ("C18", "HWMStreamFrame.WriteTo truncates names of 245..256 bytes (fixed fields share the buffer)", "database name of 245..256 bytes", "", ""),
 "C19-10": ("C19", "the proxy forwards a write to the local application when no primary is known after the redirect time-out", "non-primary node without primary info", "", ""),
 "C20-10": ("C20", "SubscribeChangeSet evicts an existing subscription with the same node ID", "malformed POST /stream carrying a connected replica's node ID", "", ""),
}

def readme_first_para(name):
    try:
        t = open(f"/verif/seeded/{name}/README.md").read()
    except OSError:
        return ""
    m = re.search(r"^# (.*)$", t, re.M)
    return m.group(1).strip() if m else ""

res = {}
for f in sys.argv[1:]:
    for line in open(f):
        m = re.match(r"^(C\d\d-\d+) applies=(\S+) builds=(\S+) without:(.*?) with:(.*?) \[(.*?)\] ran: (.*?) caught_by:\s*(.*)$", line.strip())
        if m:
            res[m.group(1)] = m.groups()
head = subprocess.run(["git", "-C", "/repo", "rev-parse", "--short", "HEAD"], capture_output=True, text=True).stdout.strip()
table = {}
for line in open("/verif/tools/seed-table.txt"):
    p = line.rstrip("\n").split("\t")
    if len(p) >= 3:
        table[p[0]] = p
for name, (prop, change, needs, missed, strengthened) in D.items():
    r = res.get(name)
    if not r:
        print("no result for", name)
        continue
    if change == "see README":
        change = readme_first_para(name)
        needs = "see seeded/%s/README.md" % name
    ok = r[1] == "yes" and r[2] == "yes" and "145 of 145" in r[5] and r[3].strip() == "rc=0" and r[4].strip() != "rc=0"
    meta = {
        "property": prop, "change": change, "needs": needs,
        "caught_by": r[7].split(),
        "checks_run": r[6].split(),
        "missed_first": [missed] if missed else [],
        "strengthened": strengthened,
        "demo_cmd": table.get(name, ["", "", ""])[1],
        "what_i_ran": [f"tools/seed-run {name} (fresh worktree of /repo HEAD; demo passes without the patch ({r[3].strip()}); git apply patch.diff; go build ./...; demo fails with the patch ({r[4].strip()}); {r[5]}; tools/check-against <worktree> <check> quick for {r[6].strip()}; worktree removed)"],
        "confirmed_on_repo_head": head,
        "confirmed": ok,
    }
    if name in ("C08-10",):
        meta["status"] = "not counted: the change breaks an observable (the .primary file) that no listed property speaks about; the machinery records it as a lead, not as a verdict"
    json.dump(meta, open(f"/verif/seeded/{name}/meta.json", "w"), indent=1)
    print(name, "confirmed" if ok else "NOT CONFIRMED", "caught_by:", meta["caught_by"])
