#!/usr/bin/env python3
# Writes seeded/<name>/meta.json for the round-5 seeds from the static descriptions below and the
# results of tools/seed-all (lines "<name> applies=.. caught_by: ..") given as files on the command line.
import json, re, subprocess, sys

D = {
 "C01-4": ("C01", "the stream handler skips a database whose position equals the replica's TXID without comparing checksums",
           "a replica on a fork of the same length (equal TXID, different checksum) reconnects", "", ""),
 "C02-4": ("C02", "truncateDatabase skips the file operation when the requested size equals db.pageN, so a truncate issued by SQLite never cuts the file",
           "rollback after a cache spill of a growing transaction, or a shrinking commit (VACUUM)", "", ""),
 "C03-4": ("C03", "DB.Unlock releases the guards (WAL_WRITE_LOCK included) before it runs CommitWAL",
           "a second connection takes WAL_WRITE_LOCK, commits and releases while the first connection's capture is in flight",
           "C03, C11: single-connection replay only", "two-writers stage (WalRelease.tla; harness/twowriters): a second connection asks for WRITE at every labelled file operation of the first connection's capture and commits if granted"),
 "C04-4": ("C04", "processLTXStreamFrame clears a stale remote halt lock (and so rolls a hot journal back) after ApplyLTXNoLock instead of before",
           "holder's writer dies with a hot journal, the lock expires on the primary, the primary commits a transaction touching the same pages",
           "C04, C13, C01: no interrupted writer on a halt-lock holder", "C13 step RDie + directed scripts holder-writer-dies-*; exit monitor for such scripts"),
 "C05-3": ("C05", "see README", "see README", "", ""),
 "C06-4": ("C06", "WriteLTXFileAt joins its two position checks with && instead of ||: a file wrong in exactly one of (min TXID, pre-apply checksum) is accepted on /tx",
           "halt lock held, then a fork transaction of equal length or a file with the right checksum under a skipped TXID",
           "C06, C20: the offered-files stage sent /tx without holding the halt lock (refused by the holder check since the /tx repair), so no file reached the position check",
           "offered.go takes the halt lock first and offers files wrong in exactly one coordinate (reencodeLTX)"),
 "C07-4": ("C07", "monitorLeaseAsPrimary destroys the lease before setLease(nil): between the two the node still accepts commits although another node may hold the lease",
           "a commit step that begins after the lease service has processed the destroy request",
           "C07, C08: authority was taken from IsPrimary(); the moment of the destroy call was not an observation point",
           "Authority.tla role 'destroying' (operations attempted from inside the lease service's destroy call); C08 monitor primary/while-destroying-lease"),
 "C08-3": ("C08", "see README", "see README", "", ""),
 "C09-4": ("C09", "see README", "see README", "", ""),
 "C10-3": ("C10", "see README", "see README", "", ""),
 "C11-3": ("C11", "DB.UnlockSHM (flush of the -shm handle) calls guardSet.Unlock() and drops the owner's database-file locks too",
           "a connection holding EXCLUSIVE on the database file closes its -shm descriptor (journal_mode=DELETE on a WAL database)",
           "C11, C02: ShmFlush was only replayed in configurations without database-file locks; the section monitor read LiteFS's own guard sets",
           "MC_DBLocks_walclose*.cfg, independent record of the connections' locks, directed journal-mode-switch scenario"),
 "C12-4": ("C12", "RWMutex.RLock(ctx) returns the context's error after a successful TryRLock without releasing",
           "the context is cancelled exactly when the lock becomes available",
           "C12: no cancellation inside the acquire", "RWMutexCancel.tla + cancel stage (five cancellation points per blocking scenario)"),
 "C13-3": ("C13", "ReleaseHaltLock with an identifier that is not the current lock's clears the current lock",
           "a late or repeated release of a former lock arrives while the lock is granted again under another id",
           "C13: sampled scripts rarely combine Dup(unhalt) with a second handle", "directed scripts late-release-of-former-lock / late-release-after-expiry"),
 "C14-3": ("C14", "restoreDBFromBackup runs CheckpointNoLock instead of recover: a hot journal survives the restore and is rolled back over the adopted snapshot later",
           "interrupted transaction on the primary, service ahead, restore, then a recovery",
           "C14, C16: no interrupted transactions in Backup.tla", "Backup.tla Crash/Recover (hot, stale), MC_Backup_emit_hot.cfg, steps X/V in the harness"),
 "C15-3": ("C15", "see README", "see README", "", ""),
 "C16-3": ("C16", "see README", "see README", "", ""),
 "C17-3": ("C17", "see README", "see README", "", ""),
 "C18-3": ("C18", "WriteStreamFrame keeps its encode buffer in a pool and does not reset it after a failed write",
           "a frame write fails part-way on one connection, the next frame goes to another connection",
           "C18: writers never failed", "CodecStreams.tla + streams stage (failing writers, several streams)"),
 "C19-3": ("C19", "monitorLeaseAsReplica keeps primaryInfo after a clean end of the stream",
           "the primary shuts down in an orderly way and nobody takes over; then a write arrives at the replica's proxy",
           "C19, C08: 'no primary known' was realised by cutting the stream (error path) and judged by the node's own belief",
           "phase E departed-primary: orderly shutdown, judged against the lease service"),
 "C20-3": ("C20", "handlePostTx checks the request context instead of IsPrimary(): a demoted node with a still-granted halt lock accepts /tx",
           "halt granted, then handoff (node not primary any more), then /tx with the lock id",
           "C20, C07: MC_API explores one effective request before the judged one", "MC_API_deep.cfg (4 effective requests over the well-formed classes); API.tla corrected: DELETE /halt is served by every role"),
}

def readme_first_para(name):
    try:
        t = open(f"/verif/seeded/{name}/README.md").read()
    except OSError:
        return ""
    m = re.search(r"^# (.*)$", t, re.M)
    return m.group(1).strip() if m else ""

res = {}
for f in sys.argv[1:]:
    for line in open(f):
        m = re.match(r"^(C\d\d-\d) applies=(\S+) builds=(\S+) without:(.*?) with:(.*?) \[(.*?)\] ran: (.*?) caught_by: (.*)$", line.strip())
        if m:
            res[m.group(1)] = m.groups()
head = subprocess.run(["git", "-C", "/repo", "rev-parse", "--short", "HEAD"], capture_output=True, text=True).stdout.strip()
table = {}
for line in open("/verif/tools/seed-table.txt"):
    p = line.rstrip("\n").split("\t")
    if len(p) >= 3:
        table[p[0]] = p
for name, (prop, change, needs, missed, strengthened) in D.items():
    r = res.get(name)
    if not r:
        print("no result for", name)
        continue
    if change == "see README":
        change = readme_first_para(name)
        needs = "see seeded/%s/README.md" % name
    ok = r[1] == "yes" and r[2] == "yes" and "145 of 145" in r[5] and r[3].strip() == "rc=0" and r[4].strip() != "rc=0"
    meta = {
        "property": prop, "change": change, "needs": needs,
        "caught_by": r[7].split(),
        "checks_run": r[6].split(),
        "missed_first": [missed] if missed else [],
        "strengthened": strengthened,
        "demo_cmd": table.get(name, ["", "", ""])[1],
        "what_i_ran": [f"tools/seed-run {name} (fresh worktree of /repo HEAD; demo passes without the patch ({r[3].strip()}); git apply patch.diff; go build ./...; demo fails with the patch ({r[4].strip()}); {r[5]}; tools/check-against <worktree> <check> quick for {r[6].strip()}; worktree removed)"],
        "confirmed_on_repo_head": head,
        "confirmed": ok,
    }
    json.dump(meta, open(f"/verif/seeded/{name}/meta.json", "w"), indent=1)
    print(name, "confirmed" if ok else "NOT CONFIRMED", "caught_by:", meta["caught_by"])
