#!/usr/bin/env python3
"""Assemble /verif/MANIFEST.json from manifest.d/_base.json and one fragment per check."""
import json, glob, os, sys
root = os.path.dirname(os.path.dirname(os.path.abspath(__file__)))
base = json.load(open(os.path.join(root, "manifest.d", "_base.json")))
checks = []
enabled = set(open(os.path.join(root, "manifest.d", "_enabled.txt")).read().split())
for p in sorted(glob.glob(os.path.join(root, "manifest.d", "C*.json"))):
    c = json.load(open(p))
    if c["property_id"] in enabled:   # fragments of checks still under construction are not registered
        checks.append(c)
base["checks"] = checks
claimed = {c["property_id"] for c in checks}
props = [json.loads(l)["id"] for l in open(os.path.join(root, "properties.jsonl"))]
na = json.load(open(os.path.join(root, "manifest.d", "_not_applicable.json")))
base["not_applicable"] = [e for e in na if e["property_id"] not in claimed]
missing = [p for p in props if p not in claimed and p not in {e["property_id"] for e in base["not_applicable"]}]
for p in missing:
    base["not_applicable"].append({"property_id": p, "reason": "check not built yet (work in progress; the design in DESIGN.md section 6 applies)"})
json.dump(base, open(os.path.join(root, "MANIFEST.json"), "w"), indent=1)
open(os.path.join(root, "MANIFEST.json"), "a").write("\n")
try:
    import jsonschema
    jsonschema.validate(base, json.load(open("/root/.vp/MANIFEST.schema.json")))
    print("MANIFEST.json valid,", len(checks), "checks,", len(base["not_applicable"]), "not applicable")
except ImportError:
    print("MANIFEST.json written (jsonschema not available)")
